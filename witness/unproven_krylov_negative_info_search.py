import numpy as np, emg3d, warnings, itertools, scipy.sparse.linalg as ssl
warnings.simplefilter('ignore')
rec=[]
for name in ['bicgstab','cgs','gcrotmk']:
    orig=getattr(ssl,name)
    def wrap(*a,_o=orig,_n=name,**k):
        out=_o(*a,**k); rec.append((_n,out[1])); return out
    setattr(ssl,name,wrap)
rng=np.random.default_rng(0)
found=0;tot=0
for trial in range(400):
    n=[int(rng.choice([2,3,4,6,8])) for _ in range(3)]
    h=[np.ones(k)*10*rng.uniform(1,1.3)**np.arange(k) for k in n]
    grid=emg3d.TensorMesh(h,origin=(0,0,0))
    model=emg3d.Model(grid,10**rng.uniform(-2,2,grid.shape_cells))
    f=float(rng.choice([-1.0,1.0,-0.01,100.]))
    sf=emg3d.fields.Field(grid,frequency=f)
    # random interior source
    for comp in (sf.fx,sf.fy,sf.fz):
        pass
    sf.fx[:,1:-1,1:-1]=rng.standard_normal(sf.fx[:,1:-1,1:-1].shape)
    if sf.field.dtype==complex: sf.fx[:,1:-1,1:-1]+=1j*rng.standard_normal(sf.fx[:,1:-1,1:-1].shape)
    if not np.any(sf.field): continue
    sslv=str(rng.choice(['bicgstab','cgs'])); cyc=rng.choice(['F','V',None]); cyc=None if cyc is None or cyc=='None' else str(cyc)
    tol=float(rng.choice([1e-1,1e-2,1e-4,1e-8,1e-12]))
    rec.clear()
    try:
        ef,info=emg3d.solve(model,sf,sslsolver=sslv,cycle=cyc,tol=tol,return_info=True,maxit=int(rng.choice([1,3,20,200])),verb=-1)
    except Exception as e:
        print('EXC',type(e).__name__,e,n,sslv,cyc,tol); continue
    tot+=1
    if rec and rec[-1][1]<0:
        print('neg info',rec[-1],'exit',info['exit'],info['exit_message'],n,f,sslv,cyc,tol)
        if info['exit']==0: found+=1
print(tot,found)
