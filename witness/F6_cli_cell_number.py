import numpy as np, emg3d, warnings, os
warnings.simplefilter('ignore')
from emg3d.cli.main import main as cmain
hx=np.ones(8)*50
grid=emg3d.TensorMesh([hx,hx,hx],origin=(0,0,0))
model=emg3d.Model(grid,1.0)
src=emg3d.TxElectricDipole((200,200,200,0,0))
rec=[emg3d.RxElectricPoint((x,225,210,0,0)) for x in (120,290)]
s=emg3d.Survey(src,rec,[1.0],noise_floor=1e-15, relative_error=0.05)
emg3d.save('survey.h5',survey=s,verb=0); emg3d.save('model.h5',model=model,verb=0)
open('c.cfg','w').write("[gridding_opts]\ncell_number = 8, 16, 32\ncenter_on_edge=True\n[solver_opts]\nplain=True\n")
import sys; sys.argv=["emg3d","c.cfg"]
try:
    cmain(['c.cfg','-d','-n','1'])
    print('OK')
except BaseException as e:
    print('ERR',type(e).__name__,e)
