"""F28 (written by an auditing sub-agent, C10 witness 4): C10 witness 4: a dipole / wire segment lying in the UPPER boundary plane of
the grid (x = x_max, y = y_max or z = z_max) yields an all-NaN source field.

_dipole_vector accepts electrodes on the boundary (the `outside` check uses
< and >). The cell search returns index n for a coordinate on the last node,
and the loop `range(ri[0], min(ri[1]+1, n))` is then empty: nothing is
distributed, the sum is 0, the "normalisation guard" divides by 0 and the
whole field becomes NaN (only warnings are issued). The mirror image (segment
in the LOWER boundary plane) works and conserves the moment, as does a point
source on the upper boundary.

Reference: the nominal moment (last - first electrode) and the mirror image.
"""
import sys
import warnings
import numpy as np
import emg3d

bad = False
h = np.array([30., 20., 10., 10., 20., 30.])
grid = emg3d.TensorMesh([h, h, h], origin=(-60, -60, -60))


def moment(points):
    with warnings.catch_warnings(record=True) as w:
        warnings.simplefilter('always')
        f = emg3d.get_source_field(
            grid, emg3d.TxElectricWire(points), frequency=None)
    msgs = sorted(set(str(x.message) for x in w))
    return np.array([f.fx.sum(), f.fy.sum(), f.fz.sum()]), f, msgs


# A wire whose middle segment runs along the top of the grid (z = z_max).
top = grid.nodes_z[-1]
wire_up = np.array([[-25., 5., 20.], [-25., 5., top], [15., 12., top],
                    [15., 12., 20.]])
wire_lo = wire_up * [1, 1, -1]   # mirror image: segment in plane z = z_min

for name, w in [('lower boundary plane', wire_lo),
                ('upper boundary plane', wire_up)]:
    m, f, msgs = moment(w)
    exp = w[-1] - w[0]
    nnan = np.isnan(f.field).sum()
    print(f"wire with a segment in the {name}:")
    print(f"   moment = {m}, expected {exp}; NaNs in field: {nnan} of "
          f"{f.field.size}; warnings: {msgs}")
    if nnan > 0 or not np.allclose(m, exp):
        print("   VIOLATION")
        bad = True

# Same for single dipoles in the planes x = x_max and y = y_max.
for comp in range(2):
    p = np.array([[-5., -5., -5.], [12., 13., 14.]])
    p[:, comp] = [grid.nodes_x[-1], grid.nodes_y[-1]][comp]
    with warnings.catch_warnings(record=True):
        warnings.simplefilter('always')
        f = emg3d.get_source_field(grid, emg3d.TxElectricDipole(p), 1.0)
    m = np.array([f.fx.sum(), f.fy.sum(), f.fz.sum()])
    exp = -f.smu0*(p[1]-p[0])
    ok = np.all(np.isfinite(f.field)) and np.allclose(m, exp)
    print(f"dipole in plane {'xy'[comp]} = {'xy'[comp]}_max: "
          f"finite and conservative: {ok}")
    if not ok:
        bad = True

sys.exit(1 if bad else 0)
