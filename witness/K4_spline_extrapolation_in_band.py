"""K4 (known finding, recorded, not repaired; written by an auditing sub-agent; exit 1 = defect present): C20 witness 1: required frequencies inside [fmin, fmax] but outside the hull
of the computed frequencies are filled by cubic-spline EXTRAPOLATION.

Fourier.interpolate() defines its three groups relative to fmin/fmax
(< fmin: PCHIP towards zero frequency; [fmin, fmax]: spline; > fmax: zero),
but the spline is built on freq_compute only. With a coarse-frequency option
(input_freq or every_x_freq) freq_compute does in general not reach fmin and
fmax. Required frequencies in [fmin, freq_compute[0]) and
(freq_compute[-1], fmax] are then neither "taken or interpolated from the
computed ones", nor "real part held / imaginary part shrinking", nor zero:
InterpolatedUnivariateSpline silently extrapolates (ext=0).

Independent references: the analytic full-space responses of empymod in the
frequency domain and in the time domain, and the rule stated in the property
and the class docstring (real part stays at the lowest computed value).

Exit 1 = property violated, 0 = holds.
"""
import sys
import warnings

import numpy as np
import empymod

from emg3d.time import Fourier

warnings.simplefilter('ignore')

off = 900.0
model = {'src': [0, 0, 0], 'rec': [off, 0, 0], 'res': 1, 'depth': [],
         'verb': 1}
times = np.logspace(-1, 1, 31)
true_t = empymod.dipole(freqtime=times, signal=0, **model)   # analytic

bad = False


def analyse(name, F):
    """Return dict with errors of the filled spectrum / time response."""
    fc = F.freq_compute
    fr = F.freq_required
    fdata = empymod.dipole(freqtime=fc, **model)     # "computed" data
    full = empymod.dipole(freqtime=fr, **model)      # truth, all required
    out = F.interpolate(fdata)
    scale = np.abs(full).max()

    inband = F.ifreq_interpolate
    lo = inband & (fr < fc[0])        # in band, below lowest computed
    hi = inband & (fr > fc[-1])       # in band, above highest computed
    hull = inband & ~lo & ~hi         # true interpolation

    def err(mask):
        return np.abs(out[mask]-full[mask]).max()/scale if mask.any() else 0.

    tdat = F.freq2time(fdata, off)
    terr = np.max(np.abs(tdat-true_t))/np.abs(true_t).max()

    # Rule for everything below the lowest computed frequency: real part is
    # the lowest computed real part (property statement, class docstring).
    below = fr < fc[0]
    dreal = np.abs(out[below].real - fdata[0].real).max()/abs(fdata[0].real)

    print(f"{name}")
    print(f"   band {F.fmin:.4g}-{F.fmax:.4g} Hz; computed "
          f"{fc[0]:.4g}-{fc[-1]:.4g} Hz ({fc.size}); in-band required "
          f"freqs outside computed hull: {lo.sum()} low, {hi.sum()} high")
    print(f"   spectrum error / max|E|: hull {err(hull):.2e}, "
          f"low gap {err(lo):.2e}, high gap {err(hi):.2e}")
    print(f"   max rel. deviation of real part from lowest computed value, "
          f"f < {fc[0]:.4g} Hz: {dreal:.2e}")
    if lo.any():
        i = np.where(lo)[0][0]
        print(f"   jump at fmin: E({fr[i-1]:.4g} Hz)={out[i-1]:.4e}  "
              f"E({fr[i]:.4g} Hz)={out[i]:.4e}")
    print(f"   time-domain error vs analytic / max: {terr:.2e}")
    return dict(hull=err(hull), lo=err(lo), hi=err(hi), terr=terr,
                dreal=dreal, fc=fc, nlo=lo.sum(), nhi=hi.sum())


# ---------------------------------------------------------------- input_freq
inp = np.logspace(-1.3, 1, 12)        # 0.05 ... 10 Hz, 12 frequencies

for ft, ftarg in [('dlf', {}), ('dlf', {'pts_per_dec': 10}), ('fftlog', {})]:
    print(f"\n===== ft={ft}, ftarg={ftarg}, input_freq = 12 freqs "
          "0.05-10 Hz =====")
    # A. Band == hull of the input frequencies: documented rules apply.
    ra = analyse("A: band trimmed to the input frequencies",
                 Fourier(times, inp[0], inp[-1], ft=ft, ftarg=ftarg,
                         input_freq=inp, verb=0))
    # B. SAME computed frequencies, SAME data, only fmax 10 -> 20 Hz.
    rb = analyse("B: same input_freq, fmax = 20 Hz",
                 Fourier(times, inp[0], 20, ft=ft, ftarg=ftarg,
                         input_freq=inp, verb=0))
    # C. SAME computed frequencies, SAME data, only fmin 0.05 -> 0.01 Hz.
    rc = analyse("C: same input_freq, fmin = 0.01 Hz",
                 Fourier(times, 0.01, inp[-1], ft=ft, ftarg=ftarg,
                         input_freq=inp, verb=0))

    assert np.array_equal(ra['fc'], rb['fc'])
    assert np.array_equal(ra['fc'], rc['fc'])

    if rb['nhi'] and rb['hi'] > 10*rb['hull']:
        print("-> VIOLATION (B): in-band values above the highest computed "
              f"frequency are extrapolated; error {rb['hi']/rb['hull']:.0f}x "
              "the interpolation error")
        bad = True
    if rb['terr'] > 2*ra['terr']:
        print("-> VIOLATION (B): identical computed data, time-domain error "
              f"{rb['terr']/ra['terr']:.1f}x larger only because fmax "
              "exceeds the highest computed frequency")
        bad = True
    if rc['nlo'] and rc['dreal'] > 1e-6:
        print("-> VIOLATION (C): below the lowest computed frequency the "
              "real part does not stay at the lowest computed value "
              f"(rel. deviation {rc['dreal']:.2e}, A: {ra['dreal']:.1e})")
        bad = True

# -------------------------------------------------------------- every_x_freq
print("\n===== ft=dlf (lagged), every_x_freq=8 =====")
for fmin in [0.025, 0.03]:
    r = analyse(f"every_x_freq=8, fmin={fmin}",
                Fourier(times, fmin, 20, every_x_freq=8, verb=0))
    if r['nlo'] and r['dreal'] > 1e-6:
        print("-> VIOLATION: real part below the lowest computed frequency "
              f"deviates by {r['dreal']:.2e} from the lowest computed value")
        bad = True
    if r['nhi'] and r['hi'] > 10*r['hull']:
        print("-> VIOLATION: extrapolated in-band values above the highest "
              f"computed frequency, error {r['hi']/r['hull']:.0f}x hull error")
        bad = True

print()
if bad:
    print("RESULT: property C20 VIOLATED (spline extrapolation inside band)")
    sys.exit(1)
print("RESULT: property holds")
sys.exit(0)
