"""F15: mu_r / epsilon_r are averaged with the log flag of the ELECTRICAL
mapping.

Model.interpolate_to_grid and Model.extract_1d average every property in
log10 space for the linear mappings (Resistivity, Conductivity) and
arithmetically for the Lg*/Ln* mappings.  For the mapped properties that is
the same geometric mean; mu_r and epsilon_r are not mapped, so the same
physical model gave other coarse mu_r / epsilon_r (and with them other fields
and data) depending on the parametrisation.  Run with /venv/bin/python;
exit 0 = correct.
"""
import sys
import numpy as np
import emg3d

fine = emg3d.TensorMesh([np.ones(4)*50., np.ones(4)*50., np.ones(4)*50.],
                        (0, 0, 0))
coarse = emg3d.TensorMesh([np.ones(2)*100., np.ones(2)*100.,
                           np.ones(2)*100.], (0, 0, 0))
rng = np.random.default_rng(3)
cond = 10**rng.uniform(-2, 1, fine.shape_cells)
mu_r = rng.uniform(1, 30, fine.shape_cells)
eps_r = rng.uniform(1, 60, fine.shape_cells)
out = {}
for mapping in ('Conductivity', 'Resistivity', 'LgConductivity',
                'LnResistivity'):
    m0 = emg3d.Model(fine, 1.0, mapping=mapping)
    model = emg3d.Model(fine, m0.map.forward(cond), mu_r=mu_r,
                        epsilon_r=eps_r, mapping=mapping)
    new = model.interpolate_to_grid(coarse)
    one = model.extract_1d('prism', p0=(100., 100.), p1=(100., 100.),
                           ellipse={'radius': 80.})
    out[mapping] = (new.map.backward(new.property_x), new.mu_r,
                    new.epsilon_r, one.mu_r, one.epsilon_r)
bad = 0
ref = out['Conductivity']
for k, v in out.items():
    for name, a, b in zip(('sigma', 'mu_r', 'eps_r', 'mu_r 1D', 'eps_r 1D'),
                          ref, v):
        err = np.max(np.abs(a-b)/np.abs(a))
        if err > 1e-12:
            print(f'DEFECT: {name} differs between Conductivity and {k}: '
                  f'{err:.3g}')
            bad += 1
sys.exit(1 if bad else 0)
