"""F17: data weights cached in the survey ignore
a later explicit assignment of the noise parameters.

Simulation.misfit stores 1/std^2 as survey.data['weights'] and re-uses it
whenever it is present.  After `survey.noise_floor = ...` (an explicit
assignment) a NEW simulation on that survey still computes its misfit with
the weights of the old noise model.  Run with /venv/bin/python; exit 0 = correct.
"""
import sys
import numpy as np
import emg3d

hx = np.ones(8)*100.
grid = emg3d.TensorMesh([hx, hx, hx], (-400, -400, -400))
survey = emg3d.surveys.Survey(
    sources=emg3d.TxElectricDipole((0, 0, 0, 0, 0)),
    receivers=[emg3d.RxElectricPoint((x, 0, 0, 0, 0)) for x in (150, 250)],
    frequencies=[1.0], noise_floor=1e-15, relative_error=0.05)
opts = {'gridding': 'same', 'solver_opts': {'tol': 1e-4},
        'tqdm_opts': {'disable': True}}
sim = emg3d.Simulation(survey, emg3d.Model(grid, 1.0), **opts)
sim.compute(observed=True, min_offset=0)
sim2 = emg3d.Simulation(survey, emg3d.Model(grid, 2.0), **opts)
m_old = float(sim2.misfit)
# explicit assignment of another noise model
survey.noise_floor = 1e-11
survey.relative_error = None
sim3 = emg3d.Simulation(survey, emg3d.Model(grid, 2.0), **opts)
got = float(sim3.misfit)
r = sim3.data.synthetic.data - sim3.data.observed.data
want = float(np.sum(np.abs(r)**2/(1e-11)**2)/2)
print('misfit with the new noise model:', got, ' expected:', want,
      ' (old noise model:', m_old, ')')
sys.exit(0 if abs(got-want) <= 1e-9*abs(want) else 1)
