"""F23: Model keeps the caller's array by reference when it is float64 and
Fortran-contiguous (any 1D vector of n_cells values, any order='F' array).

Model._init_parameter used np.asfortranarray (no copy) and a reshape (a view).
Model(grid, property_x=a, property_z=a) followed by `model.property_x = 5`
(the setter writes in place) then also changed property_z and the caller's
array; eta_z differed from that of a freshly built model; changing `a`
afterwards put unvalidated (negative) values into the model.  A C-ordered
array with the same values was copied.  Run with /venv/bin/python; exit 0 =
correct.
"""
import sys
import numpy as np
import emg3d

grid = emg3d.TensorMesh([[10, 20, 30, 40], [5, 6, 7, 8], [1, 2, 3, 4]],
                        (0, 0, 0))
sfield = emg3d.Field(grid, frequency=1.0)
fresh = emg3d.Model(grid, property_x=5.0, property_z=2.0,
                    mapping='Conductivity')
ref = emg3d.models.VolumeModel(fresh, sfield).eta_z
bad = 0
for label, a in (('3D C-order', np.full(grid.shape_cells, 2.0)),
                 ('3D F-order', np.full(grid.shape_cells, 2.0, order='F')),
                 ('1D vector', np.full(grid.n_cells, 2.0))):
    model = emg3d.Model(grid, property_x=a, property_z=a,
                        mapping='Conductivity')
    model.property_x = 5.0
    eta_z = emg3d.models.VolumeModel(model, sfield).eta_z
    ok = np.allclose(eta_z, ref) and a.ravel()[0] == 2.0
    a[...] = -1.0                    # must not reach the model
    ok = ok and np.all(model.property_z > 0)
    print(label, 'independent of the input array:', ok)
    bad += not ok
sys.exit(1 if bad else 0)
