# F40 (C16): with an integer centre and integer distances the survey domain
# was an integer array; `domain[1] = max(domain[1], seasurface)` truncated a
# fractional sea surface and the mesh fell short of
# survey domain (incl. sea surface) + wavelength buffer.
import warnings
import numpy as np
from emg3d import meshes
warnings.simplefilter('ignore')
f, res, c, d, ss = 2.0, 0.3, -100, [300, 200], 150.7
x0, hx, info = meshes.origin_and_widths(
    f, res, c, distance=d, seasurface=ss, center_on_edge=False, verb=-1)
top = x0 + hx.sum()
need = max(c + abs(d[1]), ss) + meshes.wavelength(meshes.skin_depth(f, 1/res))
print(info)
print('mesh top', top, ' required', need)
assert top >= need - 1e-9, "mesh does not cover survey domain + buffer"
