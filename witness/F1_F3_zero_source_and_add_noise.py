import numpy as np, emg3d, warnings
warnings.simplefilter('ignore')
hx=np.ones(8)*10
grid=emg3d.TensorMesh([hx,hx,hx],origin=(0,0,0))
model=emg3d.Model(grid,1.0)
# (1) zero source + supplied efield
sf=emg3d.fields.Field(grid,frequency=1.0)
ef=emg3d.fields.Field(grid,frequency=1.0)
ef.field[:]=1+1j
info=emg3d.solve(model,sf,efield=ef,return_info=True,plain=True)
print('zero-source: exit',info['exit'],info['exit_message'],'max|efield| after', abs(ef.field).max())
# (3) add_noise array noise floor
src=emg3d.TxElectricDipole((40,40,40,0,0))
rec=[emg3d.RxElectricPoint((x,40,40,0,0)) for x in (20,60)]
nf=np.array([[[1e-15],[2e-15]]])
s=emg3d.Survey(src,rec,[1.0,2.0],data=np.ones((1,2,2),dtype=complex),noise_floor=nf, relative_error=0.05)
print('nf before',s.noise_floor.ravel())
s.add_noise()
print('nf after ',s.noise_floor.ravel())
