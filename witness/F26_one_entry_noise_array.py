"""F26: an array-valued noise floor / relative error with exactly one entry is
rejected.

For a survey with a single frequency the documented per-frequency form
`np.array([nf])[None, None, :]` has shape (1, 1, 1); Survey._set_nf_re did
`float(value)` on it, which raises TypeError for arrays that are not
0-dimensional (NumPy >= 2).  Run with /venv/bin/python; exit 0 = correct.
"""
import sys
import numpy as np
import emg3d

s = emg3d.Survey(sources=emg3d.TxElectricDipole((0, 0, 0, 0, 0)),
                 receivers=emg3d.RxElectricPoint((100, 0, 0, 0, 0)),
                 frequencies=[1.0], data=np.ones((1, 1, 1))*(3+4j))
bad = 0
for val in (np.array([1e-15])[None, None, :], [[[2e-15]]], np.array(3e-15)):
    try:
        s.noise_floor = val
        s.relative_error = np.array([0.05])[None, None, :]
        std = s.standard_deviation.data.ravel()[0]
        want = np.sqrt(float(np.ravel(val)[0])**2 + (0.05*5)**2)
        print(np.shape(val), '->', s.noise_floor, std)
        bad += abs(std - want) > 1e-12*want
    except TypeError as e:
        print('DEFECT:', np.shape(val), e)
        bad += 1
sys.exit(1 if bad else 0)
