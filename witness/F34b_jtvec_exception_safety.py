"""F34b (written by an auditing sub-agent, C12 witness 2): C12 witness 2: jtvec is not exception safe. It overwrites data.residual
with vector/weights *before* computing; if the computation inside fails (here:
fields were dropped by clean('keepresults'), the error message of which makes
a user simply re-run compute()), the residual is never restored although the
misfit stays cached. The next `gradient` is then silently computed from the
jtvec-vector instead of the data residual.

Sequence: compute, misfit, clean('keepresults'), jtvec(w) [raises], compute,
gradient.  Reference: freshly created simulation (same model/survey/options).
"""
import sys
import warnings
import numpy as np
import emg3d

warnings.filterwarnings('ignore')
rng = np.random.default_rng(7)

grid = emg3d.TensorMesh([np.ones(8)*200]*3, (-800, -800, -1400))
model = emg3d.Model(grid, rng.uniform(0.5, 2.0, grid.shape_cells))
srcs = [emg3d.TxElectricDipole((-310+i*250, 33, -350, 10*i, 5))
        for i in range(2)]
recs = [emg3d.RxElectricPoint((-100+i*180, 20*i-50, -420, 0, 0))
        for i in range(3)]
shape = (2, 3, 2)
obs = (rng.standard_normal(shape)+1j*rng.standard_normal(shape))*1e-9
survey = emg3d.Survey(srcs, recs, [1.0, 3.0], data=obs,
                      noise_floor=1e-11, relative_error=0.05)
opts = dict(gridding='same', max_workers=1, tqdm_opts=False,
            receiver_interpolation='linear',
            solver_opts={'tol': 1e-8, 'verb': 0})

sim = emg3d.Simulation(survey.copy(), model.copy(), **opts)
sim.compute()
sim.misfit
sim.clean('keepresults')       # drops the fields, keeps data/misfit
w = rng.standard_normal(shape) + 1j*rng.standard_normal(shape)
try:
    sim.jtvec(w)
    print("jtvec did not raise")
except Exception as e:
    print(f"jtvec raised {type(e).__name__}: {e}  -> user re-computes fields")
sim.compute()
grad = sim.gradient.copy()
misfit = sim.misfit
res_ok = np.allclose(sim.data.residual.data,
                     (sim.data.synthetic - sim.data.observed).data)

fresh = emg3d.Simulation(survey.copy(), model.copy(), **opts)
fresh.compute()
misfit_f = fresh.misfit
grad_f = fresh.gradient.copy()

err = np.abs(grad-grad_f).max()/np.abs(grad_f).max()
print(f"misfit   : history {misfit:.8e} ; fresh {misfit_f:.8e}")
print(f"data.residual == synthetic - observed : {res_ok}")
print(f"gradient : max rel. difference to fresh simulation = {err:.2e}")
bad = err > 1e-3 or not res_ok or abs(misfit-misfit_f) > 1e-6*abs(misfit_f)
print("VIOLATED" if bad else "holds")
sys.exit(1 if bad else 0)
