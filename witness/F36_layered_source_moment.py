"""F36: layered (1D) mode did not model the moment of the source.

_multiprocessing.layered handed `src.coordinates` and `src.strength` to
empymod.bipole.  empymod (a) does not know the `length` of a dipole given in
point format (x, y, z, azimuth, elevation): the response was too small by
1/length; (b) applies the strength only if it is > 0: strength = -2 or 0 gave
the response of a unit source; (c) rejects the documented two-electrode format
[[x1, y1, z1], [x2, y2, z2]].  A TxMagneticDipole, which emg3d models as a
loop of electric current (i omega mu I A), was computed as a unit magnetic
dipole.  Reference: empymod.bipole for a unit source times the moment.
Run with /venv/bin/python; exit 0 = correct.
"""
import sys
import numpy as np
import empymod
import emg3d
from scipy.constants import mu_0

hx = np.ones(8)*500.
grid = emg3d.TensorMesh([hx, hx, np.r_[800., 400, 300, 500]],
                        (-2000, -2000, -1500))
res = np.ones(grid.shape_cells)
res[:, :, 1] = 10.
res[:, :, 3] = 0.3
model = emg3d.Model(grid, res)
rec = emg3d.RxElectricPoint((900, 200, -400, 20, 10))
freqs = [0.5, 2.0]
depth = grid.nodes_z[1:-1]
r1d = res[0, 0, :]


def layered(src):
    survey = emg3d.Survey(sources=src, receivers=rec, frequencies=freqs,
                          noise_floor=1e-15, relative_error=0.05)
    sim = emg3d.Simulation(survey, model, layered=True, gridding='same',
                           layered_opts={'method': 'midpoint'},
                           tqdm_opts={'disable': True})
    sim.compute()
    return sim.data.synthetic.data[0, 0, :]


def unit(coords, msrc=False):
    return empymod.bipole(src=coords, rec=rec.coordinates, depth=depth,
                          res=r1d, freqtime=freqs, msrc=msrc, verb=1)


bad = 0
c5 = (-300., 100., -600., 30., 10.)
L = 100.
cases = []
for strength in (1.0, 3.0, -2.0):
    cases.append((f'point format, length {L}, strength {strength}',
                  emg3d.TxElectricDipole(c5, length=L, strength=strength),
                  strength*L*unit(c5)))
pts = emg3d.TxElectricDipole(c5, length=L).points
cases.append(('two electrodes [[..],[..]]',
              emg3d.TxElectricDipole(pts, strength=2.0), 2.0*L*unit(c5)))
cases.append(('electric point, strength -2',
              emg3d.TxElectricPoint(c5, strength=-2.0), -2.0*unit(c5)))
cases.append(('magnetic dipole (loop), length 9',
              emg3d.TxMagneticDipole(c5, length=9.0),
              9.0*2j*np.pi*np.array(freqs)*mu_0*unit(c5, msrc=True)))
for label, src, want in cases:
    try:
        got = layered(src)
        err = np.max(np.abs(got-want)/np.abs(want))
    except Exception as e:
        err = np.inf
        label += f' ({type(e).__name__})'
    print(f'{label:45s} rel. error {err:.2e}')
    bad += not err < 1e-3
sys.exit(1 if bad else 0)
