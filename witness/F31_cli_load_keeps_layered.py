"""F31 (written by an auditing sub-agent for C18): C18 witness 1: `--load` silently turns a layered simulation into a 3D one.

A layered (empymod) simulation is created and saved through the CLI
(`emg3d -f -l --save lay.h5`, noise switched off).  Then the misfit is
requested for the stored simulation, `emg3d -m --load lay.h5`.

The docs (docs/manual/cli.rst) say that with `load` the section [simulation]
(which holds `layered`) is ignored; the equivalent API call is
`Simulation.from_file('lay.h5').misfit`.  As the observed data were created
with exactly this simulation and without noise, the misfit must be 0 and the
synthetic data must equal the observed data.

Observed: run.py does `layered = cfg['simulation_options'].get('layered',
False); if sim.layered != layered: sim.layered = layered`, i.e. the ABSENCE of
`-l` overrules the stored simulation, which is then computed with the 3D
solver (only an INFO line in the log; nothing on screen at default verbosity).
"""
import os
import sys
import shutil
import tempfile
import warnings
import subprocess
import numpy as np
import emg3d

warnings.simplefilter('ignore')
REPO = os.path.dirname(os.path.dirname(os.path.abspath(emg3d.__file__)))
ENV = {**os.environ, 'PYTHONPATH': REPO}


def cli(*args):
    r = subprocess.run([sys.executable, '-m', 'emg3d', *args], env=ENV,
                       capture_output=True, text=True, cwd=REPO)
    return r


tmp = tempfile.mkdtemp()
try:
    # Small survey and a small 3D model with lateral variation.
    src = emg3d.surveys.txrx_coordinates_to_dict(
        emg3d.TxElectricDipole, ([1000, 3000], 2000, 1950, 0, 0))
    rec = emg3d.surveys.txrx_coordinates_to_dict(
        emg3d.RxElectricPoint, (np.arange(5)*500+500, 2200, 1900, 0, 0))
    survey = emg3d.Survey(sources=src, receivers=rec, frequencies=[1.0, 2.0],
                          noise_floor=1e-16, relative_error=0.05)
    hx = np.ones(8)*500
    grid = emg3d.TensorMesh([hx, hx, hx], origin=np.array([0, 0, 0]))
    rng = np.random.default_rng(1)
    model = emg3d.Model(grid, 10**rng.uniform(-0.5, 0.5, grid.shape_cells))
    survey.to_file(os.path.join(tmp, 'survey.h5'), verb=0)
    emg3d.save(os.path.join(tmp, 'model.h5'), model=model, verb=0)

    cfg = os.path.join(tmp, 'emg3d.cfg')
    with open(cfg, 'w') as f:
        f.write("[simulation]\ngridding = same\n"
                "[solver_opts]\nmaxit = 3\n"
                "[noise_opts]\nadd_noise = False\n")

    # 1. Layered forward modelling through the CLI, store the simulation.
    r = cli(cfg, '--path', tmp, '-n', '1', '-f', '-l', '--save', 'lay.h5',
            '--output', 'fwd.h5')
    assert r.returncode == 0, r.stderr
    fwd = emg3d.load(os.path.join(tmp, 'fwd.h5'), verb=0)

    # 2. Misfit of the stored simulation through the CLI.
    r = cli(cfg, '--path', tmp, '-n', '1', '-m', '--load', 'lay.h5',
            '--output', 'mis.h5')
    assert r.returncode == 0, r.stderr
    print("CLI screen output of the --load run (default verbosity):",
          repr((r.stdout + r.stderr).strip()[:300]))
    mis = emg3d.load(os.path.join(tmp, 'mis.h5'), verb=0)

    # 3. Independent reference: the API on the very same simulation file.
    sim = emg3d.Simulation.from_file(os.path.join(tmp, 'lay.h5'), verb=0)
    print("stored simulation is layered       :", sim.layered)
    api_misfit = sim.misfit
    api_data = sim.data.synthetic.data

    rel = np.nanmax(abs(mis['data']-api_data)/abs(api_data))
    print("misfit expected (noise-free data)  : 0.0")
    print("misfit API  from_file(...).misfit  :", api_misfit)
    print("misfit CLI  emg3d -m --load lay.h5 :", float(mis['misfit']))
    print("max rel. diff CLI data vs API data :", rel)
    with open(os.path.join(tmp, 'mis.log')) as f:
        print("log:", [ln for ln in f.read().split('\n') if 'layered' in ln])

    bad = (not np.isclose(float(mis['misfit']), api_misfit, rtol=1e-6,
                          atol=1e-10)) or rel > 1e-6
    print("VIOLATED" if bad else "holds")
    sys.exit(1 if bad else 0)
finally:
    shutil.rmtree(tmp, ignore_errors=True)
