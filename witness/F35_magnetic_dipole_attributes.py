"""F35 (written by an auditing sub-agent, C10 witness 3): C10 witness 3: TxMagneticDipole given by its two electrodes reports the
wrong direction and length, so the two coordinate formats do not round-trip.

For a magnetic dipole the electrodes are replaced by the 5 points of the
square loop. `Dipole.azimuth/elevation` then call
`dipole_to_point(self._points)` on the LOOP (5 points) instead of on the two
dipole electrodes, and `length` is computed as the loop perimeter. Result:
`azimuth`/`elevation` are arrays with the angles of the four loop sides, and
`length` is 4*sqrt(L) instead of L (the same source in the
(x, y, z, azimuth, elevation) format reports L).

Reference: the analytic azimuth/elevation/length of the electrode pair, the
right-handed normal/area of the loop, and the same source in point format.
"""
import sys
import numpy as np
import emg3d

bad = False
az, el, L = 30.0, 20.0, 9.0
c = np.array([10., -20., 5.])
d = np.array([np.cos(np.deg2rad(az))*np.cos(np.deg2rad(el)),
              np.sin(np.deg2rad(az))*np.cos(np.deg2rad(el)),
              np.sin(np.deg2rad(el))])
e1, e2 = c - d*L/2, c + d*L/2

m_pt = emg3d.TxMagneticDipole((*c, az, el), length=L)
m_el = emg3d.TxMagneticDipole([e1, e2])
m_fl = emg3d.TxMagneticDipole(np.array([e1, e2]).ravel('F'))

# The loops themselves agree and are correct (area = L, normal = direction).
for name, m in [('point', m_pt), ('electrodes', m_el), ('flat', m_fl)]:
    pts = m.points
    A = 0.5*sum(np.cross(a-c, b-c) for a, b in zip(pts[:-1], pts[1:]))
    ok = np.allclose(A, d*L)
    print(f"{name:10s}: loop area vector = {A.round(4)} (expected "
          f"{(d*L).round(4)}) -> {ok}")
    if not ok:
        bad = True

# Reported direction and length.
for name, m in [('point', m_pt), ('electrodes', m_el), ('flat', m_fl)]:
    print(f"{name:10s}: azimuth={m.azimuth}, elevation={m.elevation}, "
          f"length={m.length}")
    ok = (np.ndim(m.azimuth) == 0 and np.isclose(m.azimuth, az) and
          np.ndim(m.elevation) == 0 and np.isclose(m.elevation, el) and
          np.isclose(m.length, L))
    if not ok:
        print("            VIOLATION: expected azimuth=30, elevation=20, "
              "length=9")
        bad = True

# Round trip two-electrode form -> centre/azimuth/elevation/length form.
try:
    back = emg3d.TxMagneticDipole(
        (*m_el.center, m_el.azimuth, m_el.elevation), length=m_el.length)
    same = np.allclose(back.points, m_el.points)
    print("round trip electrodes -> point format gives same loop:", same)
    if not same:
        bad = True
except Exception as e:
    print("round trip electrodes -> point format failed:", repr(e)[:100])
    bad = True

sys.exit(1 if bad else 0)
