"""F22: a Simulation with gridding='input' (or 'dict') cannot be loaded.

gridding_opts is then a TensorMesh (a dict of meshes); the file back ends
store it as a tagged dictionary, and Simulation.from_dict handed that
dictionary to the constructor ("Mesh must be a TensorMesh"): load() warned and
returned a plain dict instead of a Simulation, in all three formats.  Run with
/venv/bin/python; exit 0 = correct.
"""
import os
import sys
import tempfile
import warnings
import numpy as np
import emg3d

hx = np.ones(8)*100.
grid = emg3d.TensorMesh([hx, hx, hx], (-400, -400, -400))
cgrid = emg3d.TensorMesh([np.ones(4)*200.]*3, (-400, -400, -400))
survey = emg3d.surveys.Survey(
    sources=emg3d.TxElectricDipole((0, 0, 0, 0, 0)),
    receivers=emg3d.RxElectricPoint((200, 0, 0, 0, 0)),
    frequencies=[1.0], noise_floor=1e-15, relative_error=0.05)
d = tempfile.mkdtemp()
bad = 0
for gridding, gopts in (('input', cgrid),
                        ('dict', {'TxED-1': {'f-1': cgrid}})):
    sim = emg3d.Simulation(survey, emg3d.Model(grid, 1.0), gridding=gridding,
                           gridding_opts=gopts, tqdm_opts={'disable': True})
    for ext in ('h5', 'npz', 'json'):
        f = os.path.join(d, f's_{gridding}.{ext}')
        sim.to_file(f, what='plain', verb=0)
        with warnings.catch_warnings():
            warnings.simplefilter('ignore')
            out = emg3d.load(f, verb=0)['simulation']
        ok = isinstance(out, emg3d.Simulation) and \
            out.get_grid('TxED-1', 'f-1') == cgrid
        print(gridding, ext, type(out).__name__, ok)
        bad += not ok
sys.exit(1 if bad else 0)
