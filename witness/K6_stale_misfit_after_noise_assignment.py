"""K6 (C13, C12): the misfit cached in a Simulation is not invalidated when
the noise model of its survey is assigned afterwards.

    sim.misfit -> m1;  survey.relative_error = 0.5;  sim.misfit -> m1 again,

although the documented formula with the current standard deviation (and a
fresh Simulation on the same survey and model) gives another value.  Exit 1
while the defect is present, 0 otherwise.  (F17 repaired the weights, which
are recomputed whenever the misfit IS computed; the cached value itself is
only reset by clean() / compute().)
"""
import sys
import numpy as np
import emg3d

hx = np.ones(8)*100
grid = emg3d.TensorMesh([hx, hx, hx], origin=(-400, -400, -400))
model = emg3d.Model(grid, 1.0)
survey = emg3d.Survey(
    sources=emg3d.TxElectricDipole((-50, 0, -50, 0, 0)),
    receivers=[emg3d.RxElectricPoint((x, 0, -50, 0, 0)) for x in (100, 200)],
    frequencies=1.0, noise_floor=1e-15, relative_error=0.05)
opts = dict(gridding='same', solver_opts={'tol': 1e-4}, max_workers=1,
            receiver_interpolation='linear', verb=0)
sim = emg3d.Simulation(survey, model, **opts)
sim.compute(observed=True)
survey.data.observed[...] *= 1.2      # so that the misfit is not zero
sim.clean('computed')
m1 = sim.misfit
survey.relative_error = 0.5           # ten times larger
m2 = sim.misfit
std = survey.standard_deviation.data
res = (survey.data.synthetic - survey.data.observed).data
want = float(np.sum(np.abs(res)**2/std**2)/2)
print(f"misfit before {m1:.6e}, after the assignment {m2:.6e}, "
      f"formula with the current noise model {want:.6e}")
sys.exit(1 if abs(m2 - want) > 1e-6*abs(want) else 0)
