"""K5 (known finding, recorded, not repaired; written by an auditing sub-agent; exit 1 = defect present): C07 witness 1: gradient of a simulation is silently wrong after ANOTHER
simulation on the same Survey evaluated its misfit (line-search pattern).

`Simulation.misfit` stores residual (and weights, synthetic) in the *shared*
`survey.data`; the lazily computed `Simulation.gradient` reads them back from
there. Sequence:

    simA = Simulation(survey, modelA); simA.misfit      # phi(A)
    simB = Simulation(survey, modelB); simB.misfit      # trial model, rejected
    simA.gradient                                       # <- uses residual of B

simA.misfit still reports phi(A), but simA.gradient is not its derivative.
Reference: central finite differences of the misfit (fresh simulations on
private survey copies).  Exit 1 if the property is violated.
"""
import sys
import warnings
import numpy as np
import emg3d

warnings.filterwarnings('ignore')
rng = np.random.default_rng(0)

# Small stretched grid (8 x 8 x 8).
hx = 100*(1+0.5*rng.random(8))
hy = 100*(1+0.5*rng.random(8))
hz = 100*(1+0.5*rng.random(8))
grid = emg3d.TensorMesh([hx, hy, hz], (-hx.sum()/2, -hy.sum()/2, -hz.sum()/2))

src = emg3d.TxElectricDipole((-120, 30, 20, 25, 10), length=150.)
recs = [emg3d.RxElectricPoint((150, 40, -30, 10, 5)),
        emg3d.RxMagneticPoint((-100, 140, -60, -70, 20))]

opts = dict(gridding='same', max_workers=1, receiver_interpolation='linear',
            tqdm_opts=False, verb=-1,
            solver_opts=dict(tol=1e-11, maxit=200, sslsolver=False,
                             semicoarsening=True, linerelaxation=True))


def cond(seed):
    return 10**(np.random.default_rng(seed).random(grid.shape_cells) - 0.5)


# Observed data from a "true" model.
survey = emg3d.Survey(src, recs, [1.0], noise_floor=1e-15, relative_error=.05)
emg3d.Simulation(survey, emg3d.Model(grid, cond(11), mapping='Conductivity'),
                 **opts).compute(observed=True, add_noise=False)
obs = survey.data.observed.data.copy()


def fresh_survey():
    return emg3d.Survey(src, recs, [1.0], data=obs.copy(), noise_floor=1e-15,
                        relative_error=0.05)


def misfit_of(sigma):
    model = emg3d.Model(grid, sigma, mapping='Conductivity')
    return emg3d.Simulation(fresh_survey(), model, **opts).misfit


sigA, sigB = cond(3), cond(4)

# --- The sequence under test: two simulations share ONE survey. ---
shared = fresh_survey()
simA = emg3d.Simulation(
        shared, emg3d.Model(grid, sigA, mapping='Conductivity'), **opts)
phiA = simA.misfit
simB = emg3d.Simulation(
        shared, emg3d.Model(grid, sigB, mapping='Conductivity'), **opts)
phiB = simB.misfit                     # trial step, e.g. rejected
gradA = simA.gradient                  # gradient "of phiA"
print(f"simA.misfit = {simA.misfit:.6f} (phiA = {phiA:.6f}); "
      f"simB.misfit = {phiB:.6f}")

# --- Independent reference: finite differences of the misfit at A. ---
d = rng.standard_normal(grid.shape_cells)*sigA
fd = []
for h in (4e-3, 2e-3):
    fd.append((misfit_of(sigA+h*d) - misfit_of(sigA-h*d))/(2*h))
fd_rich = (4*fd[1]-fd[0])/3
gtd = float(np.sum(gradA*d))

# Control: same simulation without the intermediate simB.
simC = emg3d.Simulation(
        fresh_survey(), emg3d.Model(grid, sigA, mapping='Conductivity'),
        **opts)
gtd_ctrl = float(np.sum(simC.gradient*d))

print(f"FD directional derivative of misfit at A : {fd_rich:+.8e}")
print(f"<grad, d> control (no simB in between)   : {gtd_ctrl:+.8e}  "
      f"rel.err {abs(gtd_ctrl-fd_rich)/abs(fd_rich):.1e}")
print(f"<simA.gradient, d> after simB.misfit     : {gtd:+.8e}  "
      f"rel.err {abs(gtd-fd_rich)/abs(fd_rich):.1e}")

ok_ctrl = abs(gtd_ctrl-fd_rich) < 1e-5*abs(fd_rich)
bad = abs(gtd-fd_rich) > 1e-3*abs(fd_rich)
if ok_ctrl and bad:
    print("VIOLATION: simA.gradient is not the derivative of simA.misfit.")
    sys.exit(1)
print("Property holds.")
sys.exit(0)
