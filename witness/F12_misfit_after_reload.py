"""F12/F13: the cached misfit does not survive a round trip.

`Simulation._misfit` was a 0-d xarray.DataArray and `misfit` returned
`self._misfit.data`.  After to_file/from_file (h5, npz) `_misfit` is a plain
number and `sim.misfit` returned a memoryview; the json back end could not
write the DataArray at all (TypeError).  Run with /venv/bin/python; exit 0 =
correct.
"""
import os
import sys
import tempfile
import numpy as np
import emg3d

hx = np.ones(8)*100.
grid = emg3d.TensorMesh([hx, hx, hx], (-400, -400, -400))
survey = emg3d.surveys.Survey(
    sources=emg3d.TxElectricDipole((0, 0, 0, 0, 0)),
    receivers=emg3d.RxElectricPoint((200, 0, 0, 0, 0)),
    frequencies=[1.0], noise_floor=1e-15, relative_error=0.05)
opts = {'gridding': 'same', 'solver_opts': {'tol': 1e-3},
        'tqdm_opts': {'disable': True}}
sim = emg3d.Simulation(survey, emg3d.Model(grid, 1.0), **opts)
sim.compute(observed=True)
sim2 = emg3d.Simulation(sim.survey, emg3d.Model(grid, 2.0), **opts)
ref = float(sim2.misfit)
d = tempfile.mkdtemp()
bad = 0
for ext in ('h5', 'npz', 'json'):
    f = os.path.join(d, 'x.' + ext)
    try:
        sim2.to_file(f, what='results', verb=0)
        got = emg3d.Simulation.from_file(f, verb=0).misfit
        ok = abs(float(got) - ref) <= 1e-12*abs(ref)
    except Exception as e:
        got, ok = f'{type(e).__name__}: {e}', False
    print(ext, got)
    bad += not ok
c = sim2.copy()
bad += not abs(float(c.misfit) - ref) <= 1e-12*abs(ref)
sys.exit(1 if bad else 0)
