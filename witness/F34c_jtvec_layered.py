"""F34c (written by an auditing sub-agent, C08 witness 1; on the repaired tree jtvec raises NotImplementedError for layered simulations, which ends this script with a traceback: the silent wrong result is gone): C08 witness 1: Simulation.jtvec(w) with layered=True is not J^T w.

jtvec() replaces data.residual by w/weights and then calls `gradient`. For
layered=True the gradient is a finite-difference of the *misfit*: the
reference misfit is taken from the (replaced) residual, but the perturbed
misfit is recomputed from `response - observed`, i.e. from the TRUE residual.
The result is therefore (phi_true(m+dm) - phi_fake(m))/dm, which is neither
linear in w nor related to J^T w. No error or warning is raised (jvec, in
contrast, raises NotImplementedError for layered).

Independent checks used here:
  (a) linearity of a transposed product: J^T 0 = 0, J^T (2w) = 2 J^T w;
  (b) the transpose identity against a central finite difference of the
      layered synthetic data, Re<w, dd/dm v> = <J^T w, v>;
  (c) control: the same identity with w = weights*residual and `gradient`
      holds, so the check itself is sound.
Exit 1 if violated, 0 otherwise.
"""
import sys
import numpy as np
import emg3d

rng = np.random.default_rng(3)

hx = np.ones(8)*250.
grid = emg3d.TensorMesh([hx, hx, np.ones(8)*100.], (-1000, -1000, -800))
con = np.ones(grid.shape_cells)
con[:, :, 4:] = 0.3
con[:, :, 2] = 0.05


def new_survey():
    return emg3d.Survey(
        sources=emg3d.TxElectricDipole((-300, 0, -150, 0, 0)),
        receivers=[emg3d.RxElectricPoint((400, 0, -200, 0, 0)),
                   emg3d.RxElectricPoint((600, 100, -200, 0, 0))],
        frequencies=[1.0, 2.0], noise_floor=1e-15, relative_error=0.05)


def new_sim(survey, prop):
    model = emg3d.Model(grid, prop, mapping='Conductivity')
    return emg3d.Simulation(
        survey=survey, model=model, layered=True, max_workers=1,
        tqdm_opts=False, layered_opts={'method': 'source'})


# Observed data from the "true" model.
survey = new_survey()
sim = new_sim(survey, con)
sim.compute(observed=True, min_amplitude=None, add_noise=False)

# Start model differs => non-zero residual.
con0 = con.copy()
con0[:, :, 2] = 0.08
sim = new_sim(survey, con0)
misfit = sim.misfit
grad = sim.gradient.copy()
rw = (sim.data.residual*sim.data.weights).data.copy()

# Data-shaped complex w of the same magnitude as the weighted residual.
w = rng.standard_normal(survey.shape) + 1j*rng.standard_normal(survey.shape)
w *= np.abs(rw).max()

jt_w = np.array(sim.jtvec(w))
jt_2w = np.array(sim.jtvec(2*w))
jt_0 = np.array(sim.jtvec(0*w))

# Independent J v through central finite differences of the layered data.
v = rng.standard_normal(grid.shape_cells)
eps = 1e-5


def synthetic(prop):
    s = new_sim(new_survey(), prop)
    s.compute()
    return s.data.synthetic.data.copy()


jv_fd = (synthetic(con0+eps*v) - synthetic(con0-eps*v))/(2*eps)


def rel(a, b):
    return abs(a-b)/max(abs(a), abs(b), 1e-300)


# (c) control with the true weighted residual.
c_lhs = np.sum(np.real(np.conj(rw)*jv_fd))
c_rhs = np.sum(grad*v)
print(f"misfit = {misfit:.4f}")
print("control  w = weights*residual (gradient):")
print(f"   Re<w, Jv_fd> = {c_lhs:.6e}   <gradient, v> = {c_rhs:.6e}   "
      f"rel.diff = {rel(c_lhs, c_rhs):.1e}")

# (b) transpose identity for a general w.
lhs = np.sum(np.real(np.conj(w)*jv_fd))
rhs = np.sum(jt_w*v)
print("general complex w:")
print(f"   Re<w, Jv_fd> = {lhs:.6e}   <jtvec(w), v> = {rhs:.6e}   "
      f"rel.diff = {rel(lhs, rhs):.1e}")

# (a) linearity.
print(f"   max|jtvec(0)|  = {np.abs(jt_0).max():.4e}   (must be 0)")
print(f"   max|jtvec(w)|  = {np.abs(jt_w).max():.4e}")
print(f"   max|jtvec(2w)-2*jtvec(w)| = {np.abs(jt_2w-2*jt_w).max():.4e}")

control_ok = rel(c_lhs, c_rhs) < 2e-2
violated = (
    rel(lhs, rhs) > 5e-2 or
    np.abs(jt_0).max() > 1e-8*np.abs(grad).max() or
    np.abs(jt_2w-2*jt_w).max() > 5e-2*np.abs(jt_w).max()
)

if not control_ok:
    print("Control failed; check is inconclusive.")
    sys.exit(2)
if violated:
    print("VIOLATED: jtvec with layered=True silently returns something "
          "that is not J^T w.")
    sys.exit(1)
print("holds")
sys.exit(0)
