"""F29 (written by an auditing sub-agent, C13 witness 2): C13 witness 2: a data set called 'noise_floor' / 'relative_error' silently
replaces the noise model, and explicit assignments are ignored.

Documented: `Survey(..., data=dict)` "can be a dict containing many datasets, in
which one could also store, for instance, standard-deviations for each
source-receiver-frequency pair"; data sets can also be added later through
`survey.data[name] = ...` (that is what `add_noise(add_to=name)` and the
Simulation do).  The noise model is given by the *attributes*
`survey.noise_floor` / `survey.relative_error`; an explicit assignment must
change them, nothing else may.

Observed on the unchanged code: the getters read `self.data.noise_floor` and
`self.data.relative_error`.  Attribute-style access on an xarray.Dataset looks
at the data variables BEFORE the attrs, so as soon as a data set of that name
exists (e.g., the relative error in percent as delivered by the contractor,
stored for reference), the getter returns that data set:

- the standard deviation silently uses the stored data set instead of the
  assigned value (no error, no warning),
- `survey.relative_error = 0.05` has no effect whatsoever,
- the misfit therefore uses wrong weights,
- `copy()` / `to_dict()` promote the unrelated data set to the official
  relative error.

The expected values are computed independently with NumPy from the assigned
floats.  Exit 1 if the property is violated, 0 if it holds.
"""
import sys
import numpy as np
import emg3d

bad = 0
rng = np.random.default_rng(1)
shape = (2, 3, 2)
d = rng.standard_normal(shape) + 1j*rng.standard_normal(shape)


def new_survey(**kwargs):
    return emg3d.Survey(
        [emg3d.TxElectricDipole((150.+50*i, 150, 150, 0, 0))
         for i in range(2)],
        [emg3d.RxElectricPoint((250., 150.+50*i, 250, 0, 0))
         for i in range(3)],
        [1.0, 2.0], **kwargs)


def report(label, got, exp):
    global bad
    ok = np.allclose(got, exp, rtol=1e-13, atol=0)
    print(f"{label}: {'ok' if ok else 'VIOLATION'}"
          f"  (got {np.ravel(got)[:2]}, expected {np.ravel(exp)[:2]})")
    bad += not ok


# --- (a) data set added later; explicit assignment afterwards ---------------
nf, re = 0.1, 0.05
exp_std = np.sqrt(nf**2 + (re*np.abs(d))**2)

s = new_survey(data=d.copy(), noise_floor=nf)
# Store the contractor's relative error in PERCENT as an extra data set.
s.data['relative_error'] = s.data.observed.copy(data=np.full(shape, 5.0))
s.relative_error = re                   # explicit assignment of the model
print("attrs relative_error         :", s.data.attrs['relative_error'])
print("getter returns               :", type(s.relative_error).__name__)
report("(a) std after assignment      ", s.standard_deviation.data, exp_std)

# Misfit with these weights (synthetic data put in by hand; no solver needed).
grid = emg3d.TensorMesh([np.ones(4)*100]*3, (0, 0, 0))
sim = emg3d.Simulation(s, emg3d.Model(grid, 1.0), gridding='same')
syn = rng.standard_normal(shape) + 1j*rng.standard_normal(shape)
sim.data['synthetic'][...] = syn
sim._computed = True
report("(a) misfit                    ", sim.misfit,
       0.5*np.sum(np.abs(syn-d)**2/exp_std**2))

# --- (b) data set passed in the data-dict of the constructor ----------------
s = new_survey(data={'observed': d.copy(),
                     'noise_floor': np.full(shape, 7.0)},   # informational
               noise_floor=nf, relative_error=re)
report("(b) std at construction       ", s.standard_deviation.data, exp_std)
s.noise_floor = 0.2
report("(b) std after noise_floor=0.2 ", s.standard_deviation.data,
       np.sqrt(0.2**2 + (re*np.abs(d))**2))
c = s.copy()
print("(b) copy: attrs noise_floor  :", c.data.attrs['noise_floor'],
      "(assigned was 0.2)")
if c.data.attrs['noise_floor'] != 0.2:
    bad += 1

print(f"\nviolations: {bad}")
sys.exit(1 if bad else 0)
