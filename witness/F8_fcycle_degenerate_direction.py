"""F8: F-cycles run as V-cycles after a first cycle in a direction that
allows no coarsening.

Shape (16, 2, 2), cycle='F', semicoarsening=123: the first cycle uses
sc_dir=1 (coarsen y, z only -> coarsest level 0).  On the pinned tree (before
f429b56) cycmax of level 0 stayed 1 from then on, and cycles 2 and 3
(sc_dir=2, 3; three coarse levels) visited 0 1 2 3 2 1 0 (a V-cycle) instead of
the F order 0 1 2 3 2 2 3 2 1 1 2 3 2 1 0 that the same grid shows with
semicoarsening=2.  Run with /venv/bin/python; exit 0 = correct.
"""
import contextlib
import io
import re
import sys
import numpy as np
import emg3d


def levels(sc):
    grid = emg3d.TensorMesh([np.ones(16)*100, np.ones(2)*100, np.ones(2)*100],
                            (0, 0, 0))
    model = emg3d.Model(grid, 1.0)
    src = emg3d.TxElectricDipole((801, 100, 100, 0, 0))
    sfield = emg3d.get_source_field(grid, src, 1.0)
    buf = io.StringIO()
    with contextlib.redirect_stdout(buf):
        emg3d.solve(model, sfield, cycle='F', semicoarsening=sc,
                    linerelaxation=0, maxit=3, verb=5, plain=False,
                    sslsolver=False, tol=1e-30)
    cycles, cur = [], []
    for ln in buf.getvalue().splitlines():
        m = re.match(r'\s+\d+ (\d) \d \[', ln)
        if m and 'initial' not in ln:
            cur.append(int(m.group(1)))
        if 'F-cycles' in ln:
            cycles.append(cur)
            cur = []
    return cycles


ref = levels(2)[1]            # a full F-cycle with three coarse levels
got = levels(123)
print('F reference :', ref)
print('cycle 2 (123):', got[1])
if got[1] != ref:
    print('DEFECT: second cycle is not an F-cycle')
    sys.exit(1)
print('ok')
