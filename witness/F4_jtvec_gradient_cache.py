import numpy as np, emg3d, warnings
warnings.simplefilter('ignore')
hx=np.ones(8)*50
grid=emg3d.TensorMesh([hx,hx,hx],origin=(0,0,0))
model=emg3d.Model(grid,1.0, mapping='Conductivity')
src=emg3d.TxElectricDipole((200,200,200,0,0))
rec=[emg3d.RxElectricPoint((x,225,210,0,0)) for x in (120,290)]
def mk():
    s=emg3d.Survey(src,rec,[1.0],noise_floor=1e-15, relative_error=0.05)
    sim=emg3d.Simulation(s,model,gridding='same',max_workers=1,receiver_interpolation='linear',solver_opts={'plain':True,'tol':1e-8},tqdm_opts=False)
    return sim
sim=mk()
sim.compute(observed=True, add_noise=False)
sim.data.observed[...]=sim.data.observed*1.1
sim.clean('computed')
g0=sim.gradient.copy(); m0=sim.misfit
w=np.ones(sim.survey.shape)*(1+2j)
jt=sim.jtvec(w)
g1=sim.gradient
print('gradient after jtvec equals original gradient?',np.allclose(g0,g1), 'equals jtvec result?', np.allclose(g1,jt))
print('residual changed?', not np.allclose(sim.data.residual.data, (sim.data.synthetic-sim.data.observed).data))
