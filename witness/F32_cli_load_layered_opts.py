"""F32 (written by an auditing sub-agent for C18): C18 witness 2: the [layered] section is silently ignored with `--load`.

docs/manual/cli.rst: with `load` the CLI ignores "the survey and model under
[files]" and the "sections [simulation], [solver_opts], [gridding_opts], and
[data]" -- not [layered]; and "[layered]: the following parameters are only
used if -l/--layered is set".  run.py itself supports switching a loaded
simulation to layered (`-l`).

Sequence: a (3D) simulation is stored via the CLI.  Then
`emg3d -f -l --load sim.h5` is run with a config file containing
`[layered] method = receiver`.  Reference: the API with
`layered=True, layered_opts={'method': 'receiver'}` on the same survey/model
(and, as a cross-check, the CLI without --load, which agrees with the API).

Observed: the loaded simulation uses the default method 'cylinder' with an
estimated radius; the data differ strongly from the API result.
"""
import os
import sys
import shutil
import tempfile
import warnings
import subprocess
import numpy as np
import emg3d

warnings.simplefilter('ignore')
REPO = os.path.dirname(os.path.dirname(os.path.abspath(emg3d.__file__)))
ENV = {**os.environ, 'PYTHONPATH': REPO}


def cli(*args):
    r = subprocess.run([sys.executable, '-m', 'emg3d', *args], env=ENV,
                       capture_output=True, text=True, cwd=REPO)
    assert r.returncode == 0, r.stderr
    return r


tmp = tempfile.mkdtemp()
try:
    src = emg3d.surveys.txrx_coordinates_to_dict(
        emg3d.TxElectricDipole, ([1000, 3000], 2000, 1950, 0, 0))
    rec = emg3d.surveys.txrx_coordinates_to_dict(
        emg3d.RxElectricPoint, (np.arange(5)*500+500, 2200, 1900, 0, 0))
    survey = emg3d.Survey(sources=src, receivers=rec, frequencies=[1.0, 2.0],
                          noise_floor=1e-16, relative_error=0.05)
    hx = np.ones(8)*500
    grid = emg3d.TensorMesh([hx, hx, hx], origin=np.array([0, 0, 0]))
    rng = np.random.default_rng(1)
    model = emg3d.Model(grid, 10**rng.uniform(-0.5, 0.5, grid.shape_cells))
    survey.to_file(os.path.join(tmp, 'survey.h5'), verb=0)
    emg3d.save(os.path.join(tmp, 'model.h5'), model=model, verb=0)

    base = ("[simulation]\ngridding = same\n"
            "[noise_opts]\nadd_noise = False\n")
    cfg0 = os.path.join(tmp, 'plain.cfg')
    with open(cfg0, 'w') as f:
        f.write(base)
    cfg1 = os.path.join(tmp, 'layered.cfg')
    with open(cfg1, 'w') as f:
        f.write(base + "[layered]\nmethod = receiver\n")

    # 1. Store a simulation (dry run is enough).
    cli(cfg0, '--path', tmp, '-n', '1', '-f', '-d', '--save', 'sim.h5',
        '--output', 'dry.h5')

    # 2. Load it, switch to layered, with the [layered] section.
    cli(cfg1, '--path', tmp, '-n', '1', '-f', '-l', '--load', 'sim.h5',
        '--save', 'sim2.h5', '--output', 'load.h5')
    out_load = emg3d.load(os.path.join(tmp, 'load.h5'), verb=0)['data']
    sim2 = emg3d.Simulation.from_file(os.path.join(tmp, 'sim2.h5'), verb=0)

    # 3. Same config without --load (cross-check).
    cli(cfg1, '--path', tmp, '-n', '1', '-f', '-l', '--output', 'direct.h5')
    out_direct = emg3d.load(os.path.join(tmp, 'direct.h5'), verb=0)['data']

    # 4. API reference.
    sim = emg3d.Simulation(
        survey.copy(), model, gridding='same', layered=True,
        layered_opts={'method': 'receiver'}, max_workers=1, verb=-1,
        tqdm_opts=False)
    sim.compute()
    api = sim.data.synthetic.data

    def rel(a, b):
        return np.nanmax(abs(a-b)/abs(b))

    print("config file         : [layered] method = receiver")
    print("layered_opts used by `--load sim.h5 -l`:", sim2.layered_opts)
    print("max rel. diff  CLI (no load) vs API :", rel(out_direct, api))
    print("max rel. diff  CLI (--load)  vs API :", rel(out_load, api))

    bad = (sim2.layered_opts.get('method') != 'receiver'
           or rel(out_load, api) > 1e-6)
    print("VIOLATED" if bad else "holds")
    sys.exit(1 if bad else 0)
finally:
    shutil.rmtree(tmp, ignore_errors=True)
