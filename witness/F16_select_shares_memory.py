"""F16: Survey.select() without selection lists shares the data with the
parent survey.

`self.data[key].sel()` with an empty selection returns the same arrays, so
the "selected" survey and its parent share observed data, array-valued noise
floor / relative error and standard deviation; `sel.add_noise()` (or any
in-place change of the selection) changes the parent.  Run with
/venv/bin/python; exit 0 = correct.
"""
import sys
import numpy as np
import emg3d

survey = emg3d.Survey(
    sources=[emg3d.TxElectricDipole((0, 0, 0, 0, 0)),
             emg3d.TxElectricDipole((100, 0, 0, 0, 0))],
    receivers=[emg3d.RxElectricPoint((1000+i*500, 0, 0, 0, 0))
               for i in range(3)],
    frequencies=[1.0, 2.0],
    data=np.arange(1, 13).reshape(2, 3, 2)*(1+1j)*1e-12,
    noise_floor=np.ones((2, 3, 2))*1e-14, relative_error=0.05)
obs0 = survey.data.observed.data.copy()
nf0 = survey.noise_floor.copy()
std0 = survey.standard_deviation.data.copy()
bad = 0
for kw in ({'remove_empty': False}, {}):
    sel = survey.select(**kw)
    shared = np.shares_memory(sel.data.observed.data,
                              survey.data.observed.data)
    sel.add_noise(min_offset=1200)       # cuts the first receiver
    sel.data['_noise_floor'].data[...] *= 7
    same = (np.array_equal(survey.data.observed.data, obs0) and
            np.array_equal(survey.noise_floor, nf0) and
            np.array_equal(survey.standard_deviation.data, std0))
    print(kw, 'shares memory:', shared, ' parent unchanged:', same)
    bad += (shared or not same)
sys.exit(1 if bad else 0)
