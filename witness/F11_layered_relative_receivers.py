"""F11: layered (1D) mode ignores `relative=True` of receivers.

_multiprocessing.layered handed `rec.coordinates` (the offset from the source)
to the 1D modeller as if it were an absolute position, and _get_points used
`rec.center` for the extraction points.  For a relative receiver the layered
response must equal the one of the same receiver given in absolute
coordinates.  Run with /venv/bin/python; exit 0 = correct.
"""
import sys
import numpy as np
import emg3d

hx = np.ones(16)*250.0
grid = emg3d.TensorMesh([hx, hx, np.r_[500., 300, 200, 200, 300, 500]],
                        (-2000, -2000, -1500))
res = np.ones(grid.shape_cells)
res[:, :, 3:] = 10.
res[:, :, 5:] = 0.3
model = emg3d.Model(grid, res)
src = emg3d.TxElectricDipole((-300, 100, -320, 0, 0))
off = (1000., 100., -50., 30., 5.)
rel = emg3d.RxElectricPoint(off, relative=True)
ab = emg3d.RxElectricPoint((off[0]-300, off[1]+100, off[2]-320, 30., 5.))


def run(rec):
    survey = emg3d.Survey(sources=src, receivers=rec, frequencies=[1.0],
                          noise_floor=1e-15, relative_error=0.05)
    sim = emg3d.Simulation(survey, model, layered=True, gridding='same',
                           layered_opts={'method': 'midpoint'})
    sim.compute()
    return sim.data.synthetic.data.ravel()[0]


a, b = run(rel), run(ab)
print('relative:', a, ' absolute:', b)
if abs(a-b) > 1e-10*abs(b):
    print('DEFECT: relative receiver not modelled at its absolute position')
    sys.exit(1)
print('ok')
