"""F34 (written by an auditing sub-agent, C12 witness 1): C12 witness 1: jtvec on a new Simulation whose survey still carries the
'residual'/'weights' of an earlier Simulation (e.g. previous inversion
iteration; survey.copy() does not help) silently returns the misfit gradient
instead of J^T w, and leaves a stale residual behind, so that the gradient
reported afterwards is wrong as well.

Independent checks: (a) adjoint identity <Re(J v), w> = <v, J^T w> with jvec
of a fresh simulation; (b) gradient of a freshly created simulation.
"""
import sys
import warnings
import numpy as np
import emg3d

warnings.filterwarnings('ignore')
rng = np.random.default_rng(42)

grid = emg3d.TensorMesh([np.ones(8)*200]*3, (-800, -800, -1400))
model_a = emg3d.Model(grid, rng.uniform(0.5, 2.0, grid.shape_cells))
model_b = emg3d.Model(grid, rng.uniform(0.5, 2.0, grid.shape_cells))

srcs = [emg3d.TxElectricDipole((-310+i*250, 33, -350, 10*i, 5))
        for i in range(2)]
recs = [emg3d.RxElectricPoint((-100+i*180, 20*i-50, -420, 0, 0))
        for i in range(3)]
shape = (2, 3, 2)
obs = (rng.standard_normal(shape)+1j*rng.standard_normal(shape))*1e-9
clean_survey = emg3d.Survey(srcs, recs, [1.0, 3.0], data=obs,
                            noise_floor=1e-11, relative_error=0.05)
opts = dict(gridding='same', max_workers=1, tqdm_opts=False,
            receiver_interpolation='linear',
            solver_opts={'tol': 1e-8, 'verb': 0})

w = rng.standard_normal(shape)            # data-space vector (real)
v = rng.standard_normal(grid.shape_cells)  # model-space vector

# Earlier simulation (model A) using `survey`.
survey = clean_survey.copy()
sim_a = emg3d.Simulation(survey, model_a.copy(), **opts)
sim_a.misfit

# New simulation for model B; a *copy* of the survey is handed over.
sim_b = emg3d.Simulation(survey.copy(), model_b.copy(), **opts)
jt = sim_b.jtvec(w)            # does not raise, but ...
grad_b = sim_b.gradient.copy()
misfit_b = sim_b.misfit

# Fresh reference for model B.
fresh = emg3d.Simulation(clean_survey.copy(), model_b.copy(), **opts)
misfit_f = fresh.misfit
grad_f = fresh.gradient.copy()
jv = fresh.jvec(v).copy()

lhs = float(np.sum(jv.real*w))
rhs = float(np.sum(v*jt))
err_adj = abs(lhs-rhs)/abs(lhs)
err_grad = np.abs(grad_b-grad_f).max()/np.abs(grad_f).max()
jt_is_grad = np.abs(jt-grad_f).max()/np.abs(grad_f).max()

print(f"adjoint identity: <Re(Jv),w> = {lhs:.6e} ; <v,J^T w> = {rhs:.6e} ;"
      f" rel. error = {err_adj:.2e}")
print(f"jtvec(w) equals the misfit gradient (rel. diff {jt_is_grad:.1e})"
      " -> w was ignored" if jt_is_grad < 1e-6 else
      f"jtvec(w) vs misfit gradient rel. diff {jt_is_grad:.1e}")
print(f"misfit   : history {misfit_b:.8e} ; fresh {misfit_f:.8e}")
print(f"gradient : max rel. difference to fresh simulation = {err_grad:.2e}")

bad = err_adj > 1e-3 or err_grad > 1e-3
print("VIOLATED" if bad else "holds")
sys.exit(1 if bad else 0)
