import numpy as np, emg3d
s = emg3d.Survey(emg3d.TxElectricDipole((0,0,0,0,0)), [emg3d.RxElectricPoint((1000,0,0,0,0)), emg3d.RxElectricPoint((2000,0,0,0,0))], [1.0], data=np.ones((1,2,1))*(1+1j))
a = np.array([[[2.0],[3.0]]])
s.standard_deviation = a
before = s.standard_deviation.data.copy()
a *= 3            # the caller re-uses its own array; no assignment to the survey
after = s.standard_deviation.data
print(before.ravel(), after.ravel())
assert np.array_equal(before, after), "standard deviation changed without an assignment to the survey"
