"""F33 (written by an auditing sub-agent for C18): C18 witness 3: `cache` in the config file overrules `--load`/`--save`
given on the command line.

docs/manual/cli.rst: "arguments provided in the command line overwrite the
settings in the configuration file."

Sequence: two stored simulations A.h5 (name simA) and B.h5 (name simB).
Config file has `[files] cache = A.h5`.  Command line:
`emg3d cfg --load B.h5 --save C.h5 -d`.

Expected (command line wins): simulation B is loaded, the result is stored to
C.h5, A.h5 is left alone.
Observed: A.h5 is loaded AND overwritten, C.h5 is never written, B.h5 is
ignored -- no message.
"""
import os
import sys
import shutil
import hashlib
import tempfile
import warnings
import subprocess
import numpy as np
import emg3d

warnings.simplefilter('ignore')
REPO = os.path.dirname(os.path.dirname(os.path.abspath(emg3d.__file__)))
ENV = {**os.environ, 'PYTHONPATH': REPO}


def cli(*args):
    r = subprocess.run([sys.executable, '-m', 'emg3d', *args], env=ENV,
                       capture_output=True, text=True, cwd=REPO)
    assert r.returncode == 0, r.stderr
    return r


def md5(fname):
    with open(fname, 'rb') as f:
        return hashlib.md5(f.read()).hexdigest()


tmp = tempfile.mkdtemp()
try:
    src = emg3d.TxElectricDipole((1000, 2000, 1950, 0, 0))
    rec = emg3d.surveys.txrx_coordinates_to_dict(
        emg3d.RxElectricPoint, (np.arange(3)*500+1500, 2000, 1900, 0, 0))
    survey = emg3d.Survey(sources=src, receivers=rec, frequencies=1.0)
    hx = np.ones(8)*500
    grid = emg3d.TensorMesh([hx, hx, hx], origin=np.array([0, 0, 0]))
    survey.to_file(os.path.join(tmp, 'survey.h5'), verb=0)
    emg3d.save(os.path.join(tmp, 'model.h5'), model=emg3d.Model(grid, 1.0),
               verb=0)

    # Two stored simulations with different names.
    for name in ['A', 'B']:
        c = os.path.join(tmp, f'make{name}.cfg')
        with open(c, 'w') as f:
            f.write(f"[simulation]\ngridding = same\nname = sim{name}\n")
        cli(c, '--path', tmp, '-d', '--save', f'{name}.h5', '--output', 'x')
    md5_A = md5(os.path.join(tmp, 'A.h5'))

    cfg = os.path.join(tmp, 'emg3d.cfg')
    with open(cfg, 'w') as f:
        f.write("[files]\ncache = A.h5\n")

    cli(cfg, '--path', tmp, '-d', '--load', 'B.h5', '--save', 'C.h5',
        '--output', 'out.h5')

    with open(os.path.join(tmp, 'out.log')) as f:
        log = f.read()
    loaded = [ln for ln in log.split('\n') if ':: Simulation «' in ln]
    print("command line      : --load B.h5 --save C.h5  (config: cache=A.h5)")
    print("simulation used   :", loaded)
    print("C.h5 written      :", os.path.isfile(os.path.join(tmp, 'C.h5')))
    print("A.h5 overwritten  :", md5(os.path.join(tmp, 'A.h5')) != md5_A)

    bad = ('simB' not in ''.join(loaded)
           or not os.path.isfile(os.path.join(tmp, 'C.h5'))
           or md5(os.path.join(tmp, 'A.h5')) != md5_A)
    print("VIOLATED" if bad else "holds")
    sys.exit(1 if bad else 0)
finally:
    shutil.rmtree(tmp, ignore_errors=True)
