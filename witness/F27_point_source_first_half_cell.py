"""F27 (written by an auditing sub-agent, C10 witness 1): C10 witness 1: electric POINT source in the lower half of the first cell.

_point_vector distributes the x-component of a point source onto the x-edges,
which sit at the cell centres in x. For a point in the UPPER half of the last
cell all weight goes to the edges of that cell (special-cased). For a point in
the LOWER half of the first cell the code linearly EXTRAPOLATES instead:
weight > 1 on the edges of the first cell and a NEGATIVE weight on the edges
of the second cell, which the source does not touch.

Independent references used here:
 (a) mirror symmetry of a symmetric grid,
 (b) locality/sign: only the 4 edges (per component) of the cell that contains
     the point may carry a contribution, all with the sign of the direction,
 (c) a very short finite dipole at the same location (different code path).
"""
import sys
import numpy as np
import emg3d

bad = False

# Stretched, but mirror-symmetric grid (so that mirroring is well defined).
h = np.array([40., 20., 10., 10., 20., 40.])
grid = emg3d.TensorMesh([h, h, h], origin=(-70, -70, -70))
assert np.allclose(grid.nodes_x, -grid.nodes_x[::-1])

d = 5.0  # distance from the boundary; first/last cell is 40 m wide.
for comp, (az, el) in enumerate([(0, 0), (90, 0), (0, 90)]):
    name = 'xyz'[comp]

    lo = np.array([3.0, 3.0, 3.0])
    hi = np.array([3.0, 3.0, 3.0])
    lo[comp] = grid.nodes_x[0] + d    # lower half of first cell
    hi[comp] = grid.nodes_x[-1] - d   # upper half of last cell (mirror image)

    f_lo = emg3d.get_source_field(
        grid, emg3d.TxElectricPoint((*lo, az, el)), frequency=None)
    f_hi = emg3d.get_source_field(
        grid, emg3d.TxElectricPoint((*hi, az, el)), frequency=None)
    a_lo = getattr(f_lo, 'f'+name)
    a_hi = getattr(f_hi, 'f'+name)

    # Collapse on the axis of interest.
    other = tuple(i for i in range(3) if i != comp)
    w_lo = a_lo.sum(axis=other)
    w_hi = a_hi.sum(axis=other)
    print(f"{name}-directed unit point source, {d} m from the boundary:")
    print(f"   lower end: weights per {name}-edge-layer = {np.round(w_lo, 4)}")
    print(f"   upper end: weights per {name}-edge-layer = {np.round(w_hi, 4)}")

    # (0) conservation (holds).
    if not np.isclose(w_lo.sum(), 1.0):
        print("   total moment wrong:", w_lo.sum())
        bad = True

    # (a) mirror symmetry.
    if not np.allclose(w_lo, w_hi[::-1], atol=1e-12):
        print("   VIOLATION (a): not mirror symmetric.")
        bad = True

    # (b) locality / sign: point is in cell 0 -> only layer 0 may be non-zero.
    if np.any(np.abs(w_lo[1:]) > 1e-12) or np.any(a_lo < -1e-12):
        print("   VIOLATION (b): edges of cells not containing the point carry"
              f" a contribution; min weight = {a_lo.min():.4f}, "
              f"max weight = {a_lo.max():.4f}")
        bad = True

    # (c) short finite dipole of 0.01 m at the same place (dipole code path).
    dip = emg3d.TxElectricDipole((*lo, az, el), length=0.01)
    f_d = emg3d.get_source_field(grid, dip, frequency=None)
    a_d = getattr(f_d, 'f'+name) / 0.01
    diff = np.abs(a_d - a_lo).max()
    print(f"   max |point - short dipole/length| = {diff:.4f}")
    if diff > 1e-3:
        print("   VIOLATION (c): point source differs from the limit of a "
              "short dipole.")
        bad = True

sys.exit(1 if bad else 0)
