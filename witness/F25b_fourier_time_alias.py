"""F25b (written by an auditing sub-agent, C20 witness 3; second scenario switched off): Fourier stores the caller's time array by reference, but
caches the required frequencies (and tcalc/kr/rk for FFTLog) derived from it.

`self._time = time` keeps the caller's ndarray (F.time is times). If that
array is afterwards changed in place - by the caller re-using its buffer for
the next time window, or via the public attribute (F.time[:] = ... /
F.time[-1] = ...; the setter with its re-check only runs on assignment of a
whole new array) - then F.time reports the new times while F.freq_required,
F.freq_compute and F.ftarg still belong to the old ones. freq2time() combines
the new times with the old frequency set; with the default lagged-convolution
DLF the result is silently wrong by O(1).

References: the analytic time-domain response (empymod.dipole) at the times
the instance itself reports (F.time), and a fresh Fourier instance created
from a copy of those times.

Exit 1 = property violated, 0 = holds.
"""
import sys
import warnings

import numpy as np
import empymod

from emg3d.time import Fourier

warnings.simplefilter('ignore')

off = 900.0
model = {'src': [0, 0, 0], 'rec': [off, 0, 0], 'res': 1, 'depth': [],
         'verb': 1}

bad = False


def run(F):
    fdata = empymod.dipole(freqtime=F.freq_compute, **model)
    return F.freq2time(fdata, off)


for label, mutate in [
        ("caller scales its own array: times *= 10",
         lambda F, times: np.multiply(times, 10, out=times)),
        # (writing through the attribute, F.time[:] = ..., is the user changing
        # the instance's own array; not counted here)
        ("SKIP in-place edit through the attribute: F.time[:] = F.time*10",
         lambda F, times: F.time.__setitem__(slice(None), F.time*10)),
        ]:
    if label.startswith("SKIP"):
        continue
    print(f"\n===== {label} =====")
    times = np.logspace(-1, 0, 11)          # 0.1 - 1 s
    F = Fourier(times, 1e-3, 100, verb=0)   # default: lagged DLF, impulse
    freq_before = F.freq_required.copy()
    print("   F.time is times:", F.time is times)

    t0 = run(F)
    true0 = empymod.dipole(freqtime=F.time, signal=0, **model)
    print(f"   before: error vs analytic / max = "
          f"{np.abs(t0-true0).max()/np.abs(true0).max():.2e}")

    mutate(F, times)

    # What a fresh instance needs for the times that F now reports.
    fresh = Fourier(F.time.copy(), 1e-3, 100, verb=0)
    stale = not np.array_equal(F.freq_required, fresh.freq_required)
    print(f"   after : F.time = {F.time.min():.2g}-{F.time.max():.2g} s; "
          f"F.freq_required unchanged: "
          f"{np.array_equal(F.freq_required, freq_before)}; equal to a fresh "
          f"instance's: {not stale}")
    print(f"           F.freq_required {F.freq_required[0]:.3e}-"
          f"{F.freq_required[-1]:.3e} Hz; fresh {fresh.freq_required[0]:.3e}"
          f"-{fresh.freq_required[-1]:.3e} Hz")

    t1 = run(F)
    tf = run(fresh)
    true1 = empymod.dipole(freqtime=F.time, signal=0, **model)
    e1 = np.abs(t1-true1).max()/np.abs(true1).max()
    ef = np.abs(tf-true1).max()/np.abs(true1).max()
    print(f"   after : error vs analytic / max: same instance {e1:.2e}, "
          f"fresh instance {ef:.2e}")
    if stale or e1 > 100*max(ef, 1e-8):
        print("   -> VIOLATION: time vector and required frequencies are "
              "inconsistent; freq2time silently wrong")
        bad = True

print()
if bad:
    print("RESULT: property C20 VIOLATED (aliased time array, stale "
          "frequencies)")
    sys.exit(1)
print("RESULT: property holds")
sys.exit(0)
