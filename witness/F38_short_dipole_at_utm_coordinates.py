"""F38 (observed by a seeding sub-agent for C10, round 5; reproduced here):
a short dipole given by its two electrodes is rejected as "the two electrodes
are identical" when the coordinates are large (UTM-like), although the same
dipole in the (x, y, z, azimuth, elevation) form is accepted.

Dipole.__init__ tests `np.allclose(points[0], points[1])` with the default
relative tolerance 1e-5: at x = 5e5 m everything shorter than 5 m counts as
identical.  So the electrodes that the point format produces cannot be fed
back into the two-electrode format (round trip of C10).

Exit 1 = property violated, 0 = holds.
"""
import sys

import numpy as np
import emg3d

bad = False
for base in (0.0, 1e3, 1e5, 5e5, 4.2e6):
    for az, el in ((0, 0), (30, 10), (90, 0), (0, 90)):
        p = emg3d.TxElectricDipole((base, 2*base, -100.0, az, el))  # 1 m
        e = p.points
        for fmt, coo in (('(2, 3)', e), ('flat', e.ravel('F'))):
            try:
                q = emg3d.TxElectricDipole(coo)
                ok = np.allclose(q.points, e, rtol=0, atol=1e-6)
            except ValueError as err:
                ok = False
                msg = str(err).split(',')[0]
            if not ok:
                bad = True
                print(f"x={base:g}, az={az}, el={el}, format {fmt}: "
                      f"electrodes {e.tolist()} of a 1 m dipole rejected / "
                      "changed")
if bad:
    print("RESULT: property C10 VIOLATED (round trip point form -> "
          "electrodes -> dipole)")
    sys.exit(1)
print("RESULT: property holds")
sys.exit(0)
