"""F19/F20: two ways in which the CLI did not accept / reject configuration
files as documented.

F19  `--load sim --clean` with a configuration that has no (non-empty)
     [gridding_opts] section raised KeyError: 'gridding_opts' in cli/run.py.
F20  a section the parser does not know (a misspelt [solver] for
     [solver_opts]) was silently ignored with all its options.
Run with /venv/bin/python; exit 0 = correct.
"""
import os
import sys
import tempfile
import numpy as np
import emg3d
from emg3d.cli import parser, run

d = tempfile.mkdtemp()
hx = np.ones(8)*100.
grid = emg3d.TensorMesh([hx, hx, hx], (-400, -400, -400))
survey = emg3d.surveys.Survey(
    sources=emg3d.TxElectricDipole((0, 0, 0, 0, 0)),
    receivers=emg3d.RxElectricPoint((200, 0, 0, 0, 0)),
    frequencies=[1.0], noise_floor=1e-15, relative_error=0.05)
sim = emg3d.Simulation(survey, emg3d.Model(grid, 1.0), gridding='same',
                       tqdm_opts={'disable': True})
sim.to_file(os.path.join(d, 'sim.h5'), what='plain', verb=0)
emg3d.save(os.path.join(d, 'model.h5'), model=emg3d.Model(grid, 2.0), verb=0)
emg3d.save(os.path.join(d, 'survey.h5'), survey=survey, verb=0)
base = {'nproc': None, 'verbosity': -1, 'dry_run': True, 'clean': False,
        'forward': False, 'misfit': False, 'gradient': False, 'path': d,
        'survey': 'survey.h5', 'model': 'model.h5', 'output': 'out.h5',
        'save': None, 'load': None, 'cache': None, 'layered': False}
bad = 0

cfg1 = os.path.join(d, 'a.cfg')
open(cfg1, 'w').write('[files]\n')
try:
    run.simulation({**base, 'config': cfg1, 'load': 'sim.h5', 'clean': True})
    print('F19 ok: --load --clean without [gridding_opts] runs')
except KeyError as e:
    print('F19 DEFECT: KeyError', e)
    bad += 1

cfg2 = os.path.join(d, 'b.cfg')
open(cfg2, 'w').write('[solver]\ntol = 1e-3\n')
try:
    parser.parse_config_file({**base, 'config': cfg2})
    print('F20 DEFECT: unknown section [solver] silently ignored')
    bad += 1
except TypeError as e:
    print('F20 ok:', e)
sys.exit(1 if bad else 0)
