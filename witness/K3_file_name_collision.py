"""K3 (known finding, recorded, not repaired; written by an auditing sub-agent; exit 1 = defect present): C11 witness 1: file-based mode hands a slot the result of another task.

The per-task files are called ``{what}_{source}_{frequency}.h5``.  Source and
frequency keys can be arbitrary names (documented: "If it is a dict, it is
used as is, including the provided keys" / "Keys can be arbitrary names").
The file name is not injective in (source, frequency): the pairs
('S1', 'lo_f') and ('S1_lo', 'f') both map to ``efield_S1_lo_f.h5``.
All input files are written before the pool starts, so the later task
overwrites the input of the earlier one; both tasks then solve the *same*
problem and both slots load the same output file.  Result: slot
('S1', 'lo_f') silently holds the field of source 'S1_lo' at frequency 'f'.
In memory (same survey, fresh simulation) every slot is correct.  With more
than one worker the two colliding tasks can in addition hit the same output
file concurrently (h5py then raises a BlockingIOError; timing dependent).

Exit 1 if the property is violated, 0 otherwise.
"""
import sys
import tempfile
import warnings
import numpy as np
import emg3d

warnings.filterwarnings('ignore')


def build(max_workers, file_dir):
    hx = np.ones(8)*200.
    grid = emg3d.TensorMesh([hx, hx, hx], origin=(-800, -800, -1400))
    rng = np.random.default_rng(3)
    model = emg3d.Model(grid, property_x=1+rng.random(grid.shape_cells),
                        mapping='Resistivity')
    # Two tow lines; the second one is the low-altitude repeat of the first.
    sources = {
        'S1': emg3d.TxElectricDipole((-300, 0, -500, 0, 0)),
        'S1_lo': emg3d.TxElectricDipole((100, 200, -300, 90, 0)),
    }
    frequencies = {'f': 1.0, 'lo_f': 0.25}
    recs = [emg3d.RxElectricPoint((200, 100, -600, 0, 0)),
            emg3d.RxElectricPoint((300, -100, -600, 90, 0))]
    survey = emg3d.Survey(sources, recs, frequencies)
    return emg3d.Simulation(
        survey, model, gridding='same', max_workers=max_workers,
        file_dir=file_dir, tqdm_opts=False, verb=-1,
        solver_opts={'maxit': 3, 'plain': True})


# Reference: in-memory, sequential.
ref = build(1, None)
ref.compute()

violated = False
for mw in [1, 2]:
    with tempfile.TemporaryDirectory() as tmp:
        sim = build(mw, tmp)
        print(f"\nfile-based, max_workers={mw}")
        try:
            sim.compute()
        except OSError as e:
            # With >1 workers the two colliding tasks may additionally write
            # the same output file at the same time (timing dependent).
            print(f"  compute() RAISES {type(e).__name__}: {e}")
            violated = True
            continue
        for src, freq in sim._srcfreq:
            fb = sim.get_efield(src, freq)
            ok = np.array_equal(fb.field, ref.get_efield(src, freq).field)
            resp_ok = np.array_equal(
                sim.data.synthetic.loc[src, :, freq].data,
                ref.data.synthetic.loc[src, :, freq].data)
            # Whose result is it?
            owner = [k for k in ref._srcfreq if np.array_equal(
                     fb.field, ref.get_efield(*k).field)]
            print(f"  slot ({src!r:8}, {freq!r:6}) [{fb.frequency:5.2f} Hz "
                  f"in field; survey says {sim.survey.frequencies[freq]:5.2f}]"
                  f": field ok={ok}, responses ok={resp_ok}, "
                  f"holds result of {owner}")
            if not (ok and resp_ok):
                violated = True

if violated:
    print("\nVIOLATED: a source-frequency slot received the result of "
          "another task in file-based mode.")
    sys.exit(1)
print("\nProperty holds.")
sys.exit(0)
