"""F10: Fourier.interpolate fills the data in verbatim whenever the coarse and
the required frequency vectors have the same SIZE.

With explicit `input_freq` of the same number as the required frequencies
(here: the required ones times 1.1) the data computed at the input frequencies
were written onto the required frequencies without interpolation (pinned
tree: error 0.83 on a spectrum that is smooth in log f; with the spline it is
~1e-3).  Run with /venv/bin/python; exit 0 = correct.
"""
import sys
import numpy as np
import emg3d

t = np.logspace(-2, 1, 11)
F0 = emg3d.time.Fourier(t, 0.01, 10, ft='fftlog', ftarg={'pts_per_dec': 5},
                        verb=0)
F = emg3d.time.Fourier(t, 0.01, 10, ft='fftlog', ftarg={'pts_per_dec': 5},
                       input_freq=F0.freq_required*1.1, verb=0)
fc = F.freq_compute
data = np.log(fc) + 1j*np.log(fc)**2
out = F.interpolate(data)
fi = F.freq_interpolate
truth = np.log(fi) + 1j*np.log(fi)**2
err = np.max(np.abs(out[F.ifreq_interpolate] - truth))
print('max error in the band:', err)
if err > 1e-2:
    print('DEFECT: data at the input frequencies were not interpolated')
    sys.exit(1)
# identical vectors still pass through bit-identically
G = emg3d.time.Fourier(t, 0.01, 10, ft='fftlog', ftarg={'pts_per_dec': 5},
                       verb=0)
d = np.log(G.freq_compute) + 1j*np.log(G.freq_compute)**2
assert np.array_equal(G.interpolate(d)[G.ifreq_interpolate], d)
print('ok')
