import numpy as np, emg3d
hx = np.r_[400, 200, 100, 50, 25, 25, 25, 25, 25, 25, 25, 25, 50, 100, 200, 400.]
grid = emg3d.TensorMesh([hx, hx, hx], origin=(0, 0, 0))
rng = np.random.default_rng(3)
model = emg3d.Model(grid, property_x=10**rng.uniform(-1, 3, grid.n_cells))
sfield = emg3d.get_source_field(grid, (890, 900, 910, 30, 20), 1.0, strength=3e-8)
tol = 1e-3
e, info = emg3d.solve(model, sfield, verb=4, log=-1, return_info=True, tol=tol, sslsolver='cgs')
print(info['log'][-900:])
print({k: info[k] for k in ['exit', 'exit_message', 'rel_error', 'tol', 'it_ssl', 'it_mg']})
assert not (info['exit'] == 0 and info['rel_error'] > tol), "success reported with rel_error > tol"
