"""F21: Simulation.jvec in the Laplace domain solves a frequency-domain
problem.

The source field of the sensitivity solve was built with
`frequency=efield.frequency`, the ABSOLUTE value of the signed frequency, so
for a Laplace-domain survey (negative frequency, s = |f| real) the system for
A^-1 G v was assembled with s = 2 pi i |f|: J v came out complex and unrelated
to the derivative of the (real) data.  Run with /venv/bin/python; exit 0 =
correct.
"""
import sys
import numpy as np
import emg3d

hx = np.ones(8)*100.
grid = emg3d.TensorMesh([hx, hx, hx], (-400, -400, -400))
survey = emg3d.surveys.Survey(
    sources=emg3d.TxElectricDipole((-150, 0, 0, 0, 0)),
    receivers=emg3d.RxElectricPoint((150, 0, 0, 0, 0)),
    frequencies=[-1.0], noise_floor=1e-15, relative_error=0.05)
rng = np.random.default_rng(1)
m0 = 1 + rng.uniform(0, 1, grid.shape_cells)
v = rng.uniform(0.5, 1, grid.shape_cells)
opts = {'gridding': 'same',
        'solver_opts': {'tol': 1e-9, 'tol_gradient': 1e-9},
        'receiver_interpolation': 'linear',
        'tqdm_opts': {'disable': True}}


def data(m):
    sim = emg3d.Simulation(survey, emg3d.Model(grid, m,
                                               mapping='Conductivity'),
                           **opts)
    sim.compute()
    return sim, sim.data.synthetic.data.ravel()[0]


sim, d0 = data(m0)
jv = sim.jvec(v).ravel()[0]
eps = 1e-4
fd = (data(m0 + eps*v)[1] - data(m0 - eps*v)[1])/(2*eps)
print('J v =', jv, '  finite difference =', fd)
ok = abs(jv - fd) <= 1e-3*abs(fd)
if not ok:
    print('DEFECT: J v is not the derivative of the Laplace-domain data')
sys.exit(0 if ok else 1)
