"""F37 (observed by a seeding sub-agent for C10, round 5): a dipole lying in
the plane of the LAST nodes of a stretched grid gives an all-NaN source field
in about half of all cases.

_dipole_vector rounds the nodes (9 decimals) but divides by the unrounded
cell widths: for a segment in the last node plane the fraction
(x_c - nodes[i]) / h[i] is 1 + eps instead of 1, `e = 1 - r` is -eps, the test
`min(rx, ex, ...) >= 0` drops the piece, the vector sums to zero and the
normalisation divides by zero ("Normalizing Source: 0.0000000000").

Reference: the source vector sums, per component, to e2 - e1 (C10).

Exit 1 = property violated, 0 = holds.
"""
import sys
import warnings

import numpy as np
import emg3d

warnings.simplefilter('ignore')
rng = np.random.default_rng(1)
bad = tot = 0
for t in range(200):
    hx, hy, hz = (rng.uniform(5, 50, n) for n in (6, 5, 7))
    grid = emg3d.TensorMesh([hx, hy, hz], origin=rng.uniform(-1000, 1000, 3))
    ax = rng.integers(0, 3)
    nodes = [grid.nodes_x, grid.nodes_y, grid.nodes_z]
    p0 = [rng.uniform(n[1], n[-2]) for n in nodes]
    p1 = [rng.uniform(n[1], n[-2]) for n in nodes]
    p0[ax] = p1[ax] = nodes[ax][-1]
    src = emg3d.TxElectricDipole((p0[0], p1[0], p0[1], p1[1], p0[2], p1[2]))
    tot += 1
    vec = emg3d.get_source_field(grid, src, None)
    sums = np.array([vec.fx.sum(), vec.fy.sum(), vec.fz.sum()])
    want = np.array(p1) - np.array(p0)
    if not np.all(np.isfinite(vec.field)) or \
            not np.allclose(sums, want, rtol=1e-6, atol=1e-9):
        bad += 1
        if bad <= 3:
            print(f"axis {ax}: e1={p0} e2={p1}\n   component sums {sums}, "
                  f"e2-e1 = {want}")
print(f"{bad} of {tot} dipoles in the last node plane are wrong")
if bad:
    print("RESULT: property C10 VIOLATED")
    sys.exit(1)
print("RESULT: property holds")
sys.exit(0)
