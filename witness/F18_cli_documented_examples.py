"""F18: two example values printed in the documentation of the configuration
file do not work as documented.

`file_dir = None` ([simulation]) was handed to Simulation as the STRING 'None'
(file-based mode switched on, a directory ./None created); `max_offset =
np.inf` ([noise_opts]) raised ValueError (only `inf` is a float for
configparser).  Run with /venv/bin/python from the repository root; exit 0 =
correct.
"""
import os
import re
import sys
import tempfile
from emg3d.cli import parser

here = os.path.dirname(os.path.abspath(parser.__file__))
docs = os.path.join(here, '..', '..', 'docs', 'manual', 'cli.rst')
ex = {}
for line in open(docs):
    m = re.match(r'^\s+# (file_dir|max_offset) =([^#]*)', line)
    if m:
        ex[m.group(1)] = m.group(2).strip()
print('documented examples:', ex)
d = tempfile.mkdtemp()
cfgf = os.path.join(d, 'c.cfg')
with open(cfgf, 'w') as f:
    f.write(f"[simulation]\nfile_dir = {ex['file_dir']}\n"
            f"[noise_opts]\nmax_offset = {ex['max_offset']}\n")
args = {'config': cfgf, 'nproc': None, 'verbosity': 0, 'dry_run': True,
        'clean': False, 'forward': False, 'misfit': False, 'gradient': False,
        'path': d, 'survey': None, 'model': None, 'output': None,
        'save': None, 'load': None, 'cache': None, 'layered': False}
bad = 0
try:
    cfg, term = parser.parse_config_file(dict(args))
    fd = cfg['simulation_options'].get('file_dir')
    print('file_dir ->', repr(fd), ' max_offset ->',
          cfg['noise_kwargs'].get('max_offset'))
    bad += fd is not None
except ValueError as e:
    print('DEFECT:', e)
    bad += 1
sys.exit(1 if bad else 0)
