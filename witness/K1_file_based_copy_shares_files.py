"""K1 (known finding, recorded, not repaired): a file-based Simulation and its
copy share their field files.

File names are `<file_dir>/<what>_<source>_<frequency>.h5`; copy() keeps
`file_dir`, so the copy reads, overwrites and deletes the files of its
original: after `c = sim.copy(); c.model = other; c.clean('computed');
c.compute()` the field that `sim.get_efield` returns is the one of the copy's
model.  Exit 1 = defect present.
"""
import sys
import tempfile
import numpy as np
import emg3d

hx = np.ones(8)*100.
grid = emg3d.TensorMesh([hx, hx, hx], (-400, -400, -400))
survey = emg3d.surveys.Survey(
    sources=emg3d.TxElectricDipole((0, 0, 0, 0, 0)),
    receivers=emg3d.RxElectricPoint((200, 0, 0, 0, 0)),
    frequencies=[1.0], noise_floor=1e-15, relative_error=0.05)
d = tempfile.mkdtemp()
sim = emg3d.Simulation(survey, emg3d.Model(grid, 1.0), gridding='same',
                       solver_opts={'tol': 1e-4}, file_dir=d,
                       tqdm_opts={'disable': True})
sim.compute()
e0 = sim.get_efield('TxED-1', 'f-1').field.copy()
c = sim.copy()
c.model = emg3d.Model(grid, 10.0)
c.clean('computed')
try:
    c.compute()
    e1 = sim.get_efield('TxED-1', 'f-1').field
    same = np.allclose(e0, e1, rtol=1e-6, atol=0)
    print('original field unchanged after the copy computed:', same)
except FileNotFoundError as e:
    print('original lost its files:', e)
    same = False
sys.exit(0 if same else 1)
