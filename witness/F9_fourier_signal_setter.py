"""F9: Fourier.signal setter left the checked transform arguments stale.

On the pinned tree (before the fix) `F.signal = -1` on an instance created
with signal=0 kept the sine filter / mu=+0.5 of the impulse response, so
freq2time differed from a fresh Fourier(signal=-1) (the reference transform
with freshly checked arguments) by a factor ~1e3.  (-1 -> 0 with DLF is left
out: for the impulse response both the sine and the cosine kind are valid and
empymod keeps the one already in ftarg.)  Run with
/venv/bin/python; exit 0 = correct.
"""
import sys
import numpy as np
import empymod
import emg3d

t = np.logspace(-2, 1, 11)
bad = 0
for ft in ('dlf', 'fftlog'):
    for s0, s1 in ((0, 1), (0, -1), (1, 0), (-1, 1), (1, -1)):
        A = emg3d.time.Fourier(t, 0.01, 100, signal=s0, ft=ft, verb=0)
        A.signal = s1
        B = emg3d.time.Fourier(t, 0.01, 100, signal=s1, ft=ft, verb=0)
        d = empymod.dipole([0, 0, 0], [500, 0, 100], [], [1], B.freq_compute,
                           verb=0)
        a, b = A.freq2time(d, 500), B.freq2time(d, 500)
        err = np.max(np.abs(a-b)/np.abs(b))
        if err > 1e-10:
            bad += 1
            print(f'DEFECT: {ft} signal {s0}->{s1}: rel. difference {err:.3g}')
sys.exit(1 if bad else 0)
