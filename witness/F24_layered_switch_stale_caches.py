"""F24 (witness written by an auditing sub-agent, C19 witness 3): switching a Simulation to layered mode (`sim.layered = True`)
keeps the misfit/residual/gradient caches of the 3D computation.

Sequence: 3D simulation -> sim.misfit (3D) -> sim.layered = True ->
sim.compute() (now empymod responses are stored in `synthetic`) -> sim.misfit,
sim.gradient.

Observed: `sim.misfit` is still the 3D misfit (it does not belong to the stored
synthetic data), and the layered finite-difference gradient uses the stale 3D
residual as base point, (phi_1D(m+dm) - phi_3D(m))/dm, which is wrong by many
orders of magnitude. The layer sums are compared with a fresh layered
Simulation and with an independent central difference of the layered misfit
under a uniform perturbation of each layer.
"""
import sys
import warnings
import numpy as np
import emg3d

warnings.filterwarnings('ignore')

h = np.r_[800, 400, 200, 100, 100, 100, 100, 100,
          100, 100, 100, 100, 100, 200, 400, 800.]
grid = emg3d.TensorMesh(
    [h, h, h], origin=(-h.sum()/2, -h.sum()/2, -h.sum()/2-500))
cz = grid.cell_centers_z
resz = np.where(cz > -300, 0.3, np.where(cz > -600, 1.,
                                         np.where(cz > -800, 10., 2.)))


def mk(r):
    return emg3d.Model(grid, property_x=np.ones(grid.shape_cells)*r,
                       mapping='Resistivity')


true = mk(resz)
r0 = resz.copy()
r0[r0 == 10.] = 5.
recs = [emg3d.RxElectricPoint((x, 0, -300, 0, 0)) for x in [300, 450]]
src = emg3d.TxElectricDipole((-50, 50, 0, 0, -250, -250))
survey = emg3d.Survey(sources=src, receivers=recs, frequencies=[1.0],
                      noise_floor=1e-15, relative_error=0.05)
lo = {'method': 'midpoint'}
inp = {'gridding': 'same', 'max_workers': 1, 'layered_opts': lo,
       'receiver_interpolation': 'linear', 'tqdm_opts': {'disable': True}}

# Observed data: layered responses of the true model.
s = emg3d.Simulation(survey, true, layered=True, **inp)
s.compute(observed=True, add_noise=False)


def fresh(res):
    return emg3d.Simulation(survey.copy(), mk(res), layered=True, **inp)


# Reference 1: fresh layered simulation.
sA = fresh(r0)
mA = sA.misfit
gA = sA.gradient.sum(axis=(0, 1))

# Reference 2: central differences of the layered misfit, layer by layer.
fd = np.zeros(r0.size)
for iz in range(r0.size):
    d = 1e-4*r0[iz]
    rp, rm = r0.copy(), r0.copy()
    rp[iz] += d
    rm[iz] -= d
    fd[iz] = (fresh(rp).misfit - fresh(rm).misfit)/(2*d)

# Sequence under test: 3D first, then switch to layered.
sB = emg3d.Simulation(survey.copy(), mk(r0), layered=False, **inp)
m3d = sB.misfit
sB.layered = True
sB.compute()
mB = sB.misfit
res = sB.data.synthetic.data - sB.data.observed.data
m_from_data = float(np.sum(sB.data.weights.data*abs(res)**2).real/2)
gB = sB.gradient.sum(axis=(0, 1))

np.set_printoptions(precision=3, linewidth=120)
print("misfit fresh layered simulation          :", mA)
print("misfit 3D (before the switch)            :", m3d)
print("sim.misfit after switch + compute()      :", mB)
print("misfit recomputed from stored synthetic  :", m_from_data)
print("layer sums, central FD of layered misfit :\n", fd)
print("layer sums, fresh layered gradient       :\n", gA)
print("layer sums, gradient after the switch    :\n", gB)

scale = abs(fd).max()
ok_ref = np.allclose(gA, fd, atol=2e-2*scale)   # sanity of the references
ok_misfit = np.isclose(mB, mA, rtol=1e-6)
ok_grad = np.allclose(gB, fd, atol=2e-2*scale)
print("fresh gradient matches FD:", ok_ref)
print("switched misfit matches  :", ok_misfit)
print("switched gradient matches:", ok_grad)

if ok_ref and not (ok_misfit and ok_grad):
    print("\nVIOLATION: after `sim.layered = True` the cached 3D misfit/"
          "residual is used; the layered FD gradient is wrong.")
    sys.exit(1)
print("\nOK: property holds.")
sys.exit(0)
