import numpy as np, emg3d, warnings, itertools
warnings.simplefilter('ignore')
from emg3d import solver
def true_res(model,sf,ef):
    vm=emg3d.models.VolumeModel(model,sf)
    return solver.residual(vm,sf,ef,True)
cnt=0; bad=0
rng=np.random.default_rng(1)
for n,ssl,cyc,tol in itertools.product([8,16],['bicgstab','cgs','gcrotmk'],['F',None],[1e-2,1e-4,1e-6]):
    hx=np.ones(n)*10*1.05**np.arange(n)
    grid=emg3d.TensorMesh([hx,hx,hx],origin=(0,0,0))
    model=emg3d.Model(grid,1.0+rng.random(grid.shape_cells))
    c=grid.nodes_x[n//2]
    sf=emg3d.get_source_field(grid,(c,c,c,10,20),frequency=1.0)
    ef,info=emg3d.solve(model,sf,sslsolver=ssl,cycle=cyc,tol=tol,return_info=True,maxit=500, semicoarsening=False, linerelaxation=False)
    tr=true_res(model,sf,ef)
    cnt+=1
    flag = abs(tr-info['abs_error'])>1e-9*info['ref_error']
    if flag or (info['exit']==0 and tr>=tol*info['ref_error']): 
        bad+=1
        print(n,ssl,cyc,tol,'exit',info['exit'],'reported rel',info['rel_error'],'true rel',tr/info['ref_error'], 'it',info['it_ssl'])
print(cnt,bad)
