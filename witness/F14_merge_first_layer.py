"""F14: Model.extract_1d(merge=True) drops the first layer when its stored
value is exactly -1.

The merge uses np.diff(np.r_[-1, v]) to find the layers that differ from the
one below... above; the prepended constant -1 is compared with the first
value.  For an LgConductivity model whose lowest layer is 0.1 S/m (stored as
log10 = -1.0) the first layer vanished: 3 layers became 2 and the column lost
the thickness of that layer.  Run with /venv/bin/python; exit 0 = correct.
"""
import sys
import numpy as np
import emg3d

hz = np.array([500., 300., 200.])
grid = emg3d.TensorMesh([[100., 100.], [100., 100.], hz], (0, 0, -1000))
cond = np.ones(grid.shape_cells)*np.array([0.1, 0.5, 2.0])[None, None, :]
bad = 0
for mapping in ('Conductivity', 'LgConductivity'):
    m = emg3d.Model(grid, cond, mapping=mapping)
    model = emg3d.Model(grid, m.map.forward(cond), mapping=mapping) \
        if mapping != 'Conductivity' else m
    one = model.extract_1d('midpoint', p0=(50., 50.), merge=True)
    got = one.map.backward(one.property_x[0, 0, :])
    tot = one.grid.h[2].sum()
    print(mapping, got, tot)
    if got.size != 3 or abs(tot - hz.sum()) > 1e-9:
        bad += 1
if bad:
    print('DEFECT: first layer dropped by merge=True')
sys.exit(1 if bad else 0)
