"""F25 (written by an auditing sub-agent, C20 witness 2): the checked time vector returned by the reference check is
thrown away, so freq_required and the transform use DIFFERENT time vectors.

Fourier._check_time() calls empymod.utils.check_time(), which (a) casts the
times to a float ndarray and (b) clamps times below empymod's minimum time
(1e-20 s; e.g. t = 0 s of np.linspace(0, 2, 5)) and prints "Times < 1e-20 s
are set to 1e-20 s!". emg3d keeps only the frequencies (`_, freq, ft, ftarg =
...`). Fourier.freq2time() then hands the RAW self.time to
empymod.model.tem(). Consequences for a time vector that contains 0 s:

- lagged-convolution DLF (the default): OverflowError in freq2time;
- splined DLF and FFTLog: NaN at t = 0 (silently), although the required
  frequencies were computed (and the user was told) for t = 1e-20 s.

(Same root cause: a list of times is accepted by the constructor, but
freq2time fails with AttributeError 'list' object has no attribute 'size'.)

Reference: empymod.model.tem applied to the SAME filled spectrum with the time
vector that empymod.utils.check_time returned for these inputs, i.e. the time
vector for which freq_required is valid.

Exit 1 = property violated, 0 = holds.
"""
import sys
import warnings

import numpy as np
import empymod

from emg3d.time import Fourier

warnings.simplefilter('ignore')

off = 900.0
model = {'src': [0, 0, 0], 'rec': [off, 0, 0], 'res': 1, 'depth': [],
         'verb': 1}

bad = False

for times in [np.linspace(0, 2, 5), [0.5, 1.0, 2.0]]:
    for ft, ftarg in [('dlf', {}), ('dlf', {'pts_per_dec': 10}),
                      ('fftlog', {})]:
        for signal in [0, -1]:
            print(f"\ntimes={times}, ft={ft}, ftarg={ftarg}, signal={signal}")

            F = Fourier(times, 1e-3, 100, signal=signal, ft=ft, ftarg=ftarg,
                        verb=0)
            fdata = empymod.dipole(freqtime=F.freq_compute, **model)
            filled = F.interpolate(fdata)

            # Reference transform on the filled spectrum.
            tchk, freq, ft_, targ = empymod.utils.check_time(
                    times, signal, ft, ftarg, 0)
            assert np.array_equal(freq, F.freq_required)
            ref, _ = empymod.model.tem(
                    filled[:, None], np.array(off), freq, tchk, signal, ft_,
                    targ)
            ref = np.squeeze(ref)
            print("   reference tem(filled spectrum):", ref)

            try:
                tdat = F.freq2time(fdata, off)
            except Exception as e:
                print(f"   Fourier.freq2time RAISES {type(e).__name__}: {e}")
                bad = True
                continue
            print("   Fourier.freq2time             :", tdat)
            if not np.allclose(tdat, ref, rtol=1e-10, atol=0, equal_nan=False):
                print("   -> differs from the reference transform "
                      f"(NaN entries: {np.isnan(tdat).sum()})")
                bad = True

print()
if bad:
    print("RESULT: property C20 VIOLATED (checked time vector discarded)")
    sys.exit(1)
print("RESULT: property holds")
sys.exit(0)
