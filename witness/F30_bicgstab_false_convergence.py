"""F30 (written by an auditing sub-agent, C01 witness 1): C01 witness 1: sslsolver='bicgstab' reports CONVERGED (exit 0) although the
returned field does NOT satisfy the requested tolerance.

emg3d.solver.krylov() maps SciPy's return code 0 to "CONVERGED".  SciPy's
bicgstab checks a *recursively updated* residual vector, not b - A x.  The true
residual of the returned field (which emg3d even recomputes and stores in
info['abs_error'] / info['rel_error']) is never compared with tol.

The residual is recomputed here independently of emg3d (operator assembled
with discretize: C^T Mf(1/mu) C + s mu0 Me(sigma), interior edges only).

Case A: fresh field, ALL solver defaults (bicgstab + multigrid), tight tol.
        Stand-alone multigrid and cgs correctly report failure for the same
        request; bicgstab reports success.
Case B: default tol=1e-6, caller-supplied (badly scaled) initial field,
        cycle=None (documented Krylov-only mode).
Exit code 1 = property violated, 0 = holds.
"""
import sys
import numpy as np
import discretize
from scipy.constants import mu_0
import emg3d


def independent_rel_residual(grid, sigma, sfield, efield):
    """|b - A e| / |b| with A assembled by discretize (not emg3d)."""
    mesh = discretize.TensorMesh(grid.h)
    f = sfield._frequency
    s = 2j*np.pi*f if f > 0 else -f
    sig = sigma*np.ones(mesh.n_cells)
    A = (mesh.edge_curl.T @ mesh.get_face_inner_product() @ mesh.edge_curl
         + s*mu_0*mesh.get_edge_inner_product(sig))
    r = np.asarray(sfield.field) - A @ np.asarray(efield.field)
    m = emg3d.Field(grid, dtype=float)          # mask of interior edges
    m.fx[:, 1:-1, 1:-1] = 1
    m.fy[1:-1, :, 1:-1] = 1
    m.fz[1:-1, 1:-1, :] = 1
    r = r[np.asarray(m.field) > 0]
    return np.linalg.norm(r)/np.linalg.norm(sfield.field)


def pec(ef):
    return not (ef.fx[:, [0, -1], :].any() or ef.fx[:, :, [0, -1]].any() or
                ef.fy[[0, -1], :, :].any() or ef.fy[:, :, [0, -1]].any() or
                ef.fz[[0, -1], :, :].any() or ef.fz[:, [0, -1], :].any())


violated = False

# ---------------------------------------------------------------- Case A ---
print("Case A: fresh field, uniform 16^3 fullspace (1 Ohm.m), x-dipole, all "
      "solver defaults")
hx = np.ones(16)*50.
grid = emg3d.TensorMesh([hx, hx, hx], origin=(0, 0, 0))
model = emg3d.Model(grid, property_x=1.0)             # resistivity 1 Ohm.m
for freq, tol in [(1.0, 1e-15), (-1.0, 1e-15), (-1.0, 1e-14)]:
    sfield = emg3d.get_source_field(grid, (400, 400, 403, 0, 0), freq)
    for name, kw in [('default (bicgstab+MG)', {}),
                     ('multigrid only', {'sslsolver': False}),
                     ('cgs+MG', {'sslsolver': 'cgs'})]:
        ef, info = emg3d.solve(model, sfield, tol=tol, maxit=100, verb=-1,
                               return_info=True, **kw)
        rel = independent_rel_residual(grid, 1.0, sfield, ef)
        bad = info['exit'] == 0 and not rel < tol
        violated |= bad
        print(f"  f={freq:5}  tol={tol:.0e}  {name:22}: exit={info['exit']} "
              f"'{info['exit_message'][:24]}'  reported rel_error="
              f"{info['rel_error']:.2e}  independent={rel:.2e}  PEC={pec(ef)}"
              f"{'   <== VIOLATION (%.0f x tol)' % (rel/tol) if bad else ''}")

# ---------------------------------------------------------------- Case B ---
print("\nCase B: default tol=1e-6, cycle=None, caller-supplied initial field, "
      "8^3 fullspace")
hx = np.ones(8)*50.
grid = emg3d.TensorMesh([hx, hx, hx], origin=(0, 0, 0))
model = emg3d.Model(grid, property_x=1.0)
rng = np.random.default_rng(0)
for freq in [1.0, -1.0]:
    sfield = emg3d.get_source_field(grid, (200, 200, 210, 0, 0), freq)
    good = emg3d.solve(model, sfield, verb=-1, tol=1e-10)   # reference
    starts = {}
    e0 = emg3d.Field(grid, frequency=freq)
    e0.field[:] = 1e4*rng.standard_normal(e0.field.size)
    starts['random, amplitude 1e4 V/m'] = e0
    e1 = good.copy()
    e1.field *= 1e12
    starts['1e12 x true solution'] = e1
    for sname, start in starts.items():
        for ssl in ['bicgstab', 'cgs']:
            ef = start.copy()
            info = emg3d.solve(model, sfield, efield=ef, cycle=None,
                               sslsolver=ssl, maxit=3000, verb=-1,
                               return_info=True)
            rel = independent_rel_residual(grid, 1.0, sfield, ef)
            err = (np.linalg.norm(ef.field-good.field) /
                   np.linalg.norm(good.field))
            bad = info['exit'] == 0 and not rel < info['tol']
            violated |= bad
            print(f"  f={freq:5}  start={sname:26} {ssl:8}: exit="
                  f"{info['exit']} '{info['exit_message'][:24]}'  reported "
                  f"rel_error={info['rel_error']:.2e}  independent={rel:.2e}"
                  f"  |e-e_ref|/|e_ref|={err:.1e}"
                  f"{'   <== VIOLATION (%.0f x tol)' % (rel/info['tol']) if bad else ''}")

print("\nPROPERTY C01", "VIOLATED" if violated else "holds",
      "(exit status 0 / 'CONVERGED' although |b - A e| >= tol*|b|)"
      if violated else "")
sys.exit(1 if violated else 0)
