"""K2 (known finding, recorded, not repaired; written by an auditing sub-agent; exit 1 = defect present): C15 witness 1: the adjoint-state gradient is not the gradient of the misfit
when the computational grid differs from the model grid and the model is not
homogeneous.

Forward: Model.interpolate_to_grid averages the model in LOG space
         (sigma_c = 10**(P log10 sigma_m); for every mapping).
Adjoint: Simulation.gradient brings the gradient back with P^T of the LINEAR
         volume averaging (discretize.utils.volume_average), as if the forward
         had been sigma_c = P sigma_m.

Independent references: (a) central finite differences of Simulation.misfit;
(b) finite-difference Jacobian of the forward interpolation vs. the matrix P
whose transpose is used in the gradient.
"""
import sys
import numpy as np
import discretize
import emg3d

rng = np.random.default_rng(3)

# Model grid: 5x5x5 cells of 160 m; computational grid: 8x8x8 cells of 100 m;
# both cover exactly the same cube.
mgrid = emg3d.TensorMesh([np.ones(5)*160.]*3, origin=(-400, -400, -400))
cgrid = emg3d.TensorMesh([np.ones(8)*100.]*3, origin=(-400, -400, -400))


def simulation(model, obs=None):
    survey = emg3d.surveys.Survey(
        sources=emg3d.TxElectricDipole((-150, 30, -20, 0, 0)),
        receivers=emg3d.surveys.txrx_coordinates_to_dict(
            emg3d.RxElectricPoint, ([150, 210], [10, -60], -30, 0, 0)),
        frequencies=1.0, noise_floor=1e-15, relative_error=0.05)
    sim = emg3d.Simulation(
        survey, model, gridding='input', gridding_opts=cgrid,
        solver_opts={'tol': 1e-10, 'tol_gradient': 1e-10, 'maxit': 100,
                     'plain': True},
        receiver_interpolation='linear', max_workers=1, verb=0,
        tqdm_opts={'disable': True})
    if obs is not None:
        sim.survey.data['observed'][...] = obs
    return sim


def as_vs_fd(mapping, sig_init, ncells=4):
    """Return list of (cell, adjoint gradient, central FD, ratio)."""
    mp = getattr(emg3d.maps, 'Map'+mapping)()

    # "True" model to generate observed data.
    sig_true = np.full(mgrid.shape_cells, 1.0)
    sig_true[2:4, 1:4, 1:3] = 0.1
    tsim = simulation(emg3d.Model(mgrid, mp.forward(sig_true), mapping=mapping))
    tsim.compute(observed=True, add_noise=False)
    obs = tsim.survey.data.observed.data.copy()

    # Adjoint-state gradient at the initial model.
    prop = mp.forward(sig_init)
    sim = simulation(emg3d.Model(mgrid, prop, mapping=mapping), obs)
    grad = sim.gradient.copy()

    # Central finite differences for the cells with the largest gradient.
    out = []
    for j in np.argsort(abs(grad).ravel('F'))[::-1][:ncells]:
        ijk = np.unravel_index(j, mgrid.shape_cells, order='F')
        delta = 1e-4*max(abs(prop[ijk]), 0.1)
        phi = []
        for sign in (+1, -1):
            pp = prop.copy()
            pp[ijk] += sign*delta
            phi.append(simulation(
                emg3d.Model(mgrid, pp, mapping=mapping), obs).misfit)
        fd = (phi[0]-phi[1])/(2*delta)
        out.append((tuple(int(i) for i in ijk), grad[ijk], fd, grad[ijk]/fd))
    return out


violated = False

# (b) Pure interpolation statement: Jacobian of the forward interpolation of
#     a conductivity model vs. the P whose transpose is used in the gradient.
sig = 10**rng.uniform(-1.5, 0.5, mgrid.shape_cells)
model = emg3d.Model(mgrid, sig, mapping='Conductivity')
P = discretize.utils.volume_average(mgrid, cgrid).toarray()
J = np.zeros_like(P)
for j in range(mgrid.n_cells):
    d = np.zeros(mgrid.n_cells)
    d[j] = 1e-6*sig.ravel('F')[j]
    mp_ = emg3d.Model(mgrid, (sig.ravel('F')+d), mapping='Conductivity')
    mm_ = emg3d.Model(mgrid, (sig.ravel('F')-d), mapping='Conductivity')
    J[:, j] = (mp_.interpolate_to_grid(cgrid).property_x.ravel('F') -
               mm_.interpolate_to_grid(cgrid).property_x.ravel('F'))/(2*d[j])
err = np.linalg.norm(J-P)/np.linalg.norm(P)
print(f"Jacobian of Model.interpolate_to_grid vs P used in gradient: "
      f"rel. difference = {err:.3f}")
sig_c = model.interpolate_to_grid(cgrid).property_x.ravel('F')
Jlog = sig_c[:, None]*P/sig.ravel('F')[None, :]
print("   ... vs diag(sigma_c) P diag(1/sigma_m)                 : "
      f"rel. difference = {np.linalg.norm(J-Jlog)/np.linalg.norm(Jlog):.1e}")
if err > 1e-3:
    violated = True

# (a) Adjoint-state gradient vs finite differences of the misfit.
cases = [
    ('control: homogeneous', 'Conductivity',
     np.full(mgrid.shape_cells, 0.7)),
    ('heterogeneous', 'Conductivity', sig),
    ('heterogeneous', 'LgResistivity', sig),
]
for name, mapping, sig_init in cases:
    print(f"\n{name}; mapping={mapping}; gridding='input' (8x8x8 comp. grid, "
          "5x5x5 model grid, same cube)")
    print("   cell        adjoint-state      central FD      ratio")
    for ijk, g, fd, ratio in as_vs_fd(mapping, sig_init):
        print(f"   {ijk}  {g:14.6f}  {fd:14.6f}  {ratio:9.5f}")
        if not name.startswith('control') and abs(ratio-1) > 0.01:
            violated = True
        if name.startswith('control') and abs(ratio-1) > 1e-4:
            print("   (control failed - FD set-up not reliable)")
            sys.exit(2)

if violated:
    print("\nVIOLATED: the forward model averaging (log) is not the linear "
          "map whose transpose is used for the gradient.")
    sys.exit(1)
print("\nOK")
sys.exit(0)
