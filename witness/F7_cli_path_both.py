"""F7: --path on the terminal together with `path` in [files].

On the pinned tree (before 598c2bb) parse_config_file raised
TypeError: Unexpected parameter in [files]: ['path'] instead of letting the
terminal value take precedence.  Run with /venv/bin/python; exit 0 = correct.
"""
import os
import sys
import tempfile
from emg3d.cli import parser

d = tempfile.mkdtemp()
cfgf = os.path.join(d, 'c.cfg')
with open(cfgf, 'w') as f:
    f.write(f'[files]\npath = {d}/a\n')
args = {'config': cfgf, 'nproc': None, 'verbosity': 0, 'dry_run': True,
        'clean': False, 'forward': False, 'misfit': False, 'gradient': False,
        'path': f'{d}/b', 'survey': None, 'model': None, 'output': None,
        'save': None, 'load': None, 'cache': None, 'layered': False}
try:
    cfg, term = parser.parse_config_file(dict(args))
except TypeError as e:
    print('DEFECT:', e)
    sys.exit(1)
assert cfg['files']['survey'] == f'{d}/b/survey.h5', cfg['files']
args['path'] = None
cfg, term = parser.parse_config_file(dict(args))
assert cfg['files']['survey'] == f'{d}/a/survey.h5', cfg['files']
print('ok')
