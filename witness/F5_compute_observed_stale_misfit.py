import numpy as np, emg3d, warnings
warnings.simplefilter('ignore')
hx=np.ones(8)*50
grid=emg3d.TensorMesh([hx,hx,hx],origin=(0,0,0))
model=emg3d.Model(grid,1.0, mapping='Conductivity')
src=emg3d.TxElectricDipole((200,200,200,0,0))
rec=[emg3d.RxElectricPoint((x,225,210,0,0)) for x in (120,290)]
s=emg3d.Survey(src,rec,[1.0],noise_floor=1e-15, relative_error=0.05, data=np.ones((1,2,1),dtype=complex)*1e-9)
sim=emg3d.Simulation(s,model,gridding='same',max_workers=1,receiver_interpolation='linear',solver_opts={'plain':True,'tol':1e-8},tqdm_opts=False)
m0=sim.misfit
sim.compute(observed=True, add_noise=False)
m1=sim.misfit
fresh=emg3d.Simulation(sim.survey.copy(),model,gridding='same',max_workers=1,receiver_interpolation='linear',solver_opts={'plain':True,'tol':1e-8},tqdm_opts=False)
print('misfit before',m0,'after compute(observed=True)',m1,'fresh',fresh.misfit)
