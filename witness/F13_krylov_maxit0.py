"""F13: maxit=0 with a Krylov solver reports CONVERGED.

SciPy's iterative solvers return info == maxiter when the iteration limit is
reached; with maxiter == 0 that is info == 0, which krylov() took for
convergence: exit 0 / 'CONVERGED' with an all-zero field and rel_error 1.0.
Run with /venv/bin/python; exit 0 = correct.
"""
import sys
import numpy as np
import emg3d

hx = np.ones(8)*100.
grid = emg3d.TensorMesh([hx, hx, hx], (-400, -400, -400))
model = emg3d.Model(grid, 1.0)
sf = emg3d.get_source_field(grid, emg3d.TxElectricDipole((0, 0, 0, 0, 0)), 1.)
bad = 0
for ssl in ('bicgstab', 'cgs'):
    for cyc in ('F', None):
        e, info = emg3d.solve(model, sf, sslsolver=ssl, cycle=cyc, maxit=0,
                              return_info=True, verb=0)
        print(ssl, cyc, info['exit'], info['exit_message'], info['rel_error'])
        if info['exit'] == 0 and info['rel_error'] > 1e-6:
            bad += 1
sys.exit(1 if bad else 0)
