#!/usr/bin/env python3
"""Print the findings register (known_findings.json) as markdown
(DESIGN.md, Appendix F)."""
import json
import os

HERE = os.path.dirname(os.path.dirname(os.path.abspath(__file__)))
d = json.load(open(os.path.join(HERE, 'known_findings.json')))
print('| property | rule | construct | status | what failed (witness) |')
print('|---|---|---|---|---|')
for f in d['findings']:
    rec = f['record'].split(' ', 3)[-1] if f['record'].startswith(
        ('fixed:', 'known:')) else f['record']
    rec = rec.replace('|', '\\|')
    con = f['construct'].replace('|', '\\|')
    print(f"| {f['property']} | {f['rule']} | `{con}` | {f['status']} | "
          f"{rec} ({f.get('witness', '').split(' ')[0]}) |")
