#!/usr/bin/env python3-vt
"""Run the seeded-mutant / neutral-variant corpus: tools/selftest.py [PID ...]"""
import os
import sys
import time
from concurrent.futures import ProcessPoolExecutor

HERE = os.path.dirname(os.path.dirname(os.path.abspath(__file__)))
sys.path.insert(0, HERE)
from sa.selftest.harness import judge  # noqa: E402
from sa.selftest.mutants import VARIANTS  # noqa: E402


def one(i):
    v = VARIANTS[i]
    t0 = time.time()
    try:
        res, info = judge(v)
    except Exception as e:  # pragma: no cover
        res, info = 'CRASH', repr(e)
    return i, res, info, time.time() - t0


def main():
    want = {a.upper() for a in sys.argv[1:]}
    idx = [i for i, v in enumerate(VARIANTS) if not want or v.pid in want]
    bad = 0
    with ProcessPoolExecutor(max_workers=16) as ex:
        for i, res, info, dt in ex.map(one, idx):
            v = VARIANTS[i]
            good = res in ('CAUGHT', 'SILENT', 'SKIPPED')
            bad += not good
            print(f'{"ok " if good else "BAD"} {v.pid} {v.expect:9} '
                  f'{res:13} {v.name}  [{dt:.1f}s] {info[:150]}')
    print(f'{len(idx)} variants, {bad} bad')
    return 1 if bad else 0


if __name__ == '__main__':
    sys.exit(main())
