#!/usr/bin/env python3-vt
"""Behaviour-preserving variants of /repo source: every check must stay silent.

For every source file under emg3d/ two variants are produced in memory:
  reformat  the module re-emitted by ast.unparse (comments, blank lines and
            line breaks gone, parentheses normalised)
  rename    as above, and every local variable of every function (names bound
            by assignment / for / with / comprehension inside the function
            that are not parameters, globals or nonlocals) renamed v -> v_rn
  flipcmp   every single-operator ordering/equality comparison a < b written
            the other way round (b > a); `is`/`in` comparisons untouched
  swapif    every if/else with a non-empty else that is not an elif chain
            written with the negated test and swapped arms
  commute   (emg3d/core.py only: scalar arithmetic in the numba kernels)
            operands of every + and * swapped
Each check whose property touches the file is run on the variant through the
self-test harness.  A violation here is a false alarm of the checker.

  tools/neutral_fuzz.py [PID ...]
"""
import ast
import builtins
import os
import sys
from concurrent.futures import ProcessPoolExecutor

HERE = os.path.dirname(os.path.dirname(os.path.abspath(__file__)))
sys.path.insert(0, HERE)
from sa.core.loader import Repo  # noqa: E402
from sa.selftest.harness import run_variant  # noqa: E402

FILES = ['emg3d/core.py', 'emg3d/solver.py', 'emg3d/models.py',
         'emg3d/fields.py', 'emg3d/maps.py', 'emg3d/meshes.py',
         'emg3d/electrodes.py', 'emg3d/surveys.py', 'emg3d/simulations.py',
         'emg3d/_multiprocessing.py', 'emg3d/io.py', 'emg3d/time.py',
         'emg3d/utils.py', 'emg3d/cli/parser.py', 'emg3d/cli/run.py',
         'emg3d/cli/main.py']
PIDS = ['C01', 'C02', 'C03', 'C04', 'C05', 'C07', 'C08', 'C09', 'C10', 'C11',
        'C12', 'C13', 'C14', 'C15', 'C17', 'C18', 'C19', 'C20']


class Renamer(ast.NodeTransformer):
    def __init__(self, names):
        self.names = names

    def visit_Name(self, n):
        if n.id in self.names:
            return ast.copy_location(ast.Name(n.id + '_rn', n.ctx), n)
        return n


def local_names(fn):
    params, bound, blocked = set(), set(), set()
    for n in ast.walk(fn):
        if isinstance(n, (ast.FunctionDef, ast.Lambda)):
            a = n.args
            for x in a.posonlyargs + a.args + a.kwonlyargs:
                params.add(x.arg)
            if a.vararg:
                params.add(a.vararg.arg)
            if a.kwarg:
                params.add(a.kwarg.arg)
            if isinstance(n, ast.FunctionDef) and n is not fn:
                blocked.add(n.name)
        elif isinstance(n, (ast.Global, ast.Nonlocal)):
            blocked.update(n.names)
        elif isinstance(n, ast.Name) and isinstance(n.ctx, ast.Store):
            bound.add(n.id)
        elif isinstance(n, ast.ClassDef):
            blocked.add(n.name)
    return {x for x in bound - params - blocked
            if not hasattr(builtins, x) and not x.startswith('__')}


class FlipCmp(ast.NodeTransformer):
    MAP = {ast.Lt: ast.Gt, ast.Gt: ast.Lt, ast.LtE: ast.GtE, ast.GtE: ast.LtE,
           ast.Eq: ast.Eq, ast.NotEq: ast.NotEq}

    def visit_Compare(self, n):
        self.generic_visit(n)
        if len(n.ops) == 1 and type(n.ops[0]) in self.MAP:
            return ast.copy_location(ast.Compare(
                n.comparators[0], [self.MAP[type(n.ops[0])]()], [n.left]), n)
        return n


class SwapIf(ast.NodeTransformer):
    def visit_If(self, n):
        self.generic_visit(n)
        if n.orelse and not (len(n.orelse) == 1 and
                             isinstance(n.orelse[0], ast.If)):
            return ast.copy_location(ast.If(
                ast.UnaryOp(ast.Not(), n.test), n.orelse, n.body), n)
        return n


class Commute(ast.NodeTransformer):
    def visit_BinOp(self, n):
        self.generic_visit(n)
        if isinstance(n.op, (ast.Add, ast.Mult)) and not any(
                isinstance(x, ast.Constant) and isinstance(x.value, str)
                for x in (n.left, n.right)):
            return ast.copy_location(ast.BinOp(n.right, n.op, n.left), n)
        return n


def variant(text, rename):
    tree = ast.parse(text)
    if rename == 'flipcmp':
        tree = FlipCmp().visit(tree)
    elif rename == 'swapif':
        tree = SwapIf().visit(tree)
    elif rename == 'commute':
        tree = Commute().visit(tree)
    elif rename:
        for node in ast.walk(tree):
            for i, st in enumerate(getattr(node, 'body', []) if isinstance(
                    node, (ast.Module, ast.ClassDef)) else []):
                if isinstance(st, ast.FunctionDef):
                    names = local_names(st)
                    # class-level/kw names used as keyword arguments are not
                    # Name nodes, so renaming is safe
                    node.body[i] = Renamer(names).visit(st)
    ast.fix_missing_locations(tree)
    return ast.unparse(tree) + '\n'


def one(job):
    pid, rel, rename = job
    repo = Repo()
    try:
        text = variant(repo.text(rel), rename)
        compile(text, rel, 'exec')
    except Exception as e:
        return pid, rel, rename, 'VARIANT-ERROR', repr(e)
    viol, known, err = run_variant(pid, {rel: text})
    if viol:
        return pid, rel, rename, 'FALSE-ALARM', '; '.join(
            f'{f.rule} {f.construct[:60]}' for f in viol[:3])
    if err:
        return pid, rel, rename, 'ERROR', err[:160]
    return pid, rel, rename, 'silent', ''


def main():
    want = [a.upper() for a in sys.argv[1:]] or PIDS
    modes = [False, True]
    if '--more' in sys.argv:
        modes = ['flipcmp', 'swapif', 'commute']
    want = [w for w in want if not w.startswith('--')] or PIDS
    jobs = [(p, f, r) for p in want for f in FILES for r in modes
            if r != 'commute' or f == 'emg3d/core.py']
    bad = 0
    with ProcessPoolExecutor(max_workers=14) as ex:
        for pid, rel, rename, res, info in ex.map(one, jobs):
            if res != 'silent':
                bad += res in ('FALSE-ALARM', 'ERROR')
                print(f'{res:12} {pid} {rel} '
                      f'{rename if isinstance(rename, str) else "rename" if rename else "reformat"}: {info}')
    print(f'{len(jobs)} variants, {bad} false alarms or analysis errors')
    return 1 if bad else 0


if __name__ == '__main__':
    sys.exit(main())
