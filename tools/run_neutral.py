#!/usr/bin/env python3-vt
"""Run ALL checks against behaviour-preserving changes; every check must stay
silent (exit 0) on every one of them.

  tools/run_neutral.py [dir-or-patch ...]      default: /verif/neutral/*/

A neutral change is a directory with patch.diff (+ meta.json) or a single
*.diff file.  For each one a scratch copy of /repo's sources is made under a
temporary directory (removed afterwards), the patch is applied there and all
checks are run with VERIF_REPO pointing at the copy.  Exit 1 if any check
reports a violation or an analysis error on any neutral change: that is a
FALSE ALARM of the machinery (the changes were written by independent
sub-agents as refactorings that keep the unedited test suite green and the
behaviour unchanged, and were re-read before they were kept).
"""
import glob
import json
import os
import shutil
import subprocess
import sys
import tempfile
from concurrent.futures import ThreadPoolExecutor

HERE = os.path.dirname(os.path.dirname(os.path.abspath(__file__)))
REPO = '/repo'


def checks():
    man = json.load(open(os.path.join(HERE, 'MANIFEST.json')))
    return [c['property_id'] for c in man['checks']]


def run_one(name, patch, pids):
    tmp = tempfile.mkdtemp(prefix='verif_neutral_')
    try:
        for sub in ('emg3d', 'docs'):
            shutil.copytree(os.path.join(REPO, sub), os.path.join(tmp, sub),
                            ignore=shutil.ignore_patterns('__pycache__'))
        r = subprocess.run(['git', 'apply', '--unsafe-paths', '--directory',
                            tmp, patch], cwd=tmp, capture_output=True,
                           text=True)
        if r.returncode != 0:
            return name, {'_apply': 'FAILED ' + r.stderr[:200]}
        res = {}
        env = dict(os.environ, VERIF_REPO=tmp,
                   VERIF_EVIDENCE_DIR=os.path.join(tmp, 'evidence'))
        for pid in pids:
            p = subprocess.run([os.path.join(HERE, 'check'), pid], cwd=HERE,
                               env=env, capture_output=True, text=True)
            lines = [ln for ln in p.stdout.splitlines()
                     if (ln.startswith('  ') and '[' in ln)
                     or ln.startswith('ANALYSIS-ERROR')]
            res[pid] = (p.returncode, lines[:3])
        return name, res
    finally:
        shutil.rmtree(tmp, ignore_errors=True)


def main():
    args = [a for a in sys.argv[1:] if not a.startswith('--')]
    if not args:
        args = sorted(glob.glob(os.path.join(HERE, 'neutral', '*')))
    jobs = []
    args = [os.path.abspath(a) for a in args]
    for a in args:
        if os.path.isdir(a):
            if os.path.exists(os.path.join(a, 'patch.diff')):
                jobs.append((os.path.basename(a.rstrip('/')),
                             os.path.join(a, 'patch.diff')))
            elif glob.glob(os.path.join(a, '*', 'patch.diff')):
                for f in sorted(glob.glob(os.path.join(a, '*',
                                                       'patch.diff'))):
                    jobs.append((os.path.basename(os.path.dirname(f)), f))
            else:
                for f in sorted(glob.glob(os.path.join(a, '*.diff'))):
                    jobs.append((os.path.basename(a.rstrip('/')) + '/' +
                                 os.path.basename(f), f))
        else:
            jobs.append((os.path.basename(a), a))
    pids = checks()
    bad = 0
    with ThreadPoolExecutor(max_workers=8) as ex:
        for name, res in ex.map(lambda j: run_one(j[0], j[1], pids), jobs):
            if '_apply' in res:
                print(f'{name}: patch does not apply: {res["_apply"]}')
                bad += 1
                continue
            fired = {p: v for p, (rc, v) in res.items() if rc != 0}
            if not fired:
                print(f'{name:28} silent ({len(res)} checks)')
                continue
            bad += 1
            print(f'{name:28} FALSE ALARM in {sorted(fired)}')
            for p, v in fired.items():
                for ln in v[:3]:
                    print(f'      {p}: {ln.strip()[:230]}')
    print(f'{len(jobs)} neutral changes, {bad} with a false alarm or an '
          'analysis error')
    return 1 if bad else 0


if __name__ == '__main__':
    sys.exit(main())
