#!/usr/bin/env python3-vt
"""Reference table of control conditions (sa/core/control.py).

  tools/guard_audit.py C10 [C12 ...]     print, per statement matched by a
                                         template of the property's rules,
                                         the conditions it runs under
  tools/guard_audit.py --write [IDs]     store the counts (and the condition
                                         texts, for messages) of today's tree
                                         in sa/props/control_table.json

The table is written only from a tree on which all checks pass, after the
printed conditions were read (DESIGN.md section 9, "control conditions").
"""
import importlib
import json
import os
import sys

HERE = os.path.dirname(os.path.dirname(os.path.abspath(__file__)))
sys.path.insert(0, HERE)
from sa.core import template, control, defuse         # noqa: E402
from sa.core.loader import Repo                       # noqa: E402
from sa.core.report import Ctx, AnalysisError         # noqa: E402
from sa.props.registry import CLAIMS                  # noqa: E402


def main():
    args = [a for a in sys.argv[1:] if not a.startswith('--')]
    write = '--write' in sys.argv
    pids = [a.upper() for a in args] or sorted(CLAIMS)
    table = control.load_table()
    dutable = defuse.load_table()
    for pid in pids:
        try:
            mod = importlib.import_module(f'sa.props.{pid.lower()}')
        except ImportError:
            continue
        template.AUDIT = []
        ctx = Ctx(pid, 'quick', Repo(os.environ.get('VERIF_REPO', '/repo')))
        ctx.collect_only = True
        try:
            mod.run(ctx)
        except AnalysisError as e:
            print(pid, 'analysis error', e)
            continue
        res = control.collect(ctx)
        ent = {}
        for key, items in sorted(res.items()):
            ent[key] = {'counts': sorted(i[0] for i in items),
                        'totals': sorted(i[5] for i in items),
                        'conditions': sorted({c for i in items for c in i[1]}),
                        'twins': sorted((sorted(i[1]) for i in items),
                                        key=lambda t: (len(t), t)),
                        'statement': items[0][3]}
            if not write:
                print(f'{pid} {key.split("::")[0]} {key.split("::")[1]}:'
                      f'{items[0][2]} `{items[0][3]}`  x{len(items)}')
                for c in ent[key]['conditions']:
                    print(f'        if {c}')
        if write:
            table[pid] = ent
            du = defuse.collect(ctx)
            dutable[pid] = {k: {'stmts': v['stmts'], 'keys': v['keys']}
                            for k, v in du.items()}
            print(pid, len(ent), 'statements;', len(du), 'functions,',
                  sum(len(v['stmts']) for v in du.values()),
                  'statements with reaching definitions')
    if write:
        with open(control.TABLE, 'w') as f:
            json.dump(table, f, indent=1, sort_keys=True)
        with open(defuse.TABLE, 'w') as f:
            json.dump(dutable, f, sort_keys=True)


main()
