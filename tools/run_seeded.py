#!/usr/bin/env python3-vt
"""Run the checks against every kept seeded change in /verif/seeded/<id>/.

For each seeded/<id>/patch.diff a scratch copy of /repo's sources is made
under a temporary directory (removed afterwards), the patch is applied there
and all checks (or --only the check of the broken property) are run with
VERIF_REPO pointing at the copy.  Prints a matrix: which checks report a
violation for which seeded change.   tools/run_seeded.py [--all] [ids...]
"""
import json
import os
import shutil
import subprocess
import sys
import tempfile
from concurrent.futures import ThreadPoolExecutor

HERE = os.path.dirname(os.path.dirname(os.path.abspath(__file__)))
SEEDED = os.environ.get('VERIF_SEEDED') or os.path.join(HERE, 'seeded')
REPO = '/repo'


def checks():
    man = json.load(open(os.path.join(HERE, 'MANIFEST.json')))
    return [c['property_id'] for c in man['checks']]


def run_one(sid, pids):
    d = os.path.join(SEEDED, sid)
    meta = json.load(open(os.path.join(d, 'meta.json')))
    tmp = tempfile.mkdtemp(prefix='verif_seed_')
    try:
        for sub in ('emg3d', 'docs'):
            shutil.copytree(os.path.join(REPO, sub), os.path.join(tmp, sub),
                            ignore=shutil.ignore_patterns('__pycache__'))
        r = subprocess.run(['git', 'apply', '--unsafe-paths', '--directory',
                            tmp, os.path.join(d, 'patch.diff')],
                           cwd=tmp, capture_output=True, text=True)
        if r.returncode != 0:
            # (no fuzzy fallback: the stored patch must apply with plain
            # `git apply` on the current tree; re-make it if fixes moved it)
            return sid, meta, {'_apply': 'FAILED ' + r.stderr[:200]}
        res = {}
        env = dict(os.environ, VERIF_REPO=tmp,
                   VERIF_EVIDENCE_DIR=os.path.join(tmp, 'evidence'))
        for pid in pids:
            p = subprocess.run([os.path.join(HERE, 'check'), pid], cwd=HERE,
                               env=env, capture_output=True, text=True)
            viol = [ln for ln in p.stdout.splitlines()
                    if ln.startswith('  ') and '[' in ln]
            res[pid] = (p.returncode, viol[:2], [
                ln for ln in p.stdout.splitlines()
                if ln.startswith('ANALYSIS-ERROR')][:1])
        return sid, meta, res
    finally:
        shutil.rmtree(tmp, ignore_errors=True)


def main():
    args = [a for a in sys.argv[1:] if not a.startswith('--')]
    every = '--all' in sys.argv
    ids = args or sorted(os.listdir(SEEDED))
    ids = [i for i in ids if os.path.exists(os.path.join(SEEDED, i,
                                                         'patch.diff'))]
    allp = checks()
    jobs = []
    for sid in ids:
        meta = json.load(open(os.path.join(SEEDED, sid, 'meta.json')))
        pids = allp if every else [meta['property']]
        jobs.append((sid, pids))
    caught = 0
    with ThreadPoolExecutor(max_workers=12) as ex:
        for sid, meta, res in ex.map(lambda j: run_one(*j), jobs):
            own = meta['property']
            if '_apply' in res:
                print(f'{sid}: patch does not apply: {res["_apply"]}')
                continue
            fired = [p for p, (rc, v, e) in res.items() if rc == 1]
            errs = [p for p, (rc, v, e) in res.items() if rc == 2]
            status = 'CAUGHT' if own in fired else (
                'caught-by-other' if fired else 'MISSED')
            caught += own in fired
            print(f'{sid:14} breaks {own}: {status:15} fired={fired} '
                  f'analysis_error={errs}')
            for p in fired[:2]:
                for v in res[p][1][:1]:
                    print(f'      {p}: {v.strip()[:170]}')
            for p in errs[:1]:
                print(f'      {p}: {res[p][2]}')
    print(f'{len(jobs)} seeded changes, {caught} caught by the check of '
          'their own property')


if __name__ == '__main__':
    main()
