#!/usr/bin/env python3
"""Print the rule inventory (rule -> instances on this run) from evidence/*.json
as a markdown table (used for DESIGN.md, Appendix E)."""
import glob
import json
import os

HERE = os.path.dirname(os.path.dirname(os.path.abspath(__file__)))
print('| property | rule | instances |')
print('|---|---|---|')
for f in sorted(glob.glob(os.path.join(HERE, 'evidence', 'C*.json'))):
    d = json.load(open(f))
    rules = d['coverage'].get('rules', {})
    for r, n in sorted(rules.items()):
        print(f"| {d['property_id']} | {r} | {n if not isinstance(n, dict) else n.get('instances', n)} |")
