#!/usr/bin/env python3-vt
"""Write sa/props/known_names.json: every function of the package in /repo
(or $VERIF_REPO) with its local names -- the reference for sa/core/normal.py
(new helpers are inlined, new temporaries propagated).  Run with --write after
every change of /repo that is meant to become the new reference (a `fix:`
commit); without --write it prints what differs from the stored table."""
import ast
import json
import os
import sys

HERE = os.path.dirname(os.path.dirname(os.path.abspath(__file__)))
sys.path.insert(0, HERE)
from sa.core.loader import Repo  # noqa: E402
from sa.core.canon import canon  # noqa: E402
from sa.core import normal  # noqa: E402


def main():
    repo = Repo()
    out = {}
    for rel in repo.package_files():
        tree = canon(ast.parse(repo.text(rel)))
        out[rel] = normal.collect(tree)
    if '--write' in sys.argv:
        with open(normal.TABLE, 'w') as f:
            json.dump(out, f, indent=0, sort_keys=True)
        print(f'{normal.TABLE}: {sum(len(v) for v in out.values())} '
              f'functions in {len(out)} modules')
        return 0
    old = normal.known()
    diff = 0
    for rel in sorted(set(out) | set(old)):
        a, b = old.get(rel, {}), out.get(rel, {})
        for q in sorted(set(a) | set(b)):
            if a.get(q) != b.get(q):
                diff += 1
                print(f'{rel}::{q}: stored {a.get(q)} now {b.get(q)}')
    print(f'{diff} differences')
    return 1 if diff else 0


if __name__ == '__main__':
    sys.exit(main())
