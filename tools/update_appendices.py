#!/usr/bin/env python3-vt
"""Replace the tables of Appendix E / F in DESIGN.md by the current output of
tools/rule_inventory.py / tools/findings_register.py."""
import os
import re
import subprocess

HERE = os.path.dirname(os.path.dirname(os.path.abspath(__file__)))
p = os.path.join(HERE, 'DESIGN.md')
s = open(p).read()


def table(tool):
    out = subprocess.run(['python3-vt', os.path.join(HERE, 'tools', tool)],
                         capture_output=True, text=True, cwd=HERE).stdout
    lines = [ln for ln in out.splitlines() if ln.startswith('|')]
    return '\n'.join(lines) + '\n'


def replace(s, head, tool):
    i = s.index(head)
    m = re.search(r'^\|', s[i:], re.M)
    a = i + m.start()
    rest = s[a:].split('\n')
    k = 0
    while k < len(rest) and rest[k].startswith('|'):
        k += 1
    b = a + len('\n'.join(rest[:k])) + 1
    return s[:a] + table(tool) + s[b:]


s = replace(s, '## Appendix E', 'rule_inventory.py')
s = replace(s, '## Appendix F', 'findings_register.py')
open(p, 'w').write(s)
print('appendices E and F updated')
