#!/usr/bin/env python3
"""Run the pinned test suite of /repo (working tree) and exit 0 only if the
only failures are the two baseline failures (tests/test_cli.py::test_main and
::test_main2, which fail on the pinned tree in this sandbox) and 263 pass.
Used before every `fix:` commit (a plain `pytest | tail` hides the exit code).
"""
import re
import subprocess
import sys

p = subprocess.run(['/venv/bin/python', '-m', 'pytest', '-q', '-p',
                    'no:cacheprovider', '--timeout=900'], cwd='/repo',
                   capture_output=True, text=True)
out = p.stdout + p.stderr
failed = sorted(set(re.findall(r'^FAILED (\S+)', out, re.M)))
summary = [ln for ln in out.splitlines() if ' passed' in ln][-1:]
print('\n'.join(summary))
base = {'tests/test_cli.py::test_main[subprocess]',
        'tests/test_cli.py::test_main2[subprocess]'}
extra = [f for f in failed if f not in base]
m = re.search(r'(\d+) passed', summary[0]) if summary else None
ok = not extra and m and int(m.group(1)) == 263
if not ok:
    print('SUITE NOT OK; unexpected failures:', extra)
sys.exit(0 if ok else 1)
