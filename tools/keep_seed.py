#!/usr/bin/env python3
"""Verify a seeded change written by a sub-agent and keep it in /verif/seeded.

  tools/keep_seed.py <PID> <k> [--skip-suite]

Takes /tmp/wt/<PID>.out/change<k>.diff, demo<k>.py, meta<k>.json.  In a fresh
scratch worktree of /repo (removed afterwards) it confirms that
  1. the patch applies to /repo HEAD,
  2. the demonstration exits 0 on the clean tree,
  3. the demonstration exits non-zero with the patch,
  4. the pinned test suite still passes with the patch (263 passed; the two
     baseline failures tests/test_cli.py::test_main[2] are ignored),
and only then writes /verif/seeded/<PID>-<k>/{patch.diff, demo.py, meta.json}.
"""
import json
import os
import re
import shutil
import subprocess
import sys
import tempfile

PID, K = sys.argv[1], sys.argv[2]
SKIP = '--skip-suite' in sys.argv
SRC = f'/tmp/wt/{PID}.out'
AS = K
for i, a in enumerate(sys.argv):
    if a == '--as':
        AS = sys.argv[i + 1]
    if a == '--src':
        SRC = sys.argv[i + 1]
DEST = f'/verif/seeded/{PID}-{AS}'
PY = '/venv/bin/python'


def sh(cmd, cwd, env=None, timeout=1500):
    e = dict(os.environ)
    e.update(env or {})
    p = subprocess.run(cmd, cwd=cwd, env=e, shell=isinstance(cmd, str),
                       capture_output=True, text=True, timeout=timeout)
    return p.returncode, p.stdout + p.stderr


def main():
    patch = os.path.join(SRC, f'change{K}.diff')
    demo = os.path.join(SRC, f'demo{K}.py')
    metaf = os.path.join(SRC, f'meta{K}.json')
    for f in (patch, demo):
        if not os.path.exists(f):
            print(f'missing {f}')
            return 1
    try:
        meta_in = json.load(open(metaf))
    except Exception:
        meta_in = {}
    wt = tempfile.mkdtemp(prefix=f'keep_{PID}_{K}_', dir='/tmp')
    os.rmdir(wt)
    rc, out = sh(['git', '-C', '/repo', 'worktree', 'add', '-q', '--detach',
                  wt, 'HEAD'], '/repo')
    if rc:
        print('worktree failed', out)
        return 1
    env = {'PYTHONPATH': wt, 'NUMBA_CACHE_DIR': os.path.join(wt, '.nbcache')}
    ran = []
    try:
        shutil.copy(demo, os.path.join(wt, '_demo.py'))
        rc0, o0 = sh([PY, '_demo.py'], wt, env, 900)
        ran.append(f'clean tree: python demo.py -> exit {rc0}')
        if rc0 != 0:
            print(f'{PID}-{K}: demo fails on the CLEAN tree (exit {rc0})\n'
                  + o0[-600:])
            return 1
        rc, out = sh(['git', 'apply', patch], wt)
        if rc:
            print(f'{PID}-{K}: patch does not apply: {out[:300]}')
            return 1
        rc, files = sh(['git', 'diff', '--stat'], wt)
        rc1, o1 = sh([PY, '_demo.py'], wt, env, 900)
        ran.append(f'with patch: python demo.py -> exit {rc1}')
        if rc1 == 0:
            print(f'{PID}-{K}: demo PASSES with the patch (no violation '
                  'shown)')
            return 1
        suite = 'skipped'
        if not SKIP:
            rc2, o2 = sh([PY, '-m', 'pytest', '-q', '-p', 'no:cacheprovider',
                          '--timeout=900', '-x', '--deselect',
                          'tests/test_cli.py::test_main', '--deselect',
                          'tests/test_cli.py::test_main2', 'tests'], wt, env)
            tail = o2.strip().splitlines()[-1] if o2.strip() else ''
            suite = tail
            ran.append('with patch: pytest tests (two baseline failures '
                       f'deselected) -> {tail}')
            if rc2 != 0:
                print(f'{PID}-{K}: test suite FAILS with the patch: {tail}\n'
                      + '\n'.join(o2.strip().splitlines()[-15:]))
                return 1
        os.makedirs(DEST, exist_ok=True)
        shutil.copy(patch, os.path.join(DEST, 'patch.diff'))
        shutil.copy(demo, os.path.join(DEST, 'demo.py'))
        meta = {
            'property': PID,
            'summary': meta_in.get('summary', ''),
            'needs_to_manifest': meta_in.get('needs_to_manifest', ''),
            'files': meta_in.get('files', []),
            'written_by': 'independent sub-agent given only the property '
                          'text and a scratch worktree',
            'confirmed': ran,
            'suite_with_patch': suite,
            'demo_exit_clean': rc0, 'demo_exit_patched': rc1,
            'demo_output_patched_tail': o1.strip()[-400:],
        }
        json.dump(meta, open(os.path.join(DEST, 'meta.json'), 'w'), indent=1)
        print(f'{PID}-{AS}: KEPT ({suite})')
        return 0
    finally:
        sh(['git', '-C', '/repo', 'worktree', 'remove', '--force', wt],
           '/repo')
        shutil.rmtree(wt, ignore_errors=True)


if __name__ == '__main__':
    sys.exit(main())
