#!/usr/bin/env python3-vt
"""Regenerate /verif/MANIFEST.json from sa/props/registry.py and validate it."""
import json
import os
import sys

HERE = os.path.dirname(os.path.dirname(os.path.abspath(__file__)))
sys.path.insert(0, HERE)
from sa.props.registry import CLAIMS, NOT_APPLICABLE, ENGINES  # noqa: E402

BASE_OFF = ('cd /repo && /venv/bin/python -m pytest -ra -q -p no:cacheprovider '
            '--timeout=900 --continue-on-collection-errors')

man = {
    'version': 1,
    'setup_cmd': 'python3-vt -c "import ast, sympy, networkx, jsonschema"',
    'hooks': {
        'guard': 'none (EMSIG_EMG3D_VERIF is reserved but unused)',
        'enable': 'no hooks: the checkers parse /repo source as it is; nothing '
                  'is built, imported or instrumented',
        'baseline_off_cmd': BASE_OFF,
        'source_commits': [],
        'add_only': True,
    },
    'engines': ENGINES,
    'checks': [],
    'not_applicable': [],
    'notes': 'Technique family: static analysis only (custom AST/CFG/dataflow/'
             'abstract-interpretation checkers over /repo source; see '
             'DESIGN.md). Exit 2 + ANALYSIS-ERROR means no verdict.',
}
for pid in sorted(CLAIMS):
    c = CLAIMS[pid]
    if not os.path.exists(os.path.join(HERE, 'sa', 'props', pid.lower() + '.py')):
        NOT_APPLICABLE[pid] = 'checker not built yet (planned: ' + c['technique'] + ')'
        continue
    man['checks'].append({
        'property_id': pid,
        'quick_cmd': f'./check {pid} --tier quick',
        'thorough_cmd': f'./check {pid} --tier thorough',
        'evidence_file': f'/verif/evidence/{pid}.json',
        'replay_cmd_template': f'./check {pid} --replay {{path}}',
        'engine': c['engine'],
        'level_claimed': {'category': c['level'], 'text': c['text'],
                          'design_ref': c['design_ref']},
        'level_note': c['note'],
        'technique': c['technique'],
    })
for pid in sorted(NOT_APPLICABLE):
    man['not_applicable'].append({'property_id': pid,
                                  'reason': NOT_APPLICABLE[pid]})
with open(os.path.join(HERE, 'MANIFEST.json'), 'w') as f:
    json.dump(man, f, indent=1)
import jsonschema  # noqa: E402
jsonschema.validate(man, json.load(open('/root/.vp/MANIFEST.schema.json')))
print('MANIFEST.json written:', len(man['checks']), 'checks,',
      len(man['not_applicable']), 'not applicable; schema valid')
