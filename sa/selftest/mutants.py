"""Seeded mutants (must be reported) and neutral variants (must stay silent).

Each variant is a list of exact text replacements on the current source; all
of them still compile.  See DESIGN.md section 6 / Appendix C.
"""
from .harness import Variant as V

CORE = 'emg3d/core.py'
SOLVER = 'emg3d/solver.py'
MODELS = 'emg3d/models.py'
FIELDS = 'emg3d/fields.py'
MESHES = 'emg3d/meshes.py'
MAPS = 'emg3d/maps.py'
SIMS = 'emg3d/simulations.py'
SURV = 'emg3d/surveys.py'
MP = 'emg3d/_multiprocessing.py'
IO = 'emg3d/io.py'
TIME = 'emg3d/time.py'
ELEC = 'emg3d/electrodes.py'
PARSER = 'emg3d/cli/parser.py'
RUN = 'emg3d/cli/run.py'
MAIN = 'emg3d/cli/main.py'
DOCS = 'docs/manual/cli.rst'

VARIANTS = []


def m(pid, name, rel, old, new, rule=None):
    VARIANTS.append(V(pid, name, [(rel, old, new)], 'violation', rule))


def n(pid, name, rel, old, new):
    VARIANTS.append(V(pid, name, [(rel, old, new)], 'silent'))


# ------------------------------------------------------------------- C02
m('C02', 'VolumeModel: diffusive approximation also for epsilon_r == 1', MODELS,
  "                if model.epsilon_r is None:", "                if model.epsilon_r is None or np.all(model.epsilon_r == 1.0):", 'C02.O4.eta')
m('C02', 'amat_x: hy[iym]->hy[iy] in v1mp', CORE,
  "v1mp = ((ez[ix, iy, iz] - ez[ix, iym, iz])/hy[iym] -",
  "v1mp = ((ez[ix, iy, iz] - ez[ix, iym, iz])/hy[iy] -", 'C02.O1')
m('C02', 'amat_x: zeta[ixm,..]->zeta[ix,..] in v1pp', CORE,
  "v1pp *= zeta[ixm, iy, iz] + zeta[ix, iy, iz]",
  "v1pp *= zeta[ix, iy, iz] + zeta[ix, iy, iz]", 'C02.O1')
m('C02', 'amat_x: 0.25 -> 0.5 on sigma term of rz', CORE,
  "rz[ix, iy, iz] -= 0.5*rrz - 0.25*stz*ez[ix, iy, iz]",
  "rz[ix, iy, iz] -= 0.5*rrz - 0.5*stz*ez[ix, iy, iz]", 'C02.O1')
m('C02', 'amat_x: sign of a curl term', CORE,
  "rry = v1pp/hz[iz] - v1pm/hz[izm] - v3pp/hx[ix] + v3mp/hx[ixm]",
  "rry = v1pp/hz[iz] - v1pm/hz[izm] + v3pp/hx[ix] + v3mp/hx[ixm]", 'C02.O1')
m('C02', 'amat_x: mask of rrx on wrong axis', CORE,
  "if iy == 0 or iz == 0:  # assuming ex = 0",
  "if ix == 0 or iz == 0:  # assuming ex = 0", 'C02.O')
m('C02', 'amat_x: eta averaging cell swapped (boundary-adjacent only)', CORE,
  "stx = (eta_x[ix, iym, izm] + eta_x[ix, iym, iz] +",
  "stx = (eta_x[ix, iym, izm] + eta_x[ix, iy, iz] +", 'C02.O1')
m('C02', 'amat_x: mask dropped for rrz', CORE,
  "                if ix == 0 or iy == 0:  # assuming ez = 0\n                    rrz = 0\n",
  "", 'C02.O3')
m('C02', 'amat_x: eta_y used for the z-row', CORE,
  "stz = (eta_z[ixm, iym, iz] + eta_z[ix, iym, iz] +",
  "stz = (eta_y[ixm, iym, iz] + eta_z[ix, iym, iz] +", 'C02.O1')
m('C02', 'residual(): eta_x <-> eta_y at the call site', SOLVER,
  "                efield.fz, model.eta_x, model.eta_y, model.eta_z, model.zeta,\n                model.grid.h[0], model.grid.h[1], model.grid.h[2])\n\n    # Return error if norm.",
  "                efield.fz, model.eta_y, model.eta_x, model.eta_z, model.zeta,\n                model.grid.h[0], model.grid.h[1], model.grid.h[2])\n\n    # Return error if norm.",
  'C02.O5')
m('C02', 'VolumeModel: eps term dropped', MODELS,
  "eta = -sfield.smu0*vol*(cond + smu)", "eta = -sfield.smu0*vol*cond",
  'C02.O4')
m('C02', 'VolumeModel: eta_z aliasing case list', MODELS,
  "if self.case in ['VTI', 'triaxial']:\n            return self._eta_z",
  "if self.case in ['HTI', 'triaxial']:\n            return self._eta_z",
  'C02.O4')
m('C02', 'VolumeModel: zeta multiplied by mu_r', MODELS,
  "zeta /= model.mu_r", "zeta *= model.mu_r", 'C02.O4')
m('C02', 'Field.sval: Laplace sign', FIELDS,
  "self._sval = np.array(-self._frequency)",
  "self._sval = np.array(self._frequency)", 'C02.O4')
m('C02', 'cell_volumes: hx/hz broadcast swapped', MESHES,
  "self.h[0][None, None, :]*self.h[1][None, :, None] *\n                    self.h[2][:, None, None]",
  "self.h[0][:, None, None]*self.h[1][None, :, None] *\n                    self.h[2][None, None, :]",
  'C02.O4')
m('C02', 'krylov matvec: sign of return', SOLVER,
  "        return -rfield.field", "        return rfield.field", 'C02.O5')
n('C02', 'amat_x: factor hoisted (0.5*rrx computed first)', CORE,
  "rx[ix, iy, iz] -= 0.5*rrx - 0.25*stx*ex[ix, iy, iz]",
  "half = 0.5*rrx\n                rx[ix, iy, iz] -= half - stx*ex[ix, iy, iz]*0.25")
n('C02', 'amat_x: operands commuted / re-associated', CORE,
  "rrx = v3pp/hy[iy] - v3pm/hy[iym] - v2pp/hz[iz] + v2pm/hz[izm]",
  "rrx = (v2pm/hz[izm] - v2pp/hz[iz]) + (v3pp/hy[iy] - v3pm/hy[iym])")
n('C02', 'amat_x: precomputed reciprocal', CORE,
  "rry = v1pp/hz[iz] - v1pm/hz[izm] - v3pp/hx[ix] + v3mp/hx[ixm]",
  "ihz = 1.0/hz[iz]\n                rry = v1pp*ihz - v1pm/hz[izm] - v3pp/hx[ix] + v3mp/hx[ixm]")
n('C02', 'amat_x: update written as r = r - (...)', CORE,
  "ry[ix, iy, iz] -= 0.5*rry - 0.25*sty*ey[ix, iy, iz]",
  "ry[ix, iy, iz] = ry[ix, iy, iz] - (0.5*rry - 0.25*sty*ey[ix, iy, iz])")
n('C02', 'VolumeModel: eta factored differently', MODELS,
  "eta = -sfield.smu0*vol*(cond + smu)",
  "eta = -(sfield.smu0*vol*cond + vol*smu*sfield.smu0)")

# ------------------------------------------------------------------- C03
m('C03', 'gauss_seidel_y: backward ordering from the second sweep on', CORE,
  "    for _ in range(nu):\n\n        # Direction of Gauss-Seidel ordering; 0=forward, 1=backward\n        iback = 1-iback\n\n        # Loop over cells, keeping boundaries fixed; y-fastest",
  "    for it in range(nu):\n\n        # Direction of Gauss-Seidel ordering; 0=forward, 1=backward\n        iback = it == 0\n\n        # Loop over cells, keeping boundaries fixed; y-fastest",
  'C03.S7')
n('C03', 'gauss_seidel_z: direction flag from the sweep number', CORE,
  "    for _ in range(nu):\n\n        # Direction of Gauss-Seidel ordering; 0=forward, 1=backward\n        iback = 1-iback\n\n        # Loop over cells, keeping boundaries fixed; z-fastest",
  "    for it in range(nu):\n\n        # Direction of Gauss-Seidel ordering; 0=forward, 1=backward\n        iback = (it + 1) % 2\n\n        # Loop over cells, keeping boundaries fixed; z-fastest")
m('C03', 'gauss_seidel: nodes with a vanishing right-hand side skipped', CORE,
  "                    # Solve linear system A x = b\n                    solve(amat, rhs)",
  "                    if not np.any(rhs):\n                        continue\n                    solve(amat, rhs)",
  'C03.S7')
m('C03', 'gauss_seidel: sign of amat[3]', CORE,
  "amat[3] = mzyRxm/hx[ixm]    # 3,0| 3", "amat[3] = -mzyRxm/hx[ixm]    # 3,0| 3",
  'C03.S1')
m('C03', 'gauss_seidel: one rhs term dropped', CORE,
  "                    rhs[1] += myzLxp*(ez[ixp, iy, izm]/hx[ix] +\n                                      ex[ix, iy, izm]/hz[izm])\n",
  "", 'C03.S1')
m('C03', 'gauss_seidel: unknown order swapped in write-back only', CORE,
  "                    ex[ixm, iy, iz] = rhs[0]\n                    ex[ix, iy, iz] = rhs[1]",
  "                    ex[ixm, iy, iz] = rhs[1]\n                    ex[ix, iy, iz] = rhs[0]",
  'C03.S1')
m('C03', 'gauss_seidel: /4. -> /2. in sigma average', CORE,
  "st = np.array([st0, st1, st2, st3, st4, st5])/4.",
  "st = np.array([st0, st1, st2, st3, st4, st5])/2.", 'C03.S1')
m('C03', 'gauss_seidel_x: hx[ixm]->hx[ix] in left[6]', CORE,
  "left[6] = -mzxLym/hx[ixm]   # 1,1| 6", "left[6] = -mzxLym/hx[ix]   # 1,1| 6",
  'C03.S2')
m('C03', 'gauss_seidel_x: left sign flip', CORE,
  "left[10] = -mzyRxm/hx[ixm]  # 0,2|10", "left[10] = mzyRxm/hx[ixm]  # 0,2|10",
  'C03.S2')
m('C03', 'gauss_seidel_x: middle[13] stored at 12', CORE,
  "middle[13] = mxzLyp/hy[iy]   # 3,2|13 and 2,3|17",
  "middle[12] = mxzLyp/hy[iy]   # 3,2|13 and 2,3|17", 'C03.S2')
m('C03', 'gauss_seidel_y: left[5] uses hx instead of hy', CORE,
  "left[5] = mzxLym/hy[iym]    # 0,1| 5", "left[5] = mzxLym/hx[ixm]    # 0,1| 5",
  'C03.S2')
m('C03', 'gauss_seidel_z: write-back of unknowns 1 and 3 swapped', CORE,
  "                        ex[ixm, iy, iz] = bvec[1+5*izm]",
  "                        ex[ixm, iy, iz] = bvec[3+5*izm]", 'C03.S')
m('C03', 'blocks_to_amat: left placed with fam instead of mam', CORE,
  "amat[k+fam+5*(m+mam)] = left[k+5*m]", "amat[k+fam+5*(m+fam)] = left[k+5*m]",
  'C03.S')
m('C03', 'blocks_to_amat: last block reads left[5*m+1]', CORE,
  "amat[fam+5*(m+mam)] = left[5*m]", "amat[fam+5*(m+mam)] = left[5*m+1]",
  'C03.S2')
m('C03', 'core.solve: band lower bound j-4', CORE,
  "        for k in range(max(0, j-5), j):\n            h += amat[j+5*k]*bvec[k]",
  "        for k in range(max(0, j-4), j):\n            h += amat[j+5*k]*bvec[k]",
  'C03.S5')
m('C03', 'gauss_seidel_x: write-back also hits ix = nx boundary', CORE,
  "                    if ixm < nx-1:\n                        ey[ix, iym, iz] = bvec[1+5*ixm]",
  "                    if ixm < nx:\n                        ey[ix, iym, iz] = bvec[1+5*ixm]",
  'C03.S')
m('C03', 'gauss_seidel: sweep includes boundary plane iz = nz', CORE,
  "        for izh in range(1, nz):", "        for izh in range(0, nz):",
  'C03.S4')
m('C03', 'smoothing: dispatch list [1,5,6,7] -> [1,4,6,7]', SOLVER,
  "if c_lr_dir in [1, 5, 6, 7]:  # Line relaxation in x-direction",
  "if c_lr_dir in [1, 4, 6, 7]:  # Line relaxation in x-direction", 'C03.S6')
m('C03', '_current_lr_dir: 5 -> 2 instead of 5 -> 3', SOLVER,
  "        elif c_lr_dir == 5:\n            c_lr_dir = 3\n        elif c_lr_dir == 6:\n            c_lr_dir = 2",
  "        elif c_lr_dir == 5:\n            c_lr_dir = 2\n        elif c_lr_dir == 6:\n            c_lr_dir = 2",
  'C03.S6')
n('C03', 'gauss_seidel_x: rhs term re-associated', CORE,
  "rhs[0] += mzyRxm*ex[ixm, iyp, iz]/hy[iy]",
  "rhs[0] += (ex[ixm, iyp, iz]/hy[iy])*mzyRxm")
n('C03', 'gauss_seidel: st computed with *0.25', CORE,
  "st = np.array([st0, st1, st2, st3, st4, st5])/4.",
  "st = np.array([st0*0.25, st1*0.25, st2*0.25, st3*0.25, st4*0.25, st5*0.25])/1.")
m('C05', 'smoothing: lr_dir adapted only for some shapes', SOLVER,
  "    c_lr_dir = _current_lr_dir(lr_dir, model.grid)\n\n    # Compute and store",
  "    if model.grid.shape_cells[0] < 3:\n        c_lr_dir = _current_lr_dir(lr_dir, model.grid)\n    else:\n        c_lr_dir = lr_dir\n\n    # Compute and store",
  'C05.H2')
n('C05', 'smoothing: adapted code through a renamed local', SOLVER,
  "    c_lr_dir = _current_lr_dir(lr_dir, model.grid)\n\n    # Compute and store",
  "    grid_now = model.grid\n    c_lr_dir = _current_lr_dir(lr_dir, grid_now)\n\n    # Compute and store")
n('C03', 'smoothing: dispatch list reordered', SOLVER,
  "if c_lr_dir in [1, 5, 6, 7]:  # Line relaxation in x-direction",
  "if c_lr_dir in [7, 6, 5, 1]:  # Line relaxation in x-direction")

# ------------------------------------------------------------------- C04
m('C04', 'restrict: wyr uses wzl twice (full coarsening crx)', CORE,
  "                        crx[cix, ciy, ciz] += wyr[ciy]*(\n                            wz0[ciz]*(rx[ix, iyp, iz] + rx[ixp, iyp, iz]) +\n                            wzl[ciz]*(rx[ix, iyp, izm] + rx[ixp, iyp, izm]) +\n                            wzr[ciz]*(rx[ix, iyp, izp] + rx[ixp, iyp, izp])",
  "                        crx[cix, ciy, ciz] += wyr[ciy]*(\n                            wz0[ciz]*(rx[ix, iyp, iz] + rx[ixp, iyp, iz]) +\n                            wzl[ciz]*(rx[ix, iyp, izm] + rx[ixp, iyp, izm]) +\n                            wzl[ciz]*(rx[ix, iyp, izp] + rx[ixp, iyp, izp])",
  'C04.R')
m('C04', 'restrict: rx[ixp,...] dropped in one term', CORE,
  "wzl[ciz]*(rx[ix, iym, izm] + rx[ixp, iym, izm]) +",
  "wzl[ciz]*(rx[ix, iym, izm] + rx[ix, iym, izm]) +", 'C04.R')
m('C04', 'restrict_weights: d[i] uses h[2*i]', CORE,
  "d[i] = (h[2*i-2]+h[2*i-1])/2.", "d[i] = (h[2*i-1]+h[2*i])/2.", 'C04.W')
m('C04', 'restrict_weights: wl uses cell_centers[2*i]', CORE,
  "wl[i] *= cell_centers[2*i-1]-ccell_centers[i-1]",
  "wl[i] *= cell_centers[2*i]-ccell_centers[i-1]", 'C04.W')
m('C04', 'restriction: sc_dir list [1,5,6] -> [1,4,6]', SOLVER,
  "    if sc_dir in [1, 5, 6]:  # No coarsening in x-direction.",
  "    if sc_dir in [1, 4, 6]:  # No coarsening in x-direction.", 'C04.T')
m('C04', 'prolongation: += -> = for fx', SOLVER,
  "efield.fx[2*ixc+1, 1:-1, 1:-1] += hh[1:-1, 1:-1]",
  "efield.fx[2*ixc+1, 1:-1, 1:-1] = hh[1:-1, 1:-1]", 'C04.P')
m('C04', 'prolongation: boundary slice : instead of 1:-1', SOLVER,
  "efield.fx[2*ixc, 1:-1, 1:-1] += hh[1:-1, 1:-1]",
  "efield.fx[2*ixc, :, 1:-1] += hh[:, 1:-1]", 'C04.P')
m('C04', 'prolongation: guard list of fx', SOLVER,
  "        if sc_dir not in [1, 5, 6]:\n            efield.fx[2*ixc, 1:-1, 1:-1] += hh[1:-1, 1:-1]",
  "        if sc_dir not in [1, 5]:\n            efield.fx[2*ixc, 1:-1, 1:-1] += hh[1:-1, 1:-1]",
  'C04.T')
m('C04', '_get_restriction_weights: list of x', SOLVER,
  "    if sc_dir not in [1, 5, 6]:\n        wx = core.restrict_weights(",
  "    if sc_dir not in [1, 4, 6]:\n        wx = core.restrict_weights(", 'C04.T')
m('C04', '_restrict_model_parameters: child missing (sc_dir 1)', SOLVER,
  "        out += param[:, :-1:2, 1::2] + param[:, 1::2, 1::2]\n\n    # Only sum the four cells in x-z-plane",
  "        out += param[:, :-1:2, 1::2] + param[:, :-1:2, 1::2]\n\n    # Only sum the four cells in x-z-plane",
  'C04.M')
m('C04', '_restrict_model_parameters: wrong axis for sc_dir 4', SOLVER,
  "        out = param[:-1:2, :, :] + param[1::2, :, :]",
  "        out = param[:, :-1:2, :] + param[:, 1::2, :]", 'C04.M')
m('C04', 'RegularGridProlongator: weights swapped', SOLVER,
  "np.where(ei == i, 1 - yi, yi)", "np.where(ei == i, yi, 1 - yi)", 'C04.P')
m('C04', '_current_sc_dir: x blocked + z blocked returns 4', SOLVER,
  "        elif zsc_dir:\n            c_sc_dir = 5", "        elif zsc_dir:\n            c_sc_dir = 4",
  'C04.T')
m('C04', 'restriction: coarse eta_y aliasing case', SOLVER,
  "    if model.case in ['HTI', 'triaxial']:\n        cmodel.eta_y",
  "    if model.case in ['VTI', 'triaxial']:\n        cmodel.eta_y", 'C04.M')
n('C04', 'restrict: terms reordered', CORE,
  "wzl[ciz]*(rx[ix, iym, izm] + rx[ixp, iym, izm]) +",
  "(rx[ixp, iym, izm] + rx[ix, iym, izm])*wzl[ciz] +")
n('C04', 'restrict_weights: /2. as *0.5', CORE,
  "d[i] = (h[2*i-2]+h[2*i-1])/2.", "d[i] = 0.5*(h[2*i-1]+h[2*i-2])")

# ------------------------------------------------------------------- C01
m('C01', '_terminate: convergence only declared after the first cycle (control conditions)', SOLVER,
  "    if l2_last < var.tol*var.l2_refe:\n        var.exit_message = \"CONVERGED\"\n        finished = True",
  "    if l2_last < var.tol*var.l2_refe:\n        var.exit_message = \"CONVERGED\"\n        if it > 0:\n            finished = True", 'C01.CTL')
m('C01', '_terminate: guard without reference norm', SOLVER,
  "    if l2_last < var.tol*var.l2_refe:", "    if l2_last < var.tol:", 'C01.R1')
m('C01', 'solve: already-converged test against l2_refe only', SOLVER,
  "        if var.l2 < var.tol*var.l2_refe:", "        if var.l2 < var.l2_refe:",
  'C01.R1')
m('C01', 'multigrid: final residual computed before post-smoothing', SOLVER,
  "            # Get current error (l2-norm).\n            l2_last = residual(model, sfield, efield, True)\n",
  "            # Get current error (l2-norm).\n            l2_last = norm if var.verb > 4 else residual(model, sfield, efield, True)\n",
  'C01.R')
m('C01', 'multigrid: var.l2 = l2_prev', SOLVER,
  "    var.l2 = l2_last\n", "    var.l2 = l2_prev\n", 'C01.R2')
m('C01', 'multigrid: extra smoothing after the last residual', SOLVER,
  "            # Check if any termination criteria is fulfilled.\n            if _terminate(",
  "            smoothing(model, sfield, efield, 1, var.lr_dir)\n            if _terminate(",
  'C01.R')
m('C01', 'solve: one PEC plane not zeroed', SOLVER,
  "        efield.fz[:, 0, :] = efield.fz[:, -1, :] = 0.",
  "        efield.fz[:, 0, :] = 0.", 'C01.R4')
m('C01', 'solve: PEC zeroing on the wrong axis of fy', SOLVER,
  "        efield.fy[0, :, :] = efield.fy[-1, :, :] = 0.",
  "        efield.fy[:, 0, :] = efield.fy[:, -1, :] = 0.", 'C01.R4')
m('C01', 'solve: efield re-bound in the zero-source arm (defect F1 back)', SOLVER,
  "        efield.field = 0.0\n        var.l2 = 0.0\n",
  "        efield = fields.Field(model.grid, dtype=sfield.field.dtype,\n                              frequency=sfield._frequency)\n",
  'C01.R')
m('C01', 'krylov: residual not recomputed (defect F2 back)', SOLVER,
  "    # Error of the returned field (the solver may exit between callbacks).\n    var.l2 = residual(model, sfield, efield, True)\n",
  "", 'C01.R2')
m('C01', 'solve: exit status inverted', SOLVER,
  "    exit_status = int(var.exit_message != 'CONVERGED')",
  "    exit_status = int(var.exit_message == 'CONVERGED')", 'C01.R2')
m('C01', 'krylov: info > 0 arm reports CONVERGED', SOLVER,
  '        var.exit_message = "MAX. ITERATION REACHED, NOT CONVERGED"\n    else:\n        var.exit_message = "CONVERGED"',
  '        var.exit_message = "CONVERGED"\n    else:\n        var.exit_message = "CONVERGED"',
  'C01.R')
m('C01', 'krylov: success for info >= 0', SOLVER,
  "    elif i > 0:\n        var.exit_message = \"MAX. ITERATION REACHED, NOT CONVERGED\"",
  "    elif i > 1:\n        var.exit_message = \"MAX. ITERATION REACHED, NOT CONVERGED\"",
  'C01.R1')
m('C01', 'solve: dtype check removed', SOLVER,
  "        if sfield.field.dtype != efield.field.dtype:",
  "        if False and sfield.field.dtype != efield.field.dtype:", 'C01.R5')
m('C01', 'info dict: abs_error from error_at_cycle', SOLVER,
  "            'abs_error': var.l2,               # Absolute error.",
  "            'abs_error': var.error_at_cycle[-1],  # Absolute error.",
  'C01.R2')
# (since fix F30 success is certified by the recomputed residual: a large atol
# only makes scipy stop early, which is then reported as NOT CONVERGED)
n('C01', 'krylov: atol large (early stop is reported honestly)', SOLVER,
  "maxiter=var.ssl_maxit, atol=1e-30, M=M, callback=callback)",
  "maxiter=var.ssl_maxit, atol=1e-3, M=M, callback=callback)")
m('C01', '_terminate: STAGNATED arm without message', SOLVER,
  '        var.exit_message = "STAGNATED"\n', '        pass\n', 'C01.R6')
m('C01', 'Field.field setter re-binds', FIELDS,
  "        self._field[:] = field", "        self._field = field", 'C01.R3')
n('C01', '_terminate: product operands swapped, <= ', SOLVER,
  "    if l2_last < var.tol*var.l2_refe:", "    if l2_last <= var.l2_refe*var.tol:")
n('C01', 'solve: exit status via conditional expression', SOLVER,
  "    exit_status = int(var.exit_message != 'CONVERGED')",
  "    exit_status = 0 if var.exit_message == 'CONVERGED' else 1")
n('C01', 'multigrid: residual stored through a second local', SOLVER,
  "    var.l2 = l2_last\n", "    final = l2_last\n    var.l2 = final\n")

# ------------------------------------------------------------------- C12
m('C12', 'to_dict: receiver_interpolation not written', SIMS,
  "            'receiver_interpolation': self.receiver_interpolation,\n", "",
  'C12.OW5.roundtrip')
m('C12', 'from_dict: layered_opts not handed to the constructor', SIMS,
  "        cls_inp['layered_opts'] = inp.pop('layered_opts', {})\n",
  "        inp.pop('layered_opts', {})\n", 'C12.OW5.roundtrip')
m('C12', 'to_dict: name and info swapped', SIMS,
  "            'name': self.name,\n            'info': self.info,",
  "            'name': self.info,\n            'info': self.name,",
  'C12.OW5.roundtrip')
n('C12', 'from_dict: file_dir read together with the class inputs', SIMS,
  "        cls_inp['file_dir'] = inp.pop('file_dir', None)\n",
  "        cls_inp['file_dir'] = None\n        cls_inp['file_dir'] = inp.pop('file_dir', cls_inp['file_dir'])\n")
VARIANTS.append(V('C12', 'clean: gradient only reset if back-propagated fields exist', [
  (SIMS, "                if hasattr(self, name):\n                    delattr(self, name)\n\n            # Remove files",
   "                if hasattr(self, name):\n                    delattr(self, name)\n                    if what != 'keepresults':\n                        self._gradient = None\n\n            # Remove files"),
  (SIMS, "            for name in ['_gradient', '_misfit']:\n                delattr(self, name)\n                setattr(self, name, None)",
   "            self._misfit = None")], 'violation', 'C12.OW3.clean'))
n('C12', 'clean: gradient and misfit reset by plain assignments', SIMS,
  "            for name in ['_gradient', '_misfit']:\n                delattr(self, name)\n                setattr(self, name, None)",
  "            self._misfit = None\n            self._gradient = None")
m('C12', '_bcompute: tolerance line removed', SIMS,
  "            data['solver_opts']['tol'] = self.tol_gradient\n            return self._data_or_file('bfield', source, freq, data)",
  "            return self._data_or_file('bfield', source, freq, data)", 'C12.OW4')
m('C12', '_compute: forward tolerance uses tol_gradient', SIMS,
  "            data['solver_opts']['tol'] = self.tol_forward",
  "            data['solver_opts']['tol'] = self.tol_gradient", 'C12.OW4')
m('C12', 'clean: forgets _misfit', SIMS,
  "            for name in ['_gradient', '_misfit']:",
  "            for name in ['_gradient']:", 'C12.OW3')
m('C12', 'clean: glob misses gfield files', SIMS,
  "glob('[ebg]field_*.h5')", "glob('[eb]field_*.h5')", 'C12.OW3')
m('C12', 'jtvec: gradient not reset after use (defect F4 back)', SIMS,
  "        self.data.residual[...] = residual\n        self._gradient = None\n",
  "        self.data.residual[...] = residual\n", 'C12.OW1')
m('C12', 'jtvec: residual not restored', SIMS,
  "        self.data.residual[...] = residual\n        self._gradient = None\n",
  "        self._gradient = None\n", 'C12.OW1')
m('C12', 'compute(observed): misfit cache kept (defect F5 back)', SIMS,
  "            # New observed data: reset everything that depends on them.\n            self._misfit = None\n",
  "            # New observed data: reset everything that depends on them.\n",
  'C12.OW2')
m('C12', 'copy: shallow', SIMS,
  "return self.from_dict(self.to_dict(what, True))",
  "return self.from_dict(self.to_dict(what, False))", 'C12.OW5')
m('C12', 'from_dict: solver_opts not copied', SIMS,
  "        cls_inp['solver_opts'] = cls_inp['solver_opts'].copy()\n", "", 'C12.OW5')
m('C12', 'to_dict: tolerance not restored', SIMS,
  "        self.solver_opts['tol'] = self.tol_forward\n", "", 'C12.OW4')
n('C12', 'jtvec: reset order changed', SIMS,
  "        self.data.residual[...] = residual\n        self._gradient = None\n",
  "        self._gradient = None\n        self.data.residual[...] = residual\n")
n('C12', 'clean: list order', SIMS,
  "            for name in ['_gradient', '_misfit']:",
  "            for name in ['_misfit', '_gradient']:")

# ------------------------------------------------------------------- C13
m('C13', 'Survey.select: receivers only selected with sources (control conditions)', SURV,
  "            selection['rec'] = receivers", "            if sources is not None:\n                selection['rec'] = receivers", 'C13.CTL')
m('C13', 'Simulation.to_dict plain: keep-list without the standard deviation', SIMS,
  "            for key in ['synthetic', 'residual', 'weights']:\n                if key in out['survey']['data'].keys():\n                    del out['survey']['data'][key]",
  "            keep = ['observed', '_noise_floor', '_relative_error']\n            out['survey']['data'] = {\n                k: v for k, v in out['survey']['data'].items() if k in keep}", 'C13.N4.copy')
m('C13', 'std: noise_floor not squared', SURV,
  "std += self.noise_floor**2", "std += self.noise_floor", 'C13.N1')
m('C13', 'std: relative error without abs of data', SURV,
  "std += np.abs(self.relative_error*self.data.observed)**2",
  "std += np.abs(self.relative_error)**2", 'C13.N1')
m('C13', 'misfit: /2 dropped', SIMS,
  "self._misfit = np.sum(weights*(residual.conj()*residual)).real/2",
  "self._misfit = np.sum(weights*(residual.conj()*residual)).real", 'C13.N1')
m('C13', 'misfit: weights = std**-1', SIMS,
  "self.data['weights'] = std**-2", "self.data['weights'] = std**-1", 'C13.N1')
m('C13', 'layered misfit twin differs', MP,
  "misfit = np.sum(wgt*(res.conj()*res)).real/2",
  "misfit = np.sum(wgt*(res.conj()*res)).real", 'C13.N1')
m('C13', 'add_noise: in-place halving (defect F3 back)', SURV,
  "min_amplitude = min_amplitude/2.0", "min_amplitude /= 2.0", 'C13.N2')
m('C13', 'add_noise: in-place scaling of relative error', SURV,
  "        if self.standard_deviation is not None:\n            noise = random_noise(",
  "        if self.standard_deviation is not None:\n            re = self.relative_error\n            if re is not None and not isinstance(re, float):\n                re *= 1.0\n            noise = random_noise(",
  'C13.N2')
m('C13', 'standard_deviation setter: <= 0 -> < 0', SURV,
  "if np.any(standard_deviation <= 0.0):", "if np.any(standard_deviation < 0.0):",
  'C13.N3')
m('C13', '_set_nf_re: validation removed', SURV,
  "            if np.any(value <= 0.0):", "            if False:", 'C13.N3')
m('C13', 'select: receivers selection keyed with sources', SURV,
  "selection['rec'] = receivers", "selection['rec'] = sources", 'C13.N4')
m('C13', 'select: observed not cut', SURV,
  "survey['data'][key] = self.data[key].sel(**selection)",
  "survey['data'][key] = self.data[key].sel(**selection) if key != 'observed' else self.data[key]",
  'C13.N4')
m('C13', 'simulation writes noise attrs directly', SIMS,
  "            # New observed data: reset everything that depends on them.\n",
  "            self.survey._data.attrs['noise_floor'] = 1e-15\n", 'C13.N2')
n('C13', 'add_noise: halving via multiplication', SURV,
  "min_amplitude = min_amplitude/2.0", "min_amplitude = 0.5*min_amplitude")
n('C13', 'misfit: factor order', SIMS,
  "self._misfit = np.sum(weights*(residual.conj()*residual)).real/2",
  "self._misfit = 0.5*np.sum((residual*residual.conj())*weights).real")
n('C13', 'add_noise: in-place on a fresh local copy', SURV,
  "min_amplitude = min_amplitude/2.0",
  "min_amplitude = np.array(min_amplitude, dtype=float).copy()\n                min_amplitude /= 2.0")

# ------------------------------------------------------------------- C11
m('C11', '_mp.solve: start field handed on only in memory (control conditions)', MP,
  "    solver_input['efield'] = inp['efield']\n", "    if not fname:\n        solver_input['efield'] = inp['efield']\n    else:\n        solver_input['efield'] = None\n", 'C11.CTL')
m('C11', '_compute: field only stored into an empty slot', SIMS,
  "            self._dict_efield[src][freq] = out[i][0]\n            self._dict_efield_info[src][freq] = out[i][1]",
  "            if self._dict_efield[src][freq] is None:\n                self._dict_efield[src][freq] = out[i][0]\n            self._dict_efield_info[src][freq] = out[i][1]",
  'C11.P2.slots')
m('C11', '_compute: start field only if it lives on the very grid object', SIMS,
  "                'efield': self._dict_get('efield', source, freq),",
  "                'efield': (lambda e, g: e if e is None or e.grid is g else None)(self._dict_get('efield', source, freq), self.get_grid(source, freq)),",
  'C11.P4.purity')
m('C11', 'process_map: as_completed collection', MP,
  "            return list(ex.map(fn, *iterables))",
  "            from concurrent.futures import as_completed\n            futs = [ex.submit(fn, *a) for a in zip(*iterables)]\n            return [f.result() for f in as_completed(futs)]",
  'C11.P1')
m('C11', 'process_map: sequential branch reversed', MP,
  "        return list(map(fn, *iterables))",
  "        return list(reversed(list(map(fn, *iterables))))", 'C11.P1')
m('C11', '_compute: slot keyed by wrong index', SIMS,
  "            self._dict_efield[src][freq] = out[i][0]",
  "            self._dict_efield[src][freq] = out[-i][0]", 'C11.P2')
m('C11', '_bcompute: storing loop over another iterable', SIMS,
  "        for i, (src, freq) in enumerate(self._srcfreq):\n\n            # Store bfield and solver info.",
  "        for i, (src, freq) in enumerate(sorted(self._srcfreq, reverse=True)):\n\n            # Store bfield and solver info.",
  'C11.P2')
m('C11', '_data_or_file: name without frequency', SIMS,
  'f"{what}_{source}_{frequency}.h5")', 'f"{what}_{source}.h5")', 'C11.P3')
m('C11', 'jvec: hand-over prefix collides with efield', SIMS,
  "return self._data_or_file('gfield', source, freq, data)",
  "return self._data_or_file('efield', source, freq, data)", 'C11.P3')
m('C11', '_mp.solve: mutates shared solver_opts', MP,
  "    solver_input['return_info'] = True",
  "    inp['solver_opts']['return_info'] = True\n    solver_input['return_info'] = True",
  'C11.P4')
m('C11', '_mp.solve: module-level cache', MP,
  "    solver_input['return_info'] = True",
  "    process_map.last = inp\n    solver_input['return_info'] = True", 'C11.P4')
n('C11', 'process_map: executor renamed', MP,
  "        with ProcessPoolExecutor(max_workers=max_workers) as ex:\n            return list(ex.map(fn, *iterables))",
  "        with ProcessPoolExecutor(max_workers=max_workers) as pool:\n            return list(pool.map(fn, *iterables))")

# ------------------------------------------------------------------- C05
m('C05', '_max_level: n > 2 -> n > 1', SOLVER,
  "            while n % 2 == 0 and n > 2:", "            while n % 2 == 0 and n > 1:",
  'C05.H1')
m('C05', '_current_sc_dir: < 3 -> < 2 for x', SOLVER,
  "    xsc_dir = (grid.shape_cells[0] % 2 != 0 or grid.shape_cells[0] < 3",
  "    xsc_dir = (grid.shape_cells[0] % 2 != 0 or grid.shape_cells[0] < 2",
  'C05.H1')
m('C05', 'multigrid: recursion passes level', SOLVER,
  "multigrid(cmodel, csfield, cefield, var, level=level+1,",
  "multigrid(cmodel, csfield, cefield, var, level=level,", 'C05.H3')
m('C05', 'multigrid: next(sc_cycle) moved before the level test', SOLVER,
  "        # End loop depending if we are on the original grid or not.\n        if level > 0:  # Update cyc if on a coarse grid.",
  "        if var.sc_cycle:\n            var.sc_dir = next(var.sc_cycle)\n        if level > 0:  # Update cyc if on a coarse grid.",
  'C05.H4')
m('C05', 'multigrid: lr cycle advanced twice', SOLVER,
  "                var.lr_dir = next(var.lr_cycle)\n",
  "                var.lr_dir = next(var.lr_cycle)\n                var.lr_dir = next(var.lr_cycle)\n",
  'C05.H4')
m('C05', 'multigrid: F-cycle hands down cycmax', SOLVER,
  "                      new_cycmax=cycmax-cyc)", "                      new_cycmax=cycmax)",
  'C05.H7')
m('C05', '_solver_and_cycle: W-cycle with cycmax 1', SOLVER,
  "        if self.cycle in ['F', 'W']:", "        if self.cycle in ['F']:", 'C05.H7')
m('C05', 'multigrid: cycmax chain ignores F', SOLVER,
  "    elif new_cycmax == 0 or var.cycle != 'F':",
  "    elif new_cycmax == 0 or var.cycle == 'F':", 'C05.H7')
m('C05', '_max_level: user limit compares with >', SOLVER,
  "            if self.clevel > -1 and self.clevel < clevel[i]:",
  "            if self.clevel > -1 and self.clevel > clevel[i]:", 'C05.H1')
m('C05', 'smoothing two-cell test <= 3 (via _current_lr_dir)', SOLVER,
  "    if grid.shape_cells[0] == 2:  # Check x-direction.",
  "    if grid.shape_cells[0] <= 3:  # Check x-direction.", 'C05.H2')
m('C05', 'multigrid: it incremented only on coarse levels', SOLVER,
  "        it += 1         # Local iterator.\n        if level == 0:  # Global iterator (works also when preconditioner.)\n            var.it += 1",
  "        if level == 0:  # Global iterator (works also when preconditioner.)\n            var.it += 1\n        else:\n            it += 1",
  'C05.H5')
n('C05', '_max_level: guard operands swapped', SOLVER,
  "            while n % 2 == 0 and n > 2:", "            while n > 2 and n % 2 == 0:")

# ------------------------------------------------------------------- C17
m('C17', '_dict_serialize: nested dicts only serialised when non-trivial (control conditions)', IO,
  "            value = _dict_serialize(value)", "            if len(value) > 1:\n                value = _dict_serialize(value)", None)
m('C17', 'Simulation.to_dict plain: survey reduced to the observed data', SIMS,
  "            for key in ['synthetic', 'residual', 'weights']:\n                if key in out['survey']['data'].keys():\n                    del out['survey']['data'][key]",
  "            out['survey']['data'] = {'observed': out['survey']['data']['observed']}",
  'C17.K2.plain')
n('C17', 'Simulation.to_dict plain: derived sets deleted one by one', SIMS,
  "            for key in ['synthetic', 'residual', 'weights']:\n                if key in out['survey']['data'].keys():\n                    del out['survey']['data'][key]",
  "            for key in ['synthetic', 'residual']:\n                if key in out['survey']['data'].keys():\n                    del out['survey']['data'][key]\n            if 'weights' in out['survey']['data'].keys():\n                del out['survey']['data']['weights']")
m('C17', 'Survey.to_dict: noise_floor dropped', SURV,
  "            'noise_floor': self.data.noise_floor,\n", "", 'C17.K2')
m('C17', 'Simulation.to_dict: receiver_interpolation dropped', SIMS,
  "            'receiver_interpolation': self.receiver_interpolation,\n", "",
  'C17.K2')
m('C17', 'Field.to_dict: frequency key renamed', FIELDS,
  "            'frequency': self._frequency,", "            'freq': self._frequency,",
  'C17.K2')
m('C17', 'TensorMesh.to_dict: origin dropped', MESHES,
  "            'origin': self.origin,\n", "", 'C17.K2')
m('C17', 'Receiver._serialize: data_type dropped', ELEC,
  "_serialize = {'relative', 'data_type'} | Wire._serialize",
  "_serialize = {'relative'} | Wire._serialize", 'C17.K2')
m('C17', 'Simulation.to_dict emits a key from_dict never reads', SIMS,
  "            'receiver_interpolation': self.receiver_interpolation,\n",
  "            'receiver_interpolation': self.receiver_interpolation,\n            'workers_used': self.max_workers,\n",
  'C17.K2')
m('C17', 'io: __complex renamed on the writer side', IO,
  "            key += '__complex'", "            key += '__cplx'", 'C17.K3')
m('C17', 'io: None sentinel differs', IO,
  "            value = 'NoneType'", "            value = 'None'", 'C17.K3')
m('C17', 'io: npz separator differs', IO,
  "key+'>'+k", "key+'|'+k", 'C17.K3')
m('C17', 'io.load: h5 arm missing', IO,
  "    elif fname.endswith('.h5'):\n        data = _hdf5_load(fname)\n", "", 'C17.K3')
m('C17', 'io reader strips complex tag before array tag', IO,
  "        if '__array' in key:", "        if '__complex' in key and False:\n            pass\n        if '__array' in key and '__complex' not in key:",
  'C17.K3')
n('C17', 'Survey.to_dict key order', SURV,
  "            'noise_floor': self.data.noise_floor,\n            'relative_error': self.data.relative_error,\n",
  "            'relative_error': self.data.relative_error,\n            'noise_floor': self.data.noise_floor,\n")

# ------------------------------------------------------------------- C18
m('C18', 'cli.run forward: synthetic data written', RUN,
  "            output['data'] = sim.data.observed", "            output['data'] = sim.data.synthetic", 'C18.Q2.output')
m('C18', 'cli.run gradient: misfit of the output taken before compute', RUN,
  "            output['misfit'] = sim.misfit", "            output['misfit'] = sim._misfit", 'C18.Q2.output')
m('C18', 'parser: solver_opts only handed on with a gridding', PARSER,
  "        if solver:\n            simulation['solver_opts'] = solver",
  "        if solver and simulation.get('gridding', 'single') != 'same':\n            simulation['solver_opts'] = solver", 'C18.Q2.handover')
n('C18', 'parser: layered_opts hand-over tested by length', PARSER,
  "        if layered_opts:\n            simulation['layered_opts'] = layered_opts",
  "        if len(layered_opts) > 0:\n            simulation['layered_opts'] = layered_opts")
m('C18', 'run: cell_number no longer translated (defect F6 back)', RUN,
  "            gopts['cell_numbers'] = gopts.pop('cell_number')",
  "            pass", 'C18.Q2')
m('C18', 'parser: key renamed in a list (documented key no longer parsed)', PARSER,
  "        for key in ['tol', 'tol_gradient']:", "        for key in ['tol', 'tol_grad']:",
  'C18.Q')
m('C18', 'solver: MGParameters field renamed', SOLVER,
  "    nu_post: int = 2", "    nu_post_smooth: int = 2", 'C18.Q2')
m('C18', 'parser: config tested before the terminal value', PARSER,
  "    if term['nproc'] is not None:\n        simulation[key] = term['nproc']\n    elif cfg.has_option('simulation', key):\n        simulation[key] = cfg.getint('simulation', key)",
  "    if cfg.has_option('simulation', key):\n        simulation[key] = cfg.getint('simulation', key)\n    elif term['nproc'] is not None:\n        simulation[key] = term['nproc']",
  'C18.Q4')
m('C18', 'parser: remainder check of [solver_opts] removed', PARSER,
  "        if all_solver:\n            raise TypeError(", "        if False:\n            raise TypeError(",
  'C18.Q5')
m('C18', 'parser: getint -> getfloat for int keys', PARSER,
  "                solver[key] = cfg.getint('solver_opts', key)",
  "                solver[key] = cfg.getfloat('solver_opts', key)", 'C18.Q6')
m('C18', 'parser: data list split on semicolon', PARSER,
  "data[key] = [v.strip() for v in value.split(',')]",
  "data[key] = [v.strip() for v in value.split(';')]", 'C18.Q6')
m('C18', 'main: new terminal option not consumed by the parser', MAIN,
  "    group3 = parser.add_mutually_exclusive_group()",
  "    parser.add_argument('--tol', type=float, default=None)\n    group3 = parser.add_mutually_exclusive_group()",
  'C18.Q3')
m('C18', 'Survey.select parameter renamed', SURV,
  "    def select(self, sources=None, receivers=None, frequencies=None,\n               remove_empty=True):",
  "    def select(self, sources=None, receivers=None, frequencies=None,\n               remove_nan=True):",
  'C18.Q2')
n('C18', 'parser: int key list reordered', PARSER,
  "        for key in ['tol', 'tol_gradient']:", "        for key in ['tol_gradient', 'tol']:")

# ------------------------------------------------------------------- C20
m('C20', 'ifreq_compute: all input frequencies computed', TIME,
  "        return ((self.freq_coarse >= self.fmin) &\n                (self.freq_coarse <= self.fmax))",
  "        if self.input_freq is not None:\n            return np.ones(np.size(self.freq_coarse), dtype=bool)\n        return ((self.freq_coarse >= self.fmin) &\n                (self.freq_coarse <= self.fmax))", 'C20.F1')
n('C20', 'ifreq_compute: same mask on both arms of a setting', TIME,
  "        return ((self.freq_coarse >= self.fmin) &\n                (self.freq_coarse <= self.fmax))",
  "        if self.input_freq is not None:\n            return ((self.freq_coarse <= self.fmax) &\n                    (self.freq_coarse >= self.fmin))\n        return ((self.freq_coarse >= self.fmin) &\n                (self.freq_coarse <= self.fmax))")
m('C20', 'ifreq_compute: >= -> >', TIME,
  "        return ((self.freq_coarse >= self.fmin) &",
  "        return ((self.freq_coarse > self.fmin) &", 'C20.F1')
m('C20', 'ifreq_extrapolate: < -> <=', TIME,
  "        return self.freq_required < self.fmin",
  "        return self.freq_required <= self.fmin", 'C20.F1')
m('C20', 'interpolate: extra store into out', TIME,
  "            out[self.ifreq_interpolate] = fdata\n",
  "            out[self.ifreq_interpolate] = fdata\n            out[-1] = fdata[-1]\n",
  'C20.F3')
m('C20', 'interpolate: pass-through scaled', TIME,
  "            out[self.ifreq_interpolate] = fdata\n",
  "            out[self.ifreq_interpolate] = fdata*1.0000001\n", 'C20.F3')
m('C20', 'freq2time: hands freq_compute to the transform', TIME,
  "inp_data[:, None], np.array(off), freq=self.freq_required,",
  "inp_data[:, None], np.array(off), freq=self.freq_compute,", 'C20.F4')
m('C20', 'freq_extrapolate indexes the coarse vector', TIME,
  "        return self.freq_required[self.ifreq_extrapolate]",
  "        return self.freq_coarse[self.ifreq_extrapolate]", 'C20.F2')
n('C20', 'ifreq_extrapolate: operands swapped', TIME,
  "        return self.freq_required < self.fmin",
  "        return self.fmin > self.freq_required")

# ------------------------------------------------------------------- C14
m('C14', 'interpolate_to_grid: property_z treated like mu_r', MODELS,
  "            if prop in self._properties[:3]:\n                inp = g2g_inp",
  "            if prop in self._properties[:2]:\n                inp = g2g_inp",
  'C14.M5')
n('C14', 'interpolate_to_grid: mapped properties listed by name', MODELS,
  "            if prop in self._properties[:3]:\n                inp = g2g_inp",
  "            if prop in ['property_x', 'property_y', 'property_z']:\n                inp = g2g_inp")
m('C14', 'extract_1d: mu_r counted as a mapped property', MODELS,
  "            mapped = prop in self._properties[:3]",
  "            mapped = prop in self._properties[:4]", 'C14.M5')
m('C14', 'setter: shortcut for the stored array itself', MODELS,
  "        self._check_positive_finite(mu_r, 'mu_r')\n        self._mu_r[:]",
  "        if mu_r is self._mu_r:\n            return\n        self._check_positive_finite(mu_r, 'mu_r')\n        self._mu_r[:]",
  'C14.M3.setters')
m('C14', 'MapResistivity: derivative sign', MAPS,
  "        gradient *= -self.backward(mapped)**2",
  "        gradient *= self.backward(mapped)**2", 'C14.M2')
m('C14', 'MapLgConductivity: log(10) dropped', MAPS,
  "        gradient *= self.backward(mapped)*np.log(10)",
  "        gradient *= self.backward(mapped)", 'C14.M2')
m('C14', 'MapLgResistivity: backward without the minus', MAPS,
  "        return 10**-mapped", "        return 10**mapped", 'C14.M1')
m('C14', 'MapLgResistivity: forward of conductivity', MAPS,
  "        return np.log10(1.0/conductivity)", "        return np.log10(conductivity)",
  'C14.M1')
m('C14', 'mu_r setter without validation', MODELS,
  "        self._check_positive_finite(mu_r, 'mu_r')\n", "", 'C14.M3')
m('C14', '_init_parameter without validation', MODELS,
  "        # Check >0 and finite.\n        self._check_positive_finite(values, name)\n",
  "", 'C14.M3')
m('C14', '_check_positive_finite: > 0 -> >= 0', MODELS,
  "        if not np.all(np.real(mapped) > 0.0):", "        if not np.all(np.real(mapped) >= 0.0):",
  'C14.M3')
m('C14', 'VolumeModel: eta from the mapped property', MODELS,
  "                cond = model.map.backward(prop)", "                cond = prop",
  'C')
m('C14', 'layered: conductivity without backward', MP,
  "        cond_h = map2cond(oned.property_x[0, 0, :])",
  "        cond_h = oned.property_x[0, 0, :]", 'C14.M4')
n('C14', 'MapResistivity: chain factor rewritten', MAPS,
  "        gradient *= -self.backward(mapped)**2",
  "        gradient *= -1.0/(mapped*mapped)")

# ------------------------------------------------------------------- C07
m('C07', 'get_receiver: components below 0.1 % skipped', FIELDS,
  "        if np.any(abs(factors[i]) > 1e-10):", "        if np.any(abs(factors[i]) > 1e-3):", 'C07.AS.source')
m('C07', 'misfit from the cached finite-data mask', SIMS,
  "            weights = self.data['weights']\n            misfit = np.sum(weights*(residual.conj()*residual)).real/2\n            self._misfit = float(misfit.data)",
  "            weights = self.survey.finite_data('weights')\n            residual = self.survey.finite_data('residual')\n            misfit = np.sum(weights*(residual.conj()*residual)).real/2\n            self._misfit = float(misfit)", 'C07.AS.misfit')
m('C07', '_get_rfield: receivers after a gap are left out', SIMS,
  "            if np.isnan(residual[i]):\n                continue", "            if np.isnan(residual[i]):\n                break", 'C07.AS.nan')
m('C07', 'gradient: property_y <-> property_z at a chain site', SIMS,
  "                        gradient[1, ...], self.model.property_y)",
  "                        gradient[1, ...], self.model.property_z)", 'C07.CH')
m('C07', 'gradient: fold of z into x removed', SIMS,
  "                gradient[0, ...] += gradient[2, ...]", "                pass",
  'C07.TA')
m('C07', 'gradient: HTI treated like VTI', SIMS,
  "            if self.model.case in ['HTI', 'triaxial']:\n                self.model.map.derivative_chain(\n                        gradient[1, ...], self.model.property_y)",
  "            if self.model.case in ['VTI', 'triaxial']:\n                self.model.map.derivative_chain(\n                        gradient[1, ...], self.model.property_y)",
  'C07')
m('C07', 'scatter: /4 -> /2 in one store', MAPS,
  "                    ox[ix, iyp, izm] += volumes[ix, iyp, izm]*ex[ix, iy, iz]/4",
  "                    ox[ix, iyp, izm] += volumes[ix, iyp, izm]*ex[ix, iy, iz]/2",
  'C07.G1')
m('C07', 'scatter: volume of the neighbouring cell', MAPS,
  "                    ox[ix, iyp, izm] += volumes[ix, iyp, izm]*ex[ix, iy, iz]/4",
  "                    ox[ix, iyp, izm] += volumes[ix, iym, izm]*ex[ix, iy, iz]/4",
  'C07.G1')
m('C07', 'adjoint source classes swapped', ELEC,
  "    _adjoint_source = TxElectricPoint", "    _adjoint_source = TxMagneticPoint",
  'C07.AS')
m('C07', '_get_rfield: NaN guard removed', SIMS,
  "            if np.isnan(residual[i]):\n                continue\n", "", 'C07.AS')
m('C07', '_get_rfield: weight not applied', SIMS,
  "strength = np.conj(residual * weight / -rfield.smu0)",
  "strength = np.conj(residual / -rfield.smu0)", 'C07.AS')
m('C07', 'gradient integrand without smu0', SIMS,
  "bfield.field*efield.smu0*efield.field", "bfield.field*efield.field", 'C07.G1')
m('C07', 'amat_x: eta enters with 0.5 (operator/gradient mismatch)', CORE,
  "rx[ix, iy, iz] -= 0.5*rrx - 0.25*stx*ex[ix, iy, iz]",
  "rx[ix, iy, iz] -= 0.5*rrx - 0.5*stx*ex[ix, iy, iz]", 'C07.G1')

# ------------------------------------------------------------------- C08
VARIANTS.append(V('C08', 'jvec: chain rule of the z part inside the task builder', [
  (SIMS, "            n = 1 if self.model.case == 'VTI' else 2\n            self.model.map.derivative_chain(\n                    vector[n, ...], self.model.property_z)\n\n        # Interpolation options.",
   "            pass\n\n        # Interpolation options."),
  (SIMS, "            efield = self._dict_get('efield', source, freq)\n\n            # Interpolate to computational grid.",
   "            efield = self._dict_get('efield', source, freq)\n            if self.model.case in ['VTI', 'triaxial']:\n                self.model.map.derivative_chain(\n                    vector[-1, ...], self.model.property_z)\n\n            # Interpolate to computational grid.")],
  'violation', 'C08.V1'))
n('C08', 'jvec: z part addressed as the last entry through an alias', SIMS,
  "            n = 1 if self.model.case == 'VTI' else 2\n            self.model.map.derivative_chain(\n                    vector[n, ...], self.model.property_z)",
  "            chain = self.model.map.derivative_chain\n            chain(vector[-1, ...], self.model.property_z)")
m('C08', '_get_rfield: empty field if any residual is NaN', SIMS,
  "        # Residual source strength: Weighted residual, normalized by -smu0.\n        strength = np.conj(residual",
  "        if np.isnan(residual).any():\n            return rfield\n        strength = np.conj(residual",
  'C08.V4')
n('C08', '_get_rfield: shortcut if all residuals are NaN', SIMS,
  "        # Residual source strength: Weighted residual, normalized by -smu0.\n        strength = np.conj(residual",
  "        if np.isnan(residual).all():\n            return rfield\n        strength = np.conj(residual")
m('C08', 'jvec: z part of a VTI vector taken at index 2', SIMS,
  "            n = 1 if self.model.case == 'VTI' else 2", "            n = 2", 'C08.V1')
m('C08', 'jvec: HTI vector [c0,c1,c0] -> [c0,c1,c1]', SIMS,
  "                    cvector = np.r_[cvector[0], cvector[1], cvector[0]]",
  "                    cvector = np.r_[cvector[0], cvector[1], cvector[1]]", 'C08.V2')
m('C08', 'jvec: chain rule applied to the caller vector', SIMS,
  "            vector = vector.copy()", "            vector = vector", 'C08.V3')
m('C08', 'jvec: forward tolerance for the sensitivity solve', SIMS,
  "            data['solver_opts']['tol'] = self.tol_gradient\n            return self._data_or_file('gfield', source, freq, data)",
  "            data['solver_opts']['tol'] = self.tol_forward\n            return self._data_or_file('gfield', source, freq, data)",
  'C08.V3')
m('C08', 'jtvec: multiplies by weights instead of dividing', SIMS,
  "            self.data.residual[...] = vector/self.data.weights.data",
  "            self.data.residual[...] = vector*self.data.weights.data", 'C08.V4')

# ------------------------------------------------------------------- C09
m('C09', '_point_vector: cell index clamped to 1', FIELDS,
  "        ix = max(0, np.where(coo[0] < np.r_[xx, np.inf])[0][0]-1)", "        ix = max(1, np.where(coo[0] < np.r_[xx, np.inf])[0][0]-1)", 'C09.PV.linear')
m('C09', 'Simulation.from_dict: receiver_interpolation not handed on', SIMS,
  "        cls_inp['receiver_interpolation'] = inp.pop(\n                'receiver_interpolation', 'cubic')",
  "        inp.pop('receiver_interpolation', 'cubic')", 'C09.RC.options')
m('C09', '_point_vector: upper x index weighted with ex', FIELDS,
  "        s[ix1, iy, iz] = rx*ey*ez", "        s[ix1, iy, iz] = ex*ey*ez", 'C09.PV')
m('C09', 'get_receiver: mask uses nodes_y[0]', FIELDS,
  "(xi[:, 1] < grid.nodes_y[1]) | (xi[:, 1] > grid.nodes_y[-2]) |",
  "(xi[:, 1] < grid.nodes_y[0]) | (xi[:, 1] > grid.nodes_y[-2]) |", 'C09.RC')
m('C09', 'get_receiver: column index swapped in the mask', FIELDS,
  "(xi[:, 1] < grid.nodes_y[1]) | (xi[:, 1] > grid.nodes_y[-2]) |",
  "(xi[:, 2] < grid.nodes_y[1]) | (xi[:, 1] > grid.nodes_y[-2]) |", 'C09.RC')
m('C09', 'rotation: sin <-> cos in the y factor', ELEC,
  "                     sin(azimuth)*cos(elevation),",
  "                     cos(azimuth)*sin(elevation),", 'C09.RO')
m('C09', '_point_vector: fy scaled by the z factor', FIELDS,
  "    vfield.fy *= srcdir[1]", "    vfield.fy *= srcdir[2]", 'C09.PV')
m('C09', '_edge_curl_factor: dual width without the low cell', FIELDS,
  "                dx = hx[ixm] + hx[ix]", "                dx = hx[ix] + hx[ix]", 'C09.EC')
m('C09', '_edge_curl_factor: low-face guard removed', FIELDS,
  "                if ix != 0:\n", "                if True:\n", 'C09.EC')
m('C09', 'get_receiver: components overwrite instead of accumulate', FIELDS,
  "            resp += factors[i]*maps.interpolate(grid, ff, xi, **opts)",
  "            resp = factors[i]*maps.interpolate(grid, ff, xi, **opts)", 'C09.RC')
n('C09', 'get_receiver: NaN mask applied before the accumulation', FIELDS,
  "    resp = np.zeros(xi.shape[0], dtype=field.field.dtype)\n",
  "    resp = np.zeros(xi.shape[0], dtype=field.field.dtype)\n    resp[(xi[:, 0] < grid.nodes_x[1])] = np.nan\n")
n('C09', '_point_vector: factor order', FIELDS,
  "        s[ix1, iy, iz] = rx*ey*ez", "        s[ix1, iy, iz] = ez*rx*ey")

# ------------------------------------------------------------------- C10
m('C10', 'Dipole: identical-electrode test with a relative tolerance (defect F38)', ELEC,
  "            if np.allclose(points[0, :], points[1, :], rtol=0, atol=1e-15):",
  "            if np.allclose(points[0, :], points[1, :]):", 'C10.GE.formats')
n('C10', 'Dipole: identical-electrode test exact', ELEC,
  "            if np.allclose(points[0, :], points[1, :], rtol=0, atol=1e-15):",
  "            if np.array_equal(points[0, :], points[1, :]):")
m('C10', '_dipole_vector: exact in-cell test on rounded nodes / unrounded widths (defect F37)', FIELDS,
  "                inside = np.round(min(rx, ex, ry, ey, rz, ez), decimals) >= 0\n                if inside and np.max(abs(ar-al)) > 0:",
  "                if min(rx, ex, ry, ey, rz, ez) >= 0 and np.max(abs(ar-al)) > 0:", 'C10.DV.linear')
n('C10', '_dipole_vector: in-cell test with a tolerance', FIELDS,
  "                inside = np.round(min(rx, ex, ry, ey, rz, ez), decimals) >= 0\n                if inside and np.max(abs(ar-al)) > 0:",
  "                if min(rx, ex, ry, ey, rz, ez) >= -10.0**(-decimals) and np.max(abs(ar-al)) > 0:")
m('C10', 'get_source_field: strength zero means unit source', FIELDS,
  "    sfield.field *= source.strength", "    if source.strength != 0:\n        sfield.field *= source.strength", 'C10.SF.scaling')
m('C10', 'Dipole: magnetic loop centred at e1 + e2', ELEC,
  "                center = tuple(np.sum(points, 0)/2)", "                center = tuple(np.sum(points, 0))", 'C10.GE.formats')
n('C10', 'Dipole: loop centre as the mean of the electrodes', ELEC,
  "                center = tuple(np.sum(points, 0)/2)", "                center = tuple(points.mean(axis=0))")
n('C10', 'Dipole: loop centre from the two rows', ELEC,
  "                center = tuple(np.sum(points, 0)/2)", "                center = tuple(0.5*(points[0, :] + points[1, :]))")
m('C10', '_dipole_vector: upper y index weighted with ey', FIELDS,
  "                    vfield.fx[ix, iy+1, iz] += ry*ez*x_len",
  "                    vfield.fx[ix, iy+1, iz] += ey*ez*x_len", 'C10.DV')
m('C10', 'get_source_field: -s mu0 unguarded', FIELDS,
  "    if frequency is not None:  # Not if the vector is wanted.\n        sfield.field *= -sfield.smu0",
  "    if True:  # Not if the vector is wanted.\n        sfield.field *= -sfield.smu0",
  'C10.SF')
m('C10', 'get_source_field: sign of s mu0', FIELDS,
  "        sfield.field *= -sfield.smu0", "        sfield.field *= sfield.smu0", 'C10.SF')
m('C10', '_dipole_vector: fx scaled by the y extent', FIELDS,
  "    vfield.fx *= dxdydz[0]", "    vfield.fx *= dxdydz[1]", 'C10.DV')
m('C10', 'point_to_square_loop: half diagonal sqrt(area)/2', ELEC,
  "    half_diag = np.sqrt(area/2)", "    half_diag = np.sqrt(area)/2", 'C10.GE')
m('C10', 'point_to_square_loop: left-handed loop', ELEC,
  "    xyz_hor = rotation(source[3]+90.0, 0.0)*half_diag",
  "    xyz_hor = rotation(source[3]-90.0, 0.0)*half_diag", 'C10.GE')
m('C10', 'point_to_dipole: electrodes swapped', ELEC,
  "    return point[:3] + np.array([-xyz, xyz])", "    return point[:3] + np.array([xyz, -xyz])",
  'C10.GE')
n('C10', '_dipole_vector: factor order', FIELDS,
  "                    vfield.fx[ix, iy+1, iz] += ry*ez*x_len",
  "                    vfield.fx[ix, iy+1, iz] += x_len*ez*ry")

# ------------------------------------------------------------------- C15
m('C15', 'gradient: transposed average skipped for equal shapes', SIMS,
  "                    if self.model.grid != gfield.grid:\n                        # Wrapped",
  "                    if grad.shape != gradient.shape:\n                        # Wrapped",
  'C15.VA5')
n('C15', 'gradient: grid comparison written the other way round', SIMS,
  "                    if self.model.grid != gfield.grid:\n                        # Wrapped",
  "                    if not gfield.grid == self.model.grid:\n                        # Wrapped")
m('C15', 'interpolate_to_grid: log flag inverted', MODELS,
  "'log': not self.map.name.startswith('L')", "'log': self.map.name.startswith('L')",
  'C15.VA1')
m('C15', 'maps.interpolate: 10** unguarded', MAPS,
  "    if log:\n        values_x = 10**values_x", "    if True:\n        values_x = 10**values_x",
  'C15.VA2')
m('C15', 'interp_volume_average: normalisation removed', MAPS,
  "    new_values /= new_vol", "    pass", 'C15.VA3')
m('C15', 'interp_volume_average: reads the output index', MAPS,
  "w_zy*w_x*values[ixi, iyi, izi]", "w_zy*w_x*values[ixo, iyi, izi]", 'C15.VA3')
m('C15', '_volume_average_weights: weight from the cell centre', MAPS,
  "            wx[ii] = xs[i+1]-xs[i]", "            wx[ii] = center-xs[i]", 'C15.VA4')

# ------------------------------------------------------------------- C19
m('C19', '_empymod_fwd: isotropic if the conductivities are close', MP,
  "    aniso = None if cond_v is None else np.sqrt(cond_h/cond_v)",
  "    aniso = None if cond_v is None or np.allclose(cond_h, cond_v) else np.sqrt(cond_h/cond_v)", 'C19.L3')
n('C19', '_empymod_fwd: anisotropy through if/else', MP,
  "    aniso = None if cond_v is None else np.sqrt(cond_h/cond_v)",
  "    if cond_v is not None:\n        aniso = np.sqrt(cond_h/cond_v)\n    else:\n        aniso = None")
m('C19', 'extract_1d: normalisation removed', MODELS,
  "            pp /= pp.sum()\n", "", 'C19.L1')
m('C19', 'layered: finite mask not applied to the weights', MP,
  "            wgt = weights.loc[rkey, :].data[fi]", "            wgt = weights.loc[rkey, :].data",
  'C19.L2')
m('C19', '_empymod_fwd: aniso inverted', MP,
  "np.sqrt(cond_h/cond_v)", "np.sqrt(cond_v/cond_h)", 'C19.L3')
m('C19', 'layered: backward skipped for the horizontal conductivity', MP,
  "        cond_h = map2cond(oned.property_x[0, 0, :])",
  "        cond_h = oned.property_x[0, 0, :]", 'C19.L2')
m('C19', '_get_points: source method uses the receiver', MP,
  "        p1 = p0\n        method = 'midpoint'", "        p0 = p1\n        method = 'midpoint'",
  'C19.L4')

# ------------------------------------------- rules added after the seeded round
m('C07', 'gradient: scatter target allocated once, never zeroed', SIMS,
  "                    grad = np.zeros((3, *shape), order='F')\n",
  "                    if 'grad' not in locals() or grad.shape[1:] != shape:\n                        grad = np.zeros((3, *shape), order='F')\n",
  'C07.G1')
m('C09', '_point_vector: wrong size passed for the z axis', FIELDS,
  "get_index_and_strength(iz, nz, coo[2], zz)", "get_index_and_strength(iz, ny, coo[2], zz)",
  'C09.PV')
m('C10', 'Dipole: azimuth/elevation unpacked in swapped order', ELEC,
  "                azimuth, elevation, length = dipole_to_point(points)",
  "                elevation, azimuth, length = dipole_to_point(points)", 'C10.GE')
m('C12', 'compute: _computed set by single-pair computations', SIMS,
  "        elif source is None and frequency is None:\n            self._computed = True",
  "        else:\n            self._computed = True", 'C12.OW6')
m('C13', 'compute(observed): cached weights kept', SIMS,
  "            for key in ['residual', 'weights']:\n                if key in self.data.keys():\n                    del self.data[key]\n            for name in ['_dict_bfield', '_dict_bfield_info']:\n                if hasattr(self, name):\n                    delattr(self, name)\n\n        elif",
  "            for key in ['residual']:\n                if key in self.data.keys():\n                    del self.data[key]\n            for name in ['_dict_bfield', '_dict_bfield_info']:\n                if hasattr(self, name):\n                    delattr(self, name)\n\n        elif",
  'C13.N5')
m('C14', 'MapLnConductivity.backward clipped', MAPS,
  "        return np.exp(mapped)", "        return np.exp(np.clip(mapped, -12, 12))", 'C14.M')
m('C17', 'hdf5: groups without track_order', IO,
  "fname.create_group(key, track_order=True)", "fname.create_group(key)", 'C17.K3')
m('C17', 'to_dict: one-shot _what_to_file never consumed', SIMS,
  "        if hasattr(self, '_what_to_file'):\n            what = self._what_to_file\n            delattr(self, '_what_to_file')",
  "        what = getattr(self, '_what_to_file', what)", 'C17.K4')
m('C18', 'parser: add_noise read as a string', PARSER,
  "            noise_kwargs[key] = cfg.getboolean('noise_opts', key)",
  "            noise_kwargs[key] = cfg.get('noise_opts', key)", 'C18.Q6')
m('C18', 'main: --layered default False', MAIN,
  '        "-l", "--layered",\n        action="store_true",\n        default=None,',
  '        "-l", "--layered",\n        action="store_true",\n        default=False,', 'C18.Q4')
n('C07', 'gradient: scatter target renamed', SIMS,
  "                    grad = np.zeros((3, *shape), order='F')\n",
  "                    grad = np.zeros((3, *shape), order='F')\n                    del_me = 0\n")

# --------------------------------------------------- rules added later (round 2 prep)
m('C02', 'BaseMesh: x-edges located on cells in y', MESHES,
  "        self.shape_edges_x = (shape_cells[0], shape_nodes[1], shape_nodes[2])",
  "        self.shape_edges_x = (shape_cells[0], shape_cells[1], shape_nodes[2])", 'C02.O5')
m('C04', 'BaseMesh: cell centres shifted', MESHES,
  "        self.cell_centers_y = (self.nodes_y[1:] + self.nodes_y[:-1])/2",
  "        self.cell_centers_y = (self.nodes_y[1:] + self.nodes_y[:-1])/2 + 0.0*self.h[1] + self.h[1]*0.01",
  'C04.W')
m('C04', 'restriction: coarse grid with a shifted origin', SOLVER,
  "    cgrid = meshes.BaseMesh(ch, model.grid.origin)",
  "    cgrid = meshes.BaseMesh(ch, model.grid.origin + 0.5*ch[0][0])", 'C04.M')
m('C01', 'solve: reference norm from the starting field', SOLVER,
  "    var.l2_refe = sp.linalg.norm(sfield.field, check_finite=False)",
  "    var.l2_refe = sp.linalg.norm(sfield.field, check_finite=False) + 1.0", 'C01.R2')

# ------------------------------------------------ rules added after seeded round 2
m('C18', 'parser: config path only consumed without --path (defect F7)', PARSER,
  "    config_path = all_files.pop('path', '.')\n    path = term.pop('path')\n    if path is None:\n        path = config_path\n",
  "    path = term.pop('path')\n    if path is None:\n        path = all_files.pop('path', '.')\n",
  'C18.Q4.consumed')
m('C18', 'parser: config file name wins over the terminal', PARSER,
  "        if fname is None:\n            fname = config_or_default\n",
  "        if config_or_default:\n            fname = config_or_default\n", 'C18.Q4')
m('C05', 'multigrid: cycmax not refreshed when the direction advances (defect F8)',
  SOLVER,
  "                cycmax = 1 if level == var.clevel[var.sc_dir] else var.cycmax\n", "",
  'C05.H8')
n('C05', 'multigrid: cycmax refreshed through an if/else', SOLVER,
  "                cycmax = 1 if level == var.clevel[var.sc_dir] else var.cycmax\n",
  "                if level == var.clevel[var.sc_dir]:\n                    cycmax = 1\n                else:\n                    cycmax = var.cycmax\n")
m('C20', 'Fourier.signal setter without re-check (defect F9)', TIME,
  "        self._signal = signal\n        self._check_time()\n", "        self._signal = signal\n",
  'C20.F5')
m('C20', 'Fourier.fourier_arguments without re-check', TIME,
  "        self._ftarg = ftarg\n        self._check_time()\n\n    def interpolate",
  "        self._ftarg = ftarg\n\n    def interpolate", 'C20.F5')
m('C13', 'noise_floor getter keyed on the stored array', SURV,
  "        if isinstance(self.data.attrs['noise_floor'], str):",
  "        if '_noise_floor' in self.data.keys():", 'C13.N3.flag')
n('C13', 'noise_floor getter reads the attrs of _data', SURV,
  "        if isinstance(self.data.attrs['noise_floor'], str):",
  "        if isinstance(self._data.attrs['noise_floor'], str):")
m('C19', 'extract_1d: averaging branch on the requested method', MODELS,
  "            if not midpoint:\n                if not self.map.name.startswith('L'):",
  "            if method != 'midpoint':\n                if not self.map.name.startswith('L'):",
  'C19.L1.flag')
m('C19', '_compute_1d: tasks from sorted sources', SIMS,
  "            list(map(collect_empymod_inputs, self.survey.sources.keys())),",
  "            list(map(collect_empymod_inputs, sorted(self.survey.sources.keys()))),",
  'C19.L2.order')
m('C12', 'jvec: jvec variable bound to the observed data', SIMS,
  "            self.data['jvec'] = self.data.observed.copy(\n                    data=np.full(self.survey.shape, np.nan+1j*np.nan))",
  "            self.data['jvec'] = self.data.observed", 'C12.OW7')
m('C12', "to_dict: computed flag also for 'plain'", SIMS,
  "        if what in ['computed', 'results', 'all']:\n            out['gradient'] = self._gradient\n            out['misfit'] = self._misfit\n            out['computed'] = self._computed",
  "        if what in ['computed', 'results', 'all']:\n            out['gradient'] = self._gradient\n            out['misfit'] = self._misfit\n        out['computed'] = self._computed",
  'C12.OW6.serial')
m('C10', '_point_vector: cell index without the clamp', FIELDS,
  "        ix = max(0, np.where(coo[0] < np.r_[xx, np.inf])[0][0]-1)",
  "        ix = np.where(coo[0] < np.r_[xx, np.inf])[0][0]-1", 'C10.PV.bounds')
n('C10', '_point_vector: clamp through np.clip', FIELDS,
  "        ix = max(0, np.where(coo[0] < np.r_[xx, np.inf])[0][0]-1)",
  "        ix = np.clip(np.where(coo[0] < np.r_[xx, np.inf])[0][0]-1, 0, None)")
m('C10', '_dipole_vector: electrodes sorted before segmentation', FIELDS,
  "        points = pts\n", "        pts = pts[np.argsort(pts[:, 0]), :]\n        points = pts\n",
  'C10.DV.segments')
m('C11', '_bcompute: gradient tolerance set after the tasks were built', SIMS,
  "            data['solver_opts']['tol'] = self.tol_gradient\n            return self._data_or_file('bfield', source, freq, data)\n\n        # Compute fields in parallel.\n        out = _mp.process_map(\n            _mp.solve,\n            list(map(collect_bfield_inputs, self._srcfreq)),",
  "            return self._data_or_file('bfield', source, freq, data)\n\n        inputs = list(map(collect_bfield_inputs, self._srcfreq))\n        self.solver_opts['tol'] = self.tol_gradient\n        out = _mp.process_map(\n            _mp.solve,\n            inputs,",
  'C11.P2')
n('C11', '_bcompute: task list bound to a local first', SIMS,
  "        out = _mp.process_map(\n            _mp.solve,\n            list(map(collect_bfield_inputs, self._srcfreq)),",
  "        inputs = list(map(collect_bfield_inputs, self._srcfreq))\n        out = _mp.process_map(\n            _mp.solve,\n            inputs,")
m('C15', 'interpolate_to_grid: log forced after the caller options', MODELS,
  "            'log': not self.map.name.startswith('L'),\n            **({} if interpolate_opts is None else interpolate_opts),\n",
  "            **({} if interpolate_opts is None else interpolate_opts),\n            'log': not self.map.name.startswith('L'),\n",
  'C15.VA1.options')
m('C09', 'get_receiver: components below 1e-3 skipped', FIELDS,
  "        if np.any(abs(factors[i]) > 1e-10):", "        if np.any(abs(factors[i]) > 1e-3):",
  'C09.RC.factors')
n('C09', 'get_receiver: skip threshold 1e-12', FIELDS,
  "        if np.any(abs(factors[i]) > 1e-10):", "        if np.any(abs(factors[i]) > 1e-12):")
m('C14', 'MapLgResistivity: conductivity remembered on the map', MAPS,
  "        return 10**-mapped\n\n    def derivative_chain(self, gradient, mapped):\n        gradient *= -self.backward(mapped)*np.log(10)",
  "        self._c = 10**-mapped\n        return self._c\n\n    def derivative_chain(self, gradient, mapped):\n        gradient *= -self._c*np.log(10)",
  'C14.M1.pure')
m('C02', 'VolumeModel: displacement term accumulated over directions', MODELS,
  "                    smu = sfield.sval*sp.constants.epsilon_0*model.epsilon_r\n                    eta = -sfield.smu0*vol*(cond + smu)",
  "                    smu += cond\n                    eta = -sfield.smu0*vol*smu", 'C02.O4')
m('C17', 'JSON reader: one-element complex arrays become scalars', IO,
  "            key = key.replace('__complex', '')\n",
  "            key = key.replace('__complex', '')\n            if value.size == 1:\n                value = value.item()\n",
  'C17.K3')
m('C08', 'gradient: volumes reshaped in C order', SIMS,
  "volumes=cell_volumes.reshape(shape, order='F'),", "volumes=cell_volumes.reshape(shape),",
  'C08.V4.scatter')

# ------------------------------------------------ defects F10-F12 back
m('C20', 'interpolate: pass-through decided by sizes (defect F10)', TIME,
  "        if not np.array_equal(self.freq_coarse, self.freq_required):",
  "        if self.freq_coarse.size != self.freq_required.size:", 'C20.F3.passthrough')
n('C20', 'interpolate: pass-through written with the positive test first', TIME,
  "        if not np.array_equal(self.freq_coarse, self.freq_required):",
  "        if not np.all(self.freq_coarse == self.freq_required):")
m('C19', 'layered: raw receiver coordinates (defect F11)', MP,
  "            'rec': rec.coordinates_abs(src),", "            'rec': rec.coordinates,",
  'C19.L3.absolute')
m('C19', '_get_points: relative receivers not resolved (defect F11)', MP,
  "    if getattr(rec, 'relative', False):\n        p1 = rec.center_abs(src)[:2]\n", "",
  'C19.L4.points')
m('C17', 'misfit cached as DataArray and returned via .data (defect F12)', SIMS,
  "            self._misfit = float(misfit.data)\n\n        return self._misfit\n",
  "            self._misfit = misfit\n\n        return self._misfit.data\n", 'C17.K2.plain')
m('C01', 'krylov: success on the SciPy return code alone (defects F13/F30)', SOLVER,
  "    elif var.l2 < var.tol*var.l2_refe:\n        var.exit_message = \"CONVERGED\"\n    else:\n",
  "    elif i == 0:\n        var.exit_message = \"CONVERGED\"\n    else:\n", 'C01.R1')
m('C19', 'extract_1d: merge decided against a sentinel value (defect F14)', MODELS,
  "                diff[1:] += abs(np.diff(v))\n            diff[0] = 1.0  # The first layer is always kept.\n",
  "                diff += abs(np.diff(np.r_[-1, v]))\n", 'C19.L1.merge')
m('C19', 'layered: mrec from the source type', MP,
  "            'mrec': rec.xtype != 'electric',", "            'mrec': src.xtype != 'electric',",
  'C19.L3.absolute')

# ------------------------------------------------ rules added after seeded round 3
m('C02', 'VolumeModel: conductivities volume-weighted in place', MODELS,
  "                cond = model.map.backward(prop)\n",
  "                cond = model.map.backward(prop)\n                cond *= 1.0\n", 'C02.O4.alias')
m('C02', 'solve: VolumeModel remembered on the model', SOLVER,
  "    vmodel = models.VolumeModel(model, sfield)\n",
  "    vmodel = getattr(model, '_vm', None)\n    if vmodel is None:\n        vmodel = models.VolumeModel(model, sfield)\n        model._vm = vmodel\n",
  'C02.O5')
m('C01', 'VolumeModel: displacement term dropped for epsilon_r == 1', MODELS,
  "                if model.epsilon_r is None:\n                    eta = -sfield.smu0*vol*cond",
  "                if model.epsilon_r is None or np.all(model.epsilon_r == 1):\n                    eta = -sfield.smu0*vol*cond",
  'C01.OP')
m('C03', 'smoothing: early exit for a zero source', SOLVER,
  "    # Collect Gauss-Seidel input (same for all routines)\n",
  "    if not np.any(sfield.field):\n        return\n\n    # Collect Gauss-Seidel input (same for all routines)\n",
  'C03.S6')
m('C07', '_get_responses: slices instead of receiver-type indices', SIMS,
  "            resp[mrec] = hfield.get_receiver(", "            resp[erec.size:] = hfield.get_receiver(",
  'C07.AS')
n('C07', '_get_rfield: survey source bound to a local before the loop', SIMS,
  "        # Loop over receivers, input as source.\n        for i, rec in enumerate(self.survey.receivers.values()):",
  "        the_source = self.survey.sources[source]\n        for i, rec in enumerate(self.survey.receivers.values()):")
m('C08', 'jtvec: residual saved as a view', SIMS,
  "        residual = self.data.residual.data.copy()", "        residual = self.data.residual.data",
  'C08.V4')
m('C09', '_point_vector: coordinates rounded', FIELDS,
  "    # Ensure source is within nodes.\n    outside = (\n        coordinates[0] < grid.nodes_x[0] or",
  "    coordinates = np.round(np.asarray(coordinates, dtype=float), 6)\n    outside = (\n        coordinates[0] < grid.nodes_x[0] or",
  'C09.PV')
m('C10', 'get_source_field: length only for electric dipoles', FIELDS,
  "        if source.size == 5:\n            inp['length'] = kwargs.get('length', 1.0)\n",
  "        if source.size == 5 and kwargs.get('electric', True):\n            inp['length'] = kwargs.get('length', 1.0)\n",
  'C10.SF')
m('C11', 'get_source_field: vector remembered on the source', FIELDS,
  "    # Initiate field with the total vector field.\n",
  "    source._vfield = vfield\n    # Initiate field with the total vector field.\n", 'C11.P4')
m('C12', 'to_dict: hand-over attribute read but not deleted', SIMS,
  "            what = self._what_to_file\n            delattr(self, '_what_to_file')",
  "            what = self._what_to_file", 'C12.OW5.oneshot')
m('C13', '_set_nf_re: assignment resets the standard deviation', SURV,
  "            # If one value it is stored as attribute.\n",
  "            self.standard_deviation = None\n            # If one value it is stored as attribute.\n",
  'C13.N2.writers')
m('C14', '_set_layered_opts: minimum taken in mapped space', SIMS,
  "                    zneg = self.model.property_x[:, :, 0]\n                    cond = np.min(self.model.map.backward(zneg))",
  "                    zneg = np.min(self.model.property_x[:, :, 0])\n                    cond = self.model.map.backward(zneg)",
  'C14.M4')
m('C17', 'to_dict: scratch tolerance wins over tol_forward', SIMS,
  "            'solver_opts': self.solver_opts,", "            'solver_opts': {'tol': self.tol_forward, **self.solver_opts},",
  'C17.K2.plain')
m('C17', 'Survey: data sets cast to complex', SURV,
  "            {k: xarray.DataArray(v, dims=dims) for k, v in data.items()},",
  "            {k: xarray.DataArray(np.asarray(v, dtype=complex), dims=dims) for k, v in data.items()},",
  'C17.K2.plain')
m('C18', 'parser: linear interpolation default also for misfit runs', PARSER,
  "    elif term['function'] == 'gradient':\n        # Default is 'cubic'",
  "    elif term['function'] != 'forward':\n        # Default is 'cubic'", 'C18.Q6')
m('C18', 'run --clean keeps the results', RUN,
  "            sim.clean('computed')", "            sim.clean('keepresults')", 'C18.Q2')
m('C19', 'extract_1d: merged thickness from the first cell', MODELS,
  "            hz = np.diff(np.r_[self.grid.nodes_z[ind], self.grid.nodes_z[-1]])",
  "            hz = np.diff(np.r_[ind, self.shape[2]])*self.grid.h[2][ind]", 'C19.L1.merge')
m('C14', 'interpolate_to_grid: mapping log flag for all properties (defect F15)', MODELS,
  "            if prop in self._properties[:3]:\n                inp = g2g_inp\n            else:\n                inp = {**g2g_inp, 'log': log}\n",
  "            inp = g2g_inp\n", 'C14.M5.unmapped')
m('C19', 'extract_1d: mapping decides the averaging of mu_r (defect F15)', MODELS,
  "            log = not (mapped and self.map.name.startswith('L'))",
  "            log = not self.map.name.startswith('L')", 'C19.L1.average')
m('C13', 'select: selected data not copied (defect F16)', SURV,
  "            survey['data'][key] = self.data[key].sel(**selection).copy()",
  "            survey['data'][key] = self.data[key].sel(**selection)", 'C13.N4.copy')
m('C13', 'misfit: stored weights trusted (defect F17)', SIMS,
  "            # Store weights\n            self.data['weights'] = std**-2\n",
  "            # Store weights\n            if 'weights' not in self.data.keys():\n                self.data['weights'] = std**-2\n",
  'C13.N5.weights')
m('C18', "parser: file_dir 'None' kept as a string (defect F18)", PARSER,
  "        if simulation[key] == 'None':\n            simulation[key] = None\n", "", 'C18.Q6.examples')
m('C18', 'run: optional gridding_opts indexed (defect F19)', RUN,
  "cfg['simulation_options'].get('gridding_opts', {})", "cfg['simulation_options']['gridding_opts']",
  'C18.Q2.routing')
m('C18', 'parser: unknown sections accepted (defect F20)', PARSER,
  "    if unknown:\n        raise TypeError(f\"Unexpected section in config file: {unknown}.\")\n", "",
  'C18.Q5.unknown')
m('C08', 'jvec: source field with the absolute frequency (defect F21)', SIMS,
  "                frequency=efield._frequency", "                frequency=efield.frequency",
  'C08.V3.source')
m('C17', 'from_dict: gridding_opts handed over as stored (defect F22)', SIMS,
  "        gopts = {'gridding_opts': inp.pop('gridding_opts', {})}\n        io._dict_deserialize(gopts)\n        cls_inp['gridding_opts'] = gopts['gridding_opts']\n",
  "        cls_inp['gridding_opts'] = inp.pop('gridding_opts', {})\n", 'C17.K2.accepted')
m('C14', 'Model._init_parameter: input array kept by reference (defect F23)', MODELS,
  "        values = np.array(values, dtype=np.float64, order='F')",
  "        values = np.asfortranarray(values, dtype=np.float64)", 'C14.M3.own')
n('C14', 'Model._init_parameter: copy through .copy()', MODELS,
  "        values = np.array(values, dtype=np.float64, order='F')",
  "        values = np.asfortranarray(values, dtype=np.float64).copy(order='F')")
m('C12', 'layered setter keeps the computed state (defect F24)', SIMS,
  "        if layered != self._layered:\n            # Computed data belong to the other mode; remove them.\n            self.clean('computed')\n",
  "", 'C12.OW3.mode')
m('C20', '_check_time: checked times discarded (defect F25)', TIME,
  "        time, freq, ft, ftarg = empymod.utils.check_time(\n                np.array(self._time, dtype=float), self.signal, self.ft,\n                self.ftarg, self.verb)",
  "        _, freq, ft, ftarg = empymod.utils.check_time(\n                self.time, self.signal, self.ft,\n                self.ftarg, self.verb)\n        time = self._time",
  'C20.F4.handover')
m('C13', '_set_nf_re: float() of a one-entry array (defect F26)', SURV,
  "                value = float(value.item())", "                value = float(value)", 'C13.N3.validate')
m('C10', 'point source: linear fraction not clamped below the first centre (defect F27)', FIELDS,
  "                rc = max(0.0, (csrc-cc[ic])/(cc[ic1]-cc[ic]))", "                rc = (csrc-cc[ic])/(cc[ic1]-cc[ic])",
  'C10.PV.linear')
m('C10', 'min_max_ind: index of the last node not limited (defect F28)', FIELDS,
  "        return [min(vector.size-2, imin), min(vector.size-2, imax)]", "        return [imin, imax]",
  'C10.DV.clipping')
m('C13', 'noise_floor getter through the Dataset shorthand (defect F29)', SURV,
  "        if isinstance(self.data.attrs['noise_floor'], str):", "        if isinstance(self.data.noise_floor, str):",
  'C13.N3.flag')
m('C18', 'run --load: layered defaults to False (defect F31)', RUN,
  "        layered = cfg['simulation_options'].get('layered', None)", "        layered = cfg['simulation_options'].get('layered', False)",
  'C18.Q2.routing')
m('C18', 'parser: cache from the file replaces terminal load/save (defect F33)', PARSER,
  "            if 'cache' in from_terminal or key not in from_terminal:\n                files[key] = cache",
  "            files[key] = cache", 'C18.Q4.precedence')
m('C08', 'jtvec: misfit not evaluated first (defect F34)', SIMS,
  "        # Ensure residual and weights are the ones of this simulation.\n        _ = self.misfit\n\n", "",
  'C08.V4.weights')
m('C08', 'jtvec: layered mode not refused (defect F34)', SIMS,
  "        if self.layered:\n            msg = \"`jtvec` is not implemented for `layered`.\"\n            raise NotImplementedError(msg)\n\n", "",
  'C08.V4.weights')
m('C19', 'layered: strength handed to empymod as it is (defect F36)', MP,
  "        'strength': 0,", "        'strength': src.strength,", 'C19.L3.moment')
m('C13', 'select: NaN test array bound for every data set', SURV,
  "            if remove_empty and key == 'observed':\n                data = survey['data'][key].data\n",
  "            data = survey['data'][key].data\n            if remove_empty and key == 'observed':\n",
  'C13.N4.select')
n('C13', 'select: copy bound to a local first', SURV,
  "            survey['data'][key] = self.data[key].sel(**selection).copy()",
  "            selected = self.data[key].sel(**selection).copy()\n            survey['data'][key] = selected")

# ------------------------------------------------ rules added after seeded round 6
m('C01', 'krylov: breakdown keeps a stale CONVERGED (defect F39)', SOLVER,
  "        if var.exit_message in ['', 'CONVERGED']:", "        if var.exit_message == '':",
  'C01.R6.krylov')
m('C03', 'core.solve: pivot threshold', CORE,
  "        # Warning: Diagonals of amat cannot be 0!\n        d = 1./amat[6*j]\n",
  "        if abs(amat[6*j]) < 1e-16:\n            amat[6*j] = 1e-16\n        d = 1./amat[6*j]\n",
  'C03.S5.solve')
m('C04', 'restrict_weights: floor on the dual widths', CORE,
  "    d = np.r_[", "    d = np.maximum(1e-6, np.r_[", None)
m('C14', 'extract_1d: layers merged with a tolerance', MODELS,
  "                diff[1:] += abs(np.diff(v))", "                diff[1:] += ~np.isclose(v[1:], v[:-1])",
  'C14.M5.tolerance')
m('C14', 'estimate_gridding_opts: mapping defaults to Resistivity', 'emg3d/meshes.py',
  "gridding_opts.pop('mapping', model.map)", "gridding_opts.pop('mapping', 'Resistivity')",
  'C14.M4.gridding')
m('C15', 'TensorMesh.__eq__ compares h[2] with itself', 'emg3d/meshes.py',
  "np.allclose(self.h[2], mesh.h[2], atol=0)", "np.allclose(self.h[2], self.h[2], atol=0)",
  'C15.VA1.identity')
m('C09', '_points_from_grids: C order for point input', 'emg3d/maps.py',
  "            shape = new_points.shape[:-1]\n            new_points = new_points.reshape(-1, 3, order='F')",
  "            shape = new_points.shape[:-1]\n            new_points = new_points.reshape(-1, 3)",
  'C09.RC.order')
m('C18', "';' as inline comment prefix", 'emg3d/cli/parser.py',
  "inline_comment_prefixes='#'", "inline_comment_prefixes=('#', ';')", 'C18.Q6.types')
m('C20', '_check_time updates the ftarg dictionary in place', 'emg3d/time.py',
  "        self._ftarg = ftarg\n\n        # Print frequency information", "        self._ftarg.update(ftarg)\n\n        # Print frequency information",
  'C20.F5.coherent')
m('C10', 'get_source_field: wire for every 2-D coordinate array', 'emg3d/fields.py',
  "        if source.size > 6:", "        if source.ndim > 1:", 'C10.SF.dispatch')
# neutral: refactorings the normal form has to absorb
PEC_BLOCK = ("        efield.fx[:, 0, :] = efield.fx[:, -1, :] = 0.\n"
             "        efield.fx[:, :, 0] = efield.fx[:, :, -1] = 0.\n"
             "        efield.fy[0, :, :] = efield.fy[-1, :, :] = 0.\n"
             "        efield.fy[:, :, 0] = efield.fy[:, :, -1] = 0.\n"
             "        efield.fz[0, :, :] = efield.fz[-1, :, :] = 0.\n"
             "        efield.fz[:, 0, :] = efield.fz[:, -1, :] = 0.\n")
VARIANTS.append(V('C01', 'solve: PEC block extracted into a helper', [
    (SOLVER, PEC_BLOCK, "        _zero_pec(efield)\n"),
    (SOLVER, "\n\nclass _ConvergenceError(Exception):",
     "\n\ndef _zero_pec(efield):\n    \"\"\"PEC.\"\"\"\n" +
     PEC_BLOCK.replace('        efield', '    efield') +
     "\n\nclass _ConvergenceError(Exception):")], 'silent'))
n('C05', 'multigrid: recursion arguments through new temporaries', SOLVER,
  "            multigrid(cmodel, csfield, cefield, var, level=level+1,\n                      new_cycmax=cycmax-cyc)",
  "            nxt = level+1\n            rem = cycmax-cyc\n            multigrid(cmodel, csfield, cefield, var, level=nxt,\n                      new_cycmax=rem)")


# ------------------------------------------------------------------- C16
MUT16 = [
 ('_stretch: ceil -> floor for the right share', "nr += int(np.ceil(remain/2))", "nr += int(np.floor(remain/2))", 'C16.G1.count'),
 ('_stretch: origin one cell short', "edges_ext = [float(edges[0] - np.sum(shxl[:nl]))", "edges_ext = [float(edges[0] - np.sum(shxl[:nl-1]))", 'C16.G1.origin'),
 ('_stretch: left extension from the last width', "shxl = widths[0] * sfactors", "shxl = widths[-1] * sfactors", 'C16.G1.centre'),
 ('_stretch: only the lower end tested', "reached = extent[0] <= domain[0] and extent[1] >= domain[1]", "reached = extent[0] <= domain[0]", 'C16.G2.guard'),
 ('_stretch: one cell too many accepted', "if reached and remain >= 0:", "if reached and remain >= -1:", 'C16.G2.guard'),
 ('_stretch: factors array too short', "sfactors = stretching**np.arange(1, nx+1)", "sfactors = stretching**np.arange(1, nx-1)", 'C16.G1.count'),
 ('_stretch: centre widths not counted', "remain = nx - widths.size - nl - nr", "remain = nx - nl - nr", 'C16.G'),
 ('origin_and_widths: cell numbers shifted', "for nx in np.unique(cell_numbers):", "for nx in np.unique(cell_numbers)+1:", 'C16.G3.search'),
 ('origin_and_widths: survey fill against the computation domain', "center_edges, center_widths, sa, nx, domain,", "center_edges, center_widths, sa, nx, comp_domain,", 'C16.G3.search'),
 ('origin_and_widths: survey stretching up to stretching[1]', "for sa in np.linspace(1.0, stretching[0], nsa):", "for sa in np.linspace(1.0, stretching[1], nsa):", 'C16.G3.search'),
 ('origin_and_widths: buffer without use_up', "sd_edges, sd_hx, ca, nx, comp_domain, use_up=True,", "sd_edges, sd_hx, ca, nx, comp_domain,", 'C16.G3.search'),
 ('origin_and_widths: wrong sentinel', "                if remain is not False:", "                if remain is not None:", 'C16.G3.search'),
 ('origin_and_widths: origin of the survey part', "                    x0 = cd_edges[0]", "                    x0 = sd_edges[0]", 'C16.G3.search'),
 ('origin_and_widths: error only when verbose', "        if raise_error:\n            raise RuntimeError(msg)", "        if raise_error and verb > 5:\n            raise RuntimeError(msg)", 'C16.G4.failure'),
 ('construct_mesh: z not checked for failure', "    if any([out is None for out in [x0, y0, z0]]):", "    if any([out is None for out in [x0, y0]]):", 'C16.G4.failure'),
 ('origin_and_widths: half the buffer', "        dbuffer = np.min([wlength, np.ones(2)*max_buffer], axis=0)", "        dbuffer = np.min([wlength/2, np.ones(2)*max_buffer], axis=0)", 'C16.G5.domain'),
 ('origin_and_widths: upper side with the lower buffer', "comp_domain = np.array([domain[0]-dbuffer[0], domain[1]+dbuffer[1]])", "comp_domain = np.array([domain[0]-dbuffer[0], domain[1]+dbuffer[0]])", 'C16.G5.domain'),
 ('skin_depth: factor 2', "    skindepth = 1/np.sqrt(np.pi*abs(frequency)*conductivity*mu)", "    skindepth = 1/np.sqrt(2*np.pi*abs(frequency)*conductivity*mu)", 'C16.G5.formulas'),
 ('wavelength: pi', "    return 2*np.pi*skin_depth", "    return np.pi*skin_depth", 'C16.G5.formulas'),
 ('_seasurface: warning with 1 m tolerance', "    if not np.isclose(0.0, check):", "    if not np.isclose(0.0, check, atol=1.0):", 'C16.G6.seasurface'),
 ('_seasurface: last vector width replaced', "                    widths = np.r_[widths, hx]", "                    widths = np.r_[widths[:-1], hx]", 'C16.G6.seasurface'),
 ('_seasurface: 50 % extra stretching', "alphmax = 1.25*stretching[0]", "alphmax = 1.5*stretching[0]", 'C16.G6.seasurface'),
 ('construct_mesh: z centre from y', "    zparams = {'center': center[2], 'seasurface': seasurface}", "    zparams = {'center': center[1], 'seasurface': seasurface}", 'C16.G7.routing'),
 ('construct_mesh: y buffer properties swapped', "        yparams['properties'] = [properties[0], properties[3], properties[4]]", "        yparams['properties'] = [properties[0], properties[4], properties[3]]", 'C16.G7.routing'),
 ('construct_mesh: hy and hz swapped', "    mesh = TensorMesh(h=[hx, hy, hz], origin=np.array([x0, y0, z0]))", "    mesh = TensorMesh(h=[hx, hz, hy], origin=np.array([x0, y0, z0]))", 'C16.G7.routing'),
 ('good_mg_cell_nr: max_nr excluded', "    return numbers[numbers <= max_nr]", "    return numbers[numbers < max_nr]", 'C16.G8.numbers'),
 ('origin_and_widths: centre not a node', "        vector = np.r_[center-dmin, center, center+dmin]", "        vector = np.r_[center-dmin, center+dmin/2, center+dmin]", 'C16.G8.centre'),
 ('origin_and_widths: vector cut one node early', "            vector = vector[:vmax[1]]", "            vector = vector[:vmax[0]]", 'C16.G8.centre'),
]
for _nm, _o, _n, _r in MUT16:
    m('C16', _nm, MESHES, _o, _n, _r)
n('C16', '_stretch: locals renamed', MESHES,
  "    remain = nx - widths.size - nl - nr\n", "    remain = nx - widths.size - nl - nr\n    rest = remain\n")
n('C16', '_stretch: half shares through temporaries', MESHES,
  "            nl += int(np.floor(remain/2))\n            nr += int(np.ceil(remain/2))\n",
  "            half = remain/2\n            nl += int(np.floor(half))\n            nr += int(np.ceil(half))\n")
n('C16', '_stretch: integer division for the left share', MESHES,
  "            nl += int(np.floor(remain/2))\n", "            nl += remain // 2\n")

# ------------------------------------------------ rules added after seeded round 7
m('C18', 'dry-run gradient shape from the index of the case', RUN,
  "            if sim.model.case in ['HTI', 'VTI']:\n                shape = (2, *shape)\n            elif sim.model.case == 'triaxial':\n                shape = (3, *shape)\n",
  "            nprop = ['isotropic', 'HTI', 'VTI', 'triaxial'].index(sim.model.case)\n            if nprop > 1:\n                shape = (nprop, *shape)\n",
  'C18.Q2.output')
m('C12', 'from_dict pops from the caller\'s dictionary', SIMS,
  "        inp = {k: v for k, v in inp.items() if k != '__class__'}\n", "", 'C12.OW5.copy')
m('C17', 'Model.to_dict stores the grid as it is', MODELS,
  "'grid': meshes.TensorMesh(self.grid.h, self.grid.origin).to_dict(),", "'grid': self.grid.to_dict(),",
  'C17.K2.plain')
m('C05', 'semicoarsening: membership test for True', SOLVER,
  "        if self.semicoarsening is True:", "        if self.semicoarsening in [True, np.True_]:",
  'C05.H2.sc_table')
m('C19', 'layered: C-order flattening of two electrodes', MP,
  "        coords = coords.ravel('F')", "        coords = coords.ravel()", 'C19.L3.moment')
m('C09', '_get_responses: model of the model grid for magnetic receivers', SIMS,
  "                self.get_model(source, frequency), efield,", "                self.model, efield,",
  'C09.EC.callsite')
m('C11', 'interpolate_to_grid: identity instead of equality', MODELS,
  "        if grid == self.grid:", "        if grid is self.grid:", 'C11.P4.purity')
m('C04', 'restrict: z neighbour clamped with nx', CORE,
  "            izp = min(nz-1, iz+1)", "            izp = min(nx-1, iz+1)", 'C04.R.row')
m('C16', 'origin_and_widths: wavelength capped before scaling', MESHES,
  "    wlength = lambda_factor*wavelength(skind[1:])", "    wlength = lambda_factor*np.minimum(wavelength(skind[1:]), max_buffer)",
  'C16.G5.domain')
m('C16', 'origin_and_widths: vector of three nodes dropped', MESHES,
  "        if len(vector) < 3:", "        if len(vector) <= 3:", 'C16.G8.centre')

# C16 G9: the survey domain (round 7b)
m('C16', 'origin_and_widths: distance without abs', MESHES,
  "        domain = np.array(\n            [center-abs(distance[0]), center+abs(distance[1])], dtype=float)",
  "        domain = np.array(\n            [center-distance[0], center+distance[1]], dtype=float)",
  'C16.G9.survey_domain')
m('C16', 'origin_and_widths: distance both sides from d0', MESHES,
  "        domain = np.array(\n            [center-abs(distance[0]), center+abs(distance[1])], dtype=float)",
  "        domain = np.array(\n            [center-abs(distance[0]), center+abs(distance[0])], dtype=float)",
  'C16.G9.survey_domain')
m('C16', 'origin_and_widths: vector before distance', MESHES,
  "    elif distance is not None:\n        domain = np.array(\n            [center-abs(distance[0]), center+abs(distance[1])], dtype=float)\n\n    elif vector is not None:\n        domain = np.array([vector.min(), vector.max()], dtype=float)",
  "    elif vector is not None:\n        domain = np.array([vector.min(), vector.max()], dtype=float)\n\n    elif distance is not None:\n        domain = np.array(\n            [center-abs(distance[0]), center+abs(distance[1])], dtype=float)",
  'C16.G9.survey_domain')
m('C16', 'origin_and_widths: given domain as integers', MESHES,
  "        domain = np.array(domain, dtype=np.float64)",
  "        domain = np.array(domain)",
  'C16.G9.survey_domain')
m('C16', 'estimate_gridding_opts: receivers of the first source only', MESHES,
  "            for s in survey.sources.values():\n                inp = np.r_[inp, [r.center_abs(s)[i]\n                                  for r in survey.receivers.values()]]",
  "            s = list(survey.sources.values())[0]\n            inp = np.r_[inp, [r.center_abs(s)[i]\n                              for r in survey.receivers.values()]]",
  'C16.G9.survey_default')
m('C16', 'estimate_gridding_opts: 10 % only above', MESHES,
  "            dim = [min(inp)-diff/10, max(inp)+diff/10]",
  "            dim = [min(inp), max(inp)+diff/10]",
  'C16.G9.survey_default')
m('C16', 'estimate_gridding_opts: signed distance extent', MESHES,
  "            diff = abs(distance[i][0]) + abs(distance[i][1])",
  "            diff = distance[i][0] + distance[i][1]",
  'C16.G9.survey_default')
n('C16', 'origin_and_widths: distance via np.abs and a sign vector', MESHES,
  "        domain = np.array(\n            [center-abs(distance[0]), center+abs(distance[1])], dtype=float)",
  "        domain = center + np.array([-1.0, 1.0])*np.abs(distance)")
n('C16', 'estimate_gridding_opts: sources listed once', MESHES,
  "            inp = np.array([s.center[i] for s in survey.sources.values()])\n            for s in survey.sources.values():",
  "            srcs = list(survey.sources.values())\n            inp = np.array([s.center[i] for s in srcs])\n            for s in srcs:")
n('C16', 'estimate_gridding_opts: receiver loop spelled out', MESHES,
  "                inp = np.r_[inp, [r.center_abs(s)[i]\n                                  for r in survey.receivers.values()]]",
  "                for r in survey.receivers.values():\n                    inp = np.r_[inp, r.center_abs(s)[i]]")
m('C16', 'origin_and_widths: distance domain of the type of its inputs (F40)', MESHES,
  "            [center-abs(distance[0]), center+abs(distance[1])], dtype=float)",
  "            [center-abs(distance[0]), center+abs(distance[1])])",
  'C16.G9.survey_domain')

# round 8
m('C17', 'save: JSON with sorted keys', IO,
  "json.dump(_dict_dearray_decomp(data), f, indent=json_indent)",
  "json.dump(_dict_dearray_decomp(data), f, indent=json_indent, sort_keys=True)",
  'C17.K3.h5order')
m('C17', '_dict_flatten: sorted items', IO,
  "for k, v in data.items() for item in expand(k, v)",
  "for k, v in sorted(data.items()) for item in expand(k, v)",
  'C17.K3.h5order')
m('C13', 'standard_deviation setter keeps the caller array (F41)', SURV,
  "                    data=np.array(standard_deviation))",
  "                    data=standard_deviation)",
  'C13.N3.own')
m('C13', '_set_nf_re: broadcast view of the caller array', SURV,
  "                        data=np.ones(self.shape)*value)",
  "                        data=np.broadcast_to(value, self.shape))",
  'C13.N3.own')
n('C13', '_set_nf_re: broadcast then copy', SURV,
  "                        data=np.ones(self.shape)*value)",
  "                        data=np.broadcast_to(value, self.shape).copy())")
m('C02', 'BaseMesh keeps float32 widths', MESHES,
  "        self.h = [np.array(h[0], dtype=float),",
  "        self.h = [np.asarray(h[0]),",
  'C02.O4.vol')
m('C02', 'VolumeModel: displacement term from |f|', MODELS,
  "smu = sfield.sval*",
  "smu = 2j*np.pi*sfield.frequency*",
  'C02.O4.eta')
m('C04', '_get_restriction_weights: shortcut wrapper', SOLVER,
  "    # x-directed weights.\n    if sc_dir not in [1, 5, 6]:\n        wx = core.restrict_weights(",
  "    def _w(*a):\n        if np.allclose(a[4], a[0][1::2]):\n            return np.ones(3), np.ones(3), np.ones(3)\n        return core.restrict_weights(*a)\n\n    # x-directed weights.\n    if sc_dir not in [1, 5, 6]:\n        wx = _w(",
  'C04.')

