"""Seeded mutants (must be reported) and neutral variants (must stay silent).

Each variant is a list of exact text replacements on the current source; all
of them still compile.  See DESIGN.md section 6 / Appendix C.
"""
from .harness import Variant as V

CORE = 'emg3d/core.py'
SOLVER = 'emg3d/solver.py'
MODELS = 'emg3d/models.py'
FIELDS = 'emg3d/fields.py'
MESHES = 'emg3d/meshes.py'
MAPS = 'emg3d/maps.py'
SIMS = 'emg3d/simulations.py'
SURV = 'emg3d/surveys.py'
MP = 'emg3d/_multiprocessing.py'
IO = 'emg3d/io.py'
TIME = 'emg3d/time.py'
ELEC = 'emg3d/electrodes.py'
PARSER = 'emg3d/cli/parser.py'
RUN = 'emg3d/cli/run.py'

VARIANTS = []


def m(pid, name, rel, old, new, rule=None):
    VARIANTS.append(V(pid, name, [(rel, old, new)], 'violation', rule))


def n(pid, name, rel, old, new):
    VARIANTS.append(V(pid, name, [(rel, old, new)], 'silent'))


# ------------------------------------------------------------------- C02
m('C02', 'amat_x: hy[iym]->hy[iy] in v1mp', CORE,
  "v1mp = ((ez[ix, iy, iz] - ez[ix, iym, iz])/hy[iym] -",
  "v1mp = ((ez[ix, iy, iz] - ez[ix, iym, iz])/hy[iy] -", 'C02.O1')
m('C02', 'amat_x: zeta[ixm,..]->zeta[ix,..] in v1pp', CORE,
  "v1pp *= zeta[ixm, iy, iz] + zeta[ix, iy, iz]",
  "v1pp *= zeta[ix, iy, iz] + zeta[ix, iy, iz]", 'C02.O1')
m('C02', 'amat_x: 0.25 -> 0.5 on sigma term of rz', CORE,
  "rz[ix, iy, iz] -= 0.5*rrz - 0.25*stz*ez[ix, iy, iz]",
  "rz[ix, iy, iz] -= 0.5*rrz - 0.5*stz*ez[ix, iy, iz]", 'C02.O1')
m('C02', 'amat_x: sign of a curl term', CORE,
  "rry = v1pp/hz[iz] - v1pm/hz[izm] - v3pp/hx[ix] + v3mp/hx[ixm]",
  "rry = v1pp/hz[iz] - v1pm/hz[izm] + v3pp/hx[ix] + v3mp/hx[ixm]", 'C02.O1')
m('C02', 'amat_x: mask of rrx on wrong axis', CORE,
  "if iy == 0 or iz == 0:  # assuming ex = 0",
  "if ix == 0 or iz == 0:  # assuming ex = 0", 'C02.O')
m('C02', 'amat_x: eta averaging cell swapped (boundary-adjacent only)', CORE,
  "stx = (eta_x[ix, iym, izm] + eta_x[ix, iym, iz] +",
  "stx = (eta_x[ix, iym, izm] + eta_x[ix, iy, iz] +", 'C02.O1')
m('C02', 'amat_x: mask dropped for rrz', CORE,
  "                if ix == 0 or iy == 0:  # assuming ez = 0\n                    rrz = 0\n",
  "", 'C02.O3')
m('C02', 'amat_x: eta_y used for the z-row', CORE,
  "stz = (eta_z[ixm, iym, iz] + eta_z[ix, iym, iz] +",
  "stz = (eta_y[ixm, iym, iz] + eta_z[ix, iym, iz] +", 'C02.O1')
m('C02', 'residual(): eta_x <-> eta_y at the call site', SOLVER,
  "                efield.fz, model.eta_x, model.eta_y, model.eta_z, model.zeta,\n                model.grid.h[0], model.grid.h[1], model.grid.h[2])\n\n    # Return error if norm.",
  "                efield.fz, model.eta_y, model.eta_x, model.eta_z, model.zeta,\n                model.grid.h[0], model.grid.h[1], model.grid.h[2])\n\n    # Return error if norm.",
  'C02.O5')
m('C02', 'VolumeModel: eps term dropped', MODELS,
  "eta = -sfield.smu0*vol*(cond + smu)", "eta = -sfield.smu0*vol*cond",
  'C02.O4')
m('C02', 'VolumeModel: eta_z aliasing case list', MODELS,
  "if self.case in ['VTI', 'triaxial']:\n            return self._eta_z",
  "if self.case in ['HTI', 'triaxial']:\n            return self._eta_z",
  'C02.O4')
m('C02', 'VolumeModel: zeta multiplied by mu_r', MODELS,
  "zeta /= model.mu_r", "zeta *= model.mu_r", 'C02.O4')
m('C02', 'Field.sval: Laplace sign', FIELDS,
  "self._sval = np.array(-self._frequency)",
  "self._sval = np.array(self._frequency)", 'C02.O4')
m('C02', 'cell_volumes: hx/hz broadcast swapped', MESHES,
  "self.h[0][None, None, :]*self.h[1][None, :, None] *\n                    self.h[2][:, None, None]",
  "self.h[0][:, None, None]*self.h[1][None, :, None] *\n                    self.h[2][None, None, :]",
  'C02.O4')
m('C02', 'krylov matvec: sign of return', SOLVER,
  "        return -rfield.field", "        return rfield.field", 'C02.O5')
n('C02', 'amat_x: factor hoisted (0.5*rrx computed first)', CORE,
  "rx[ix, iy, iz] -= 0.5*rrx - 0.25*stx*ex[ix, iy, iz]",
  "half = 0.5*rrx\n                rx[ix, iy, iz] -= half - stx*ex[ix, iy, iz]*0.25")
n('C02', 'amat_x: operands commuted / re-associated', CORE,
  "rrx = v3pp/hy[iy] - v3pm/hy[iym] - v2pp/hz[iz] + v2pm/hz[izm]",
  "rrx = (v2pm/hz[izm] - v2pp/hz[iz]) + (v3pp/hy[iy] - v3pm/hy[iym])")
n('C02', 'amat_x: precomputed reciprocal', CORE,
  "rry = v1pp/hz[iz] - v1pm/hz[izm] - v3pp/hx[ix] + v3mp/hx[ixm]",
  "ihz = 1.0/hz[iz]\n                rry = v1pp*ihz - v1pm/hz[izm] - v3pp/hx[ix] + v3mp/hx[ixm]")
n('C02', 'amat_x: update written as r = r - (...)', CORE,
  "ry[ix, iy, iz] -= 0.5*rry - 0.25*sty*ey[ix, iy, iz]",
  "ry[ix, iy, iz] = ry[ix, iy, iz] - (0.5*rry - 0.25*sty*ey[ix, iy, iz])")
n('C02', 'VolumeModel: eta factored differently', MODELS,
  "eta = -sfield.smu0*vol*(cond + smu)",
  "eta = -(sfield.smu0*vol*cond + vol*smu*sfield.smu0)")
