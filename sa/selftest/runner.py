"""Thorough tier: both-ways self test of one property's checker.

Runs the property's seeded in-memory mutants and neutral variants
(sa/selftest/mutants.py) plus reformat/rename variants of the files the check
read, in worker processes.  The outcome is reported (stdout + evidence); it
never changes the exit code of the check, which is the verdict on /repo.
"""
import os
import sys
from concurrent.futures import ProcessPoolExecutor


def _one(i):
    from .mutants import VARIANTS
    from .harness import judge
    v = VARIANTS[i]
    try:
        res, info = judge(v)
    except Exception as e:  # pragma: no cover
        res, info = 'CRASH', repr(e)
    return v.name, v.expect, res, info[:160]


def _neutral(job):
    here = os.path.dirname(os.path.dirname(os.path.dirname(
        os.path.abspath(__file__))))
    sys.path.insert(0, os.path.join(here, 'tools'))
    import neutral_fuzz
    return neutral_fuzz.one(job)


def run(ctx):
    from .mutants import VARIANTS
    idx = [i for i, v in enumerate(VARIANTS) if v.pid == ctx.pid]
    files = [f for f in ctx.repo.used() if f.endswith('.py')]
    jobs = [(ctx.pid, f, r) for f in files for r in (False, True)]
    out = {'mutants': 0, 'caught': 0, 'neutral': 0, 'silent': 0,
           'skipped': 0, 'bad': []}
    with ProcessPoolExecutor(max_workers=min(16, os.cpu_count() or 4)) as ex:
        for name, expect, res, info in ex.map(_one, idx):
            if res == 'SKIPPED':
                out['skipped'] += 1
            elif expect == 'violation':
                out['mutants'] += 1
                out['caught'] += res == 'CAUGHT'
            else:
                out['neutral'] += 1
                out['silent'] += res == 'SILENT'
            if res not in ('CAUGHT', 'SILENT', 'SKIPPED'):
                out['bad'].append(f'{name}: {res} {info}')
        for pid, rel, rename, res, info in ex.map(_neutral, jobs):
            out['neutral'] += 1
            out['silent'] += res == 'silent'
            if res != 'silent':
                out['bad'].append(f'{rel} '
                                  f'{"rename" if rename else "reformat"}: '
                                  f'{res} {info}')
    ctx.extra['selftest'] = out
    print(f'SELFTEST property={ctx.pid}: {out["caught"]}/{out["mutants"]} '
          f'seeded mutants reported, {out["silent"]}/{out["neutral"]} '
          f'behaviour-preserving variants silent, {out["skipped"]} skipped')
    for b in out['bad'][:10]:
        print(f'SELFTEST-REGRESSION property={ctx.pid} {b}')
