"""Both-ways self test of the checkers on in-memory variants of /repo source.

A variant is a list of exact text replacements in files of the current tree
(no scratch copy on disk).  Seeded mutants must be reported (VIOLATION naming
the mutated construct's rule family); neutral variants must stay silent.  A
replacement whose `old` text no longer occurs (the repository was edited) makes
the variant SKIPPED, never a failure.
"""
import importlib
import traceback

from ..core.loader import Repo
from ..core.report import Ctx, AnalysisError


class Variant:
    def __init__(self, pid, name, edits, expect, rule=None, note=''):
        """edits: [(relpath, old, new)], expect: 'violation' | 'silent'."""
        self.pid, self.name, self.edits = pid, name, edits
        self.expect, self.rule, self.note = expect, rule, note


def apply(repo_root, edits):
    base = Repo(repo_root)
    ov = {}
    for rel, old, new in edits:
        text = ov.get(rel, base.text(rel))
        if text.count(old) < 1:
            return None
        ov[rel] = text.replace(old, new, 1)
    return ov


def run_variant(pid, overrides, tier='quick', root=None):
    mod = importlib.import_module(f'sa.props.{pid.lower()}')
    repo = Repo(root, overrides)
    ctx = Ctx(pid, tier, repo, level=getattr(mod, 'LEVEL', 'other'),
              collect_only=True)
    err = None
    from ..core import control, defuse, template
    template.AUDIT = []
    try:
        mod.run(ctx)
        control.audit(ctx)
        defuse.audit(ctx)
    except AnalysisError as e:
        err = str(e)
    except Exception as e:
        err = 'internal: ' + repr(e) + '\n' + traceback.format_exc()
    viol, known = ctx.finish()
    return viol, known, err


def judge(v, root=None):
    ov = apply(root, v.edits)
    if ov is None:
        return 'SKIPPED', 'edit text not found in current source'
    viol, known, err = run_variant(v.pid, ov, root=root)
    if v.expect == 'violation':
        if viol:
            if v.rule and not any(v.rule in f.rule for f in viol):
                return 'WRONG-RULE', '; '.join(
                    f'{f.rule} {f.construct}' for f in viol[:3])
            return 'CAUGHT', '; '.join(
                f'{f.rule} {f.construct}: {f.message[:60]}' for f in viol[:2])
        if err:
            return 'ERROR-INSTEAD', err[:200]
        return 'MISSED', ''
    # expect silent
    if viol:
        return 'FALSE-ALARM', '; '.join(
            f'{f.rule} {f.construct}: {f.message[:60]}' for f in viol[:3])
    if err:
        return 'ERROR', err[:200]
    return 'SILENT', ''
