"""Statement-level control-flow graph and a small forward dataflow solver.

Nodes are simple statements, branch tests (if / while / for headers) and the
synthetic ENTRY / EXIT / RAISE nodes.  Edges carry a label: None, 'T', 'F'
(branch polarity), 'exc' (into an exception handler).  Built over the
statement kinds that occur in emg3d (no match, no async, no generators).
"""
import ast

import networkx as nx

from .report import AnalysisError


class Node:
    __slots__ = ('id', 'kind', 'ast', 'label')

    def __init__(self, id_, kind, node=None, label=''):
        self.id, self.kind, self.ast, self.label = id_, kind, node, label

    @property
    def lineno(self):
        return getattr(self.ast, 'lineno', 0)

    def __repr__(self):
        t = ''
        if self.ast is not None:
            t = ast.unparse(self.ast).split('\n')[0][:50]
        return f'<{self.id}:{self.kind}:{self.lineno} {t}>'


class CFG:
    def __init__(self, fn):
        self.fn = fn
        self.nodes = []
        self.succ = {}
        self.pred = {}
        self.entry = self.new('entry')
        self.exit = self.new('exit')       # normal returns / fall off the end
        self.raise_exit = self.new('raise')
        self.loops = []                    # stack of (head, after) for break
        self.handlers = []                 # stack of lists of handler entries
        self.by_ast = {}
        last = self.seq(fn.body, [(self.entry, None)])
        for n, lab in last:
            self.edge(n, self.exit, lab)

    # -- construction -----------------------------------------------------------
    def new(self, kind, node=None, label=''):
        n = Node(len(self.nodes), kind, node, label)
        self.nodes.append(n)
        self.succ[n] = []
        self.pred[n] = []
        if node is not None:
            self.by_ast.setdefault(id(node), n)
        return n

    def edge(self, a, b, label=None):
        self.succ[a].append((b, label))
        self.pred[b].append((a, label))

    def link(self, frontier, node):
        for n, lab in frontier:
            self.edge(n, node, lab)

    def exc_targets(self):
        return self.handlers[-1] if self.handlers else [self.raise_exit]

    def seq(self, stmts, frontier):
        for st in stmts:
            frontier = self.stmt(st, frontier)
        return frontier

    def stmt(self, st, frontier):
        if isinstance(st, ast.If):
            t = self.new('test', st.test)
            self.by_ast[id(st)] = t
            self.link(frontier, t)
            a = self.seq(st.body, [(t, 'T')])
            b = self.seq(st.orelse, [(t, 'F')])
            return a + b
        if isinstance(st, ast.While):
            t = self.new('test', st.test)
            self.by_ast[id(st)] = t
            self.link(frontier, t)
            after = []
            self.loops.append((t, after))
            body = self.seq(st.body, [(t, 'T')])
            self.loops.pop()
            self.link(body, t)
            out = self.seq(st.orelse, [(t, 'F')])
            return out + after
        if isinstance(st, ast.For):
            h = self.new('for', st)
            self.link(frontier, h)
            after = []
            self.loops.append((h, after))
            body = self.seq(st.body, [(h, 'T')])
            self.loops.pop()
            self.link(body, h)
            out = self.seq(st.orelse, [(h, 'F')])
            return out + after
        if isinstance(st, ast.Break):
            n = self.new('stmt', st)
            self.link(frontier, n)
            self.loops[-1][1].append((n, None))
            return []
        if isinstance(st, ast.Continue):
            n = self.new('stmt', st)
            self.link(frontier, n)
            self.edge(n, self.loops[-1][0])
            return []
        if isinstance(st, ast.Return):
            n = self.new('return', st)
            self.link(frontier, n)
            self.edge(n, self.exit)
            return []
        if isinstance(st, ast.Raise):
            n = self.new('raise_stmt', st)
            self.link(frontier, n)
            for h in self.exc_targets():
                self.edge(n, h, 'exc')
            return []
        if isinstance(st, ast.Try):
            hentries = [self.new('handler', h) for h in st.handlers]
            self.handlers.append(hentries if hentries else self.exc_targets())
            first = len(self.nodes)
            body = self.seq(st.body, frontier)
            last = len(self.nodes)
            self.handlers.pop()
            # any statement of the body may raise into any handler
            for n in self.nodes[first:last]:
                if n.kind in ('stmt', 'test', 'for', 'return'):
                    for h in hentries:
                        self.edge(n, h, 'exc')
            # the state before the first body statement can reach handlers too
            out = self.seq(st.orelse, body)
            for h, hn in zip(st.handlers, hentries):
                out = out + self.seq(h.body, [(hn, None)])
            if st.finalbody:
                out = self.seq(st.finalbody, out)
            return out
        if isinstance(st, ast.With):
            n = self.new('stmt', st, 'with')
            self.link(frontier, n)
            return self.seq(st.body, [(n, None)])
        if isinstance(st, (ast.FunctionDef, ast.ClassDef)):
            n = self.new('def', st)
            self.link(frontier, n)
            return [(n, None)]
        if isinstance(st, (ast.Assign, ast.AugAssign, ast.AnnAssign, ast.Expr,
                           ast.Pass, ast.Delete, ast.Assert, ast.Import,
                           ast.ImportFrom, ast.Global, ast.Nonlocal)):
            n = self.new('stmt', st)
            self.link(frontier, n)
            return [(n, None)]
        raise AnalysisError(f'CFG: unsupported statement kind '
                            f'{type(st).__name__} at line {st.lineno}')

    # -- queries -------------------------------------------------------------------
    def node_of(self, st):
        n = self.by_ast.get(id(st))
        if n is None:
            raise AnalysisError('CFG: statement not in graph')
        return n

    def graph(self, prune=None):
        g = nx.DiGraph()
        g.add_nodes_from(self.nodes)
        for a, outs in self.succ.items():
            for b, lab in outs:
                if prune and prune(a, b, lab):
                    continue
                g.add_edge(a, b)
        return g

    def dominators(self, prune=None):
        g = self.graph(prune)
        idom = nx.immediate_dominators(g, self.entry)

        def dominates(a, b):
            while True:
                if a is b:
                    return True
                p = idom.get(b)
                if p is None or p is b:
                    return False
                b = p
        return dominates

    def reachable_between(self, a, b, prune=None, avoid=None):
        """Nodes on some path a -> ... -> b (excluding a; b included),
        not passing through nodes in `avoid`."""
        g = self.graph(prune)
        if avoid:
            g.remove_nodes_from([n for n in avoid if n is not a and n is not b])
        # `a` is a source only: paths may not pass through it again
        g.remove_edges_from(list(g.in_edges(a)))
        if b is not a:
            g.remove_edges_from(list(g.out_edges(b)))
        fwd = nx.descendants(g, a)
        bwd = nx.ancestors(g, b) | {b}
        return (fwd & bwd)


def controlling_tests(cfg, node):
    """The branch tests that decide whether `node` runs on a NORMAL run of
    the function (transitive control dependence on the graph of the paths
    that reach the normal exit).  Paths that end in a raise do not count (a
    validation `if bad: raise` controls nothing), exception edges are
    ignored, loop headers are not reported (zero iterations), but tests that
    `continue` / `break` / `return` around the node are.  Returns
    [(test node, label of the arm that leads to `node`)]."""
    cache = getattr(cfg, '_pdom_cache', None)
    if cache is None:
        g = cfg.graph(prune=lambda a, b, lab: lab == 'exc')
        g.remove_node(cfg.raise_exit)
        alive = nx.ancestors(g, cfg.exit) | {cfg.exit}
        g = g.subgraph(alive).copy()
        ipdom = nx.immediate_dominators(g.reverse(copy=True), cfg.exit)
        cache = cfg._pdom_cache = (g, ipdom)
    g, ipdom = cache
    if node not in g:
        return []

    def pdom(a, b):
        """a post-dominates b"""
        while True:
            if a is b:
                return True
            p = ipdom.get(b)
            if p is None or p is b:
                return False
            b = p
    out, seen, work = [], set(), [node]
    while work:
        s_ = work.pop()
        for b in g.nodes:
            if b.kind not in ('test', 'for') or (b, s_) in seen:
                continue
            if pdom(s_, b) and s_ is not b:
                continue
            for m, lab in cfg.succ[b]:
                if lab == 'exc' or m not in g:
                    continue
                if pdom(s_, m):
                    seen.add((b, s_))
                    if b.kind == 'test' and not any(b is x for x, _ in out):
                        out.append((b, lab))
                    if b not in work:
                        work.append(b)
                    break
    out.sort(key=lambda t: t[0].lineno)
    return out


def solve_forward(cfg, init, transfer, prune=None, max_iter=10000):
    """Forward may-analysis over sets of abstract states.

    init: frozenset of states at ENTRY; transfer(node, state, label) ->
    iterable of states (state after executing `node` and leaving it by an edge
    with `label`).  Returns {node: frozenset of states at node entry}.
    """
    inn = {n: frozenset() for n in cfg.nodes}
    inn[cfg.entry] = frozenset(init)
    work = [cfg.entry]
    it = 0
    while work:
        it += 1
        if it > max_iter:
            raise AnalysisError('dataflow did not converge')
        n = work.pop()
        for m, lab in cfg.succ[n]:
            if prune and prune(n, m, lab):
                continue
            out = set()
            for s in inn[n]:
                out.update(transfer(n, s, lab))
            new = inn[m] | frozenset(out)
            if new != inn[m]:
                inn[m] = new
                work.append(m)
    return inn


def reaching_defs(cfg, name, is_def, prune=None):
    """{node: set of def nodes of `name` reaching node entry}."""
    def transfer(n, s, lab):
        if n.ast is not None and n.kind in ('stmt', 'for', 'def') and \
                is_def(n):
            return [n.id]
        return [s]
    inn = solve_forward(cfg, [-1], transfer, prune)
    return {n: {cfg.nodes[i] if i >= 0 else None for i in v}
            for n, v in inn.items()}
