"""Control conditions of the statements that the rules of a property rest on.

Many rules locate a statement with a template ("the field is multiplied by
the strength", "the result is stored in its slot") -- and a change that keeps
the statement but puts it under a new condition (`if strength != 0:`, an early
`return` ahead of it, a `continue` in the loop around it) leaves every such
rule satisfied.  This module closes that gap generically:

* every STATEMENT matched by a template during the run of a property is
  recorded (sa.core.template.AUDIT);
* for each, the conditions that decide whether it runs on a normal path are
  computed from the CFG of its function (transitive control dependence;
  paths that raise do not count, loop headers do not count) and split into
  their conjuncts;
* the NUMBER of these conjuncts is compared with the reference table
  `sa/props/control_table.json`, which holds the numbers confirmed by reading
  today's tree (`tools/guard_audit.py` prints them with the conditions,
  `--write` stores them).

Statements are keyed by file, function and a rename-proof skeleton of the
statement (all identifiers blanked), so re-formatting, renaming of locals,
`if not c: B else: A` for `if c: A else: B`, and splitting `a and b` into
nested tests change nothing; a statement that was itself edited has no key
and gets no verdict here (the rule that matched it speaks for it).  Only the
count is compared, so re-writing a condition in an equivalent form is not
reported either; what is reported is a statement that ACQUIRED a condition
(conditions that only say "the input is not empty / not all NaN" are not
counted at all; a lost condition is left to the rule that matched the
statement).
"""
import ast
import hashlib
import json
import os

from . import astutil as au
from . import template
from .canon import negate
from .cfg import CFG, controlling_tests
from .report import AnalysisError

TABLE = os.path.join(os.path.dirname(os.path.dirname(os.path.abspath(
    __file__))), 'props', 'control_table.json')


def _locals(fn):
    names = {a.arg for a in ast.walk(fn) if isinstance(a, ast.arg)}
    names |= {n.id for n in ast.walk(fn) if isinstance(n, ast.Name) and
              isinstance(n.ctx, (ast.Store, ast.Del))}
    return names


def skeleton(st, fn=None):
    """Rename-proof fingerprint of a statement: the AST dump with every
    LOCAL identifier (parameters and names bound in the function) blanked;
    globals (modules, functions, classes), attribute names and constants
    stay."""
    loc = _locals(fn) if fn is not None else None
    if isinstance(st, (ast.If, ast.While)):
        st = st.test                       # compound statements: header only
    elif isinstance(st, ast.For):
        st = st.iter
    elif isinstance(st, ast.With):
        st = [i.context_expr for i in st.items]

    def dump(n):
        if isinstance(n, ast.Name):
            return '_' if loc is None or n.id in loc else n.id
        if isinstance(n, ast.arg):
            return '_'
        if isinstance(n, ast.AST):
            return type(n).__name__ + '(' + ','.join(
                dump(getattr(n, f, None)) for f in n._fields
                if f not in ('ctx', 'type_comment', 'kind')) + ')'
        if isinstance(n, list):
            return '[' + ','.join(dump(x) for x in n) + ']'
        return repr(n)
    return hashlib.sha256(dump(st).encode()).hexdigest()[:12]


_CFGS = {}


def conjuncts(cond):
    """The atomic conditions of a test (split through and / or / not): how
    many things the statement depends on does not change when `if a and b:`
    becomes two nested tests, or `elif a and not b: return` becomes
    `if a: if not b: return`."""
    if isinstance(cond, ast.BoolOp):
        out = []
        for v in cond.values:
            out.extend(conjuncts(v))
        return out
    if isinstance(cond, ast.UnaryOp) and isinstance(cond.op, ast.Not) and \
            isinstance(cond.operand, ast.BoolOp):
        return conjuncts(cond.operand)
    return [cond]


def conditions_of(st):
    """Canonical positive conjuncts controlling `st` inside its function
    (None if the statement is not in a function / not in the CFG)."""
    fn = au.enclosing_func(st)
    if fn is None:
        return None
    try:
        cfg = _CFGS.get(id(fn))
        if cfg is None:
            cfg = _CFGS[id(fn)] = (CFG(fn), fn)
        cfg = cfg[0]
        node = cfg.node_of(st)
    except (AnalysisError, KeyError):
        return None
    out, total = [], 0
    for b, lab in controlling_tests(cfg, node):
        c = b.ast if lab == 'T' else negate(b.ast)
        cj = conjuncts(c)
        total += len(cj)
        out.extend(x for x in cj if not nothing_to_do(x))
    # `x == 'a'` implies `x != 'b'`: the negative test of another arm of the
    # same selection adds nothing (mutually exclusive arms may be written in
    # any order)
    eq = {}
    for x in out:
        if isinstance(x, ast.Compare) and len(x.ops) == 1 and isinstance(
                x.ops[0], ast.Eq) and isinstance(x.comparators[0],
                                                 ast.Constant):
            eq.setdefault(ast.unparse(x.left), set()).add(
                repr(x.comparators[0].value))
    keep = []
    for x in out:
        if isinstance(x, ast.Compare) and len(x.ops) == 1 and isinstance(
                x.ops[0], ast.NotEq) and isinstance(
                    x.comparators[0], ast.Constant) and eq.get(
                        ast.unparse(x.left)) and repr(
                            x.comparators[0].value) not in eq[
                                ast.unparse(x.left)]:
            total -= 1
            continue
        keep.append(x)
    return fn, keep, total


# "there is something to do": conditions whose failure means an empty / all
# NaN input, for which skipping the statement changes nothing.  They are not
# counted (neither in the reference nor in the tree under analysis), so a
# fast path for empty input is not reported -- and the loss of one is not
# either.
_SOMETHING = ('_x_.size', 'len(_x_)', '_x_.size != 0', 'len(_x_) != 0',
              '0 < _x_.size', '0 < len(_x_)', 'not np.isnan(_x_).all()',
              'not np.all(np.isnan(_x_))', 'np.isfinite(_x_).any()',
              'np.any(np.isfinite(_x_))', '_x_.any()', 'np.any(_x_)')


def nothing_to_do(cond):
    return any(template.same(p, cond) is not None for p in _SOMETHING)


# Functions whose EVERY simple statement is covered (not only the statements
# a template happened to match): the functions a property is anchored in.
# `Class.*` = all methods of the class.  (numba kernels of core.py are left
# to the stencil interpreter, which rejects unknown control flow.)
_SOL, _SIM, _SUR, _MOD, _FLD, _ELE, _MAP, _MP_, _IO, _TIM = (
    'emg3d/solver.py', 'emg3d/simulations.py', 'emg3d/surveys.py',
    'emg3d/models.py', 'emg3d/fields.py', 'emg3d/electrodes.py',
    'emg3d/maps.py', 'emg3d/_multiprocessing.py', 'emg3d/io.py',
    'emg3d/time.py')
CORE = {
    'C01': {_SOL: ['solve', 'multigrid', 'krylov', 'residual', '_terminate']},
    'C02': {_SOL: ['residual'], _MOD: ['VolumeModel.*']},
    'C03': {_SOL: ['smoothing', '_current_lr_dir']},
    'C04': {_SOL: ['restriction', 'prolongation', 'RegularGridProlongator.*',
                   '_restrict_model_parameters', '_get_restriction_weights',
                   '_current_sc_dir']},
    'C05': {_SOL: ['multigrid', 'MGParameters._max_level',
                   'MGParameters._semicoarsening',
                   'MGParameters._linerelaxation',
                   'MGParameters._solver_and_cycle', '_current_sc_dir',
                   '_current_lr_dir', 'smoothing']},
    'C07': {_SIM: ['Simulation.gradient', 'Simulation.misfit',
                   'Simulation._bcompute', 'Simulation._get_rfield',
                   'Simulation._get_responses'],
            _MAP: ['_interp_volume_average_adj']},
    'C08': {_SIM: ['Simulation.jvec', 'Simulation.jtvec',
                   'Simulation._get_rfield', 'Simulation._get_responses']},
    'C09': {_FLD: ['get_receiver', '_point_vector', 'get_magnetic_field',
                   '_point_vector_magnetic', 'Field.get_receiver'],
            _ELE: ['rotation']},
    'C10': {_FLD: ['get_source_field', '_dipole_vector', '_point_vector',
                   '_point_vector_magnetic'],
            _ELE: ['Dipole.__init__', 'Wire.__init__', 'Point.__init__',
                   'Source.*', 'point_to_dipole', 'dipole_to_point',
                   'point_to_square_loop', 'rotation']},
    'C11': {_MP_: ['process_map', 'solve'],
            _SIM: ['Simulation._compute', 'Simulation._bcompute',
                   'Simulation.compute', 'Simulation._dict_get',
                   'Simulation._load', 'Simulation._data_or_file',
                   'Simulation.get_efield', 'Simulation.get_hfield']},
    'C12': {_SIM: ['Simulation.__init__', 'Simulation.clean',
                   'Simulation.copy', 'Simulation.to_dict',
                   'Simulation.from_dict', 'Simulation.compute',
                   'Simulation._compute', 'Simulation.misfit',
                   'Simulation.gradient', 'Simulation._set_model',
                   'Simulation.layered', 'Simulation._set_layered_opts',
                   'Simulation.get_grid', 'Simulation.get_model']},
    'C13': {_SUR: ['Survey.standard_deviation', 'Survey.noise_floor',
                   'Survey.relative_error', 'Survey.add_noise',
                   'Survey._set_nf_re', 'Survey.select', 'Survey.copy',
                   'Survey.to_dict', 'Survey.from_dict',
                   'Survey._initiate_dataset', 'random_noise'],
            _SIM: ['Simulation.misfit', 'Simulation.compute']},
    'C14': {_MAP: ['BaseMap.*', 'MapConductivity.*', 'MapLgConductivity.*',
                   'MapLnConductivity.*', 'MapResistivity.*',
                   'MapLgResistivity.*', 'MapLnResistivity.*'],
            _MOD: ['Model.__init__', 'Model.property_x', 'Model.property_y',
                   'Model.property_z', 'Model.mu_r', 'Model.epsilon_r',
                   'Model._init_parameter', 'Model._check_positive_finite',
                   'VolumeModel.__init__'],
            _SIM: ['Simulation.gradient']},
    'C15': {_MAP: ['interpolate', 'interp_volume_average',
                   '_interp_volume_average_adj', '_points_from_grids'],
            _MOD: ['Model.interpolate_to_grid']},
    'C16': {'emg3d/meshes.py': ['construct_mesh', 'origin_and_widths',
                                '_stretch', '_seasurface', 'good_mg_cell_nr',
                                'skin_depth', 'wavelength', 'cell_width',
                                'estimate_gridding_opts']},
    'C17': {_IO: ['save', 'load', 'convert', '_dict_serialize',
                  '_dict_deserialize', '_nonetype_to_none', '_dict_flatten',
                  '_dict_unflatten', '_dict_dearray_decomp',
                  '_dict_array_comp', '_hdf5_dump', '_hdf5_load'],
            _SUR: ['Survey.to_dict', 'Survey.from_dict'],
            _MOD: ['Model.to_dict', 'Model.from_dict'],
            _FLD: ['Field.to_dict', 'Field.from_dict'],
            _ELE: ['Wire.to_dict', 'Wire.from_dict'],
            _SIM: ['Simulation.to_dict', 'Simulation.from_dict',
                   'Simulation.to_file', 'Simulation.from_file']},
    'C18': {'emg3d/cli/parser.py': ['parse_config_file'],
            'emg3d/cli/run.py': ['simulation', 'check_files'],
            'emg3d/cli/main.py': ['main']},
    'C19': {_MP_: ['layered', '_empymod_fwd', '_get_points', '_fd_gradient'],
            _MOD: ['Model.extract_1d'],
            _SIM: ['Simulation._compute_1d', 'Simulation.gradient']},
    'C20': {_TIM: ['Fourier.*']},
}


def core_statements(ctx):
    out = []
    for rel, names in CORE.get(ctx.pid, {}).items():
        try:
            m = ctx.repo.mod(rel)
        except AnalysisError:
            continue
        for fn in ast.walk(m.tree):
            if not isinstance(fn, ast.FunctionDef):
                continue
            q = au.qualname(fn)
            top = q.split('.')
            if not any(q == n or q.startswith(n + '.') or (
                    n.endswith('.*') and top[0] == n[:-2]) for n in names):
                continue
            for st in au.walk_local(fn):
                # (returns are left out: which of several returns runs is
                # decided by the rules that evaluate the returned values)
                if isinstance(st, (ast.Assign, ast.AugAssign, ast.AnnAssign,
                                   ast.Delete)) or (
                        isinstance(st, ast.Expr) and isinstance(
                            st.value, ast.Call)):
                    out.append(st)
    return out


def module_of(ctx, st):
    n = st
    while getattr(n, '_parent', None) is not None:
        n = n._parent
    for rel, m in ctx.repo._mods.items():
        if m.tree is n:
            return m
    return None


def collect(ctx):
    """{key: [(count, [condition texts], lineno, statement text)]}"""
    res = {}
    seen = set()
    marked = [st for _pat, st in template.AUDIT or []] + core_statements(ctx)
    for st in marked:
        if id(st) in seen:
            continue
        seen.add(id(st))
        m = module_of(ctx, st)
        r = conditions_of(st)
        if m is None or r is None:
            continue
        fn, conds, total = r
        key = f'{m.rel}::{au.qualname(fn)}::{skeleton(st, fn)}'
        res.setdefault(key, []).append(
            (len(conds), [ast.unparse(c) for c in conds],
             int(getattr(st, '_src_lineno', None) or st.lineno),
             ast.unparse(st).splitlines()[0][:70], m, total))
    return res


def load_table():
    if not os.path.exists(TABLE):
        return {}
    with open(TABLE) as f:
        return json.load(f)


def audit(ctx):
    """The rule `<PID>.CTL.conditions` (run after the rules of a property)."""
    table = load_table().get(ctx.pid)
    if table is None:
        return
    rule = f'{ctx.pid}.CTL.conditions'
    res = collect(ctx)
    n = 0
    for key, items in sorted(res.items()):
        ref = table.get(key)
        if ref is None:
            continue                      # edited / new statement: no verdict
        have = sorted(i[0] for i in items)
        want = sorted(ref['counts'])
        if len(have) != len(want):
            continue                      # another number of twins: no verdict
        n += 1
        worst = max(items, key=lambda i: i[0])
        known = set(ref.get('conditions', []))
        new = [c for c in worst[1] if c not in known]
        fnname = key.split('::')[1]
        if have == want:
            ctx.ok(rule, f'{fnname}: `{worst[3]}`')
            continue
        # only ADDED conditions are reported (pairwise, sorted); a lost
        # condition makes the statement run more often, which the rule that
        # matched the statement has to judge
        more = any(h > w for h, w in zip(have, want))
        # (a "something to do" test re-written as a plain truth test, e.g.
        # `len(d) > 0` -> `d`, moves a condition from the uncounted to the
        # counted ones without adding one: the total must grow as well)
        if more and 'totals' in ref and sum(i[5] for i in items) <= sum(
                ref['totals']):
            more = False
        # ... and some condition must be about something the statement did
        # not depend on before (the same predicates in another polarity /
        # combination are the arms of one selection written in another
        # order)
        if more and known:
            def atom(txt):
                try:
                    e = ast.parse(txt, mode='eval').body
                except SyntaxError:
                    return txt
                return min(txt, ast.unparse(negate(e)))
            refatoms = {atom(c) for c in known}
            new = [c for c in worst[1] if atom(c) not in refatoms]
            if not new and 'twins' in ref and len(ref['twins']) > 1:
                # several statements with this text: what is known is what
                # the corresponding one depended on (paired by number of
                # conditions, as the counts are), not the union over all
                cur = sorted((sorted(i[1]) for i in items),
                             key=lambda t: (len(t), t))
                for ct_, rt_ in zip(cur, ref['twins']):
                    if len(ct_) > len(rt_):
                        ra = {atom(c) for c in rt_}
                        new = [c for c in ct_ if atom(c) not in ra]
                        if new:
                            break
            if not new:
                more = False
        ctx.check(rule, f'{fnname}: `{worst[3]}`', not more,
                  f'runs under {have} condition(s), reference {want}: it '
                  f'now also depends on `{new[0] if new else worst[1]}` -- '
                  'a statement the property rests on is skipped when that '
                  'condition fails', (worst[4].rel, worst[2]))
    want_n = sum(1 for k in table)
    if not want_n:
        return
    ctx.need(n >= max(1, int(0.6 * want_n)),
             f'control table: only {n} of {want_n} reference statements '
             'were matched')
