"""Small AST helpers shared by the property checkers."""
import ast

from .report import norm_stmt


def src(node):
    return ast.unparse(node)


def stext(node):
    """Normalised first line(s) of a statement (used in construct keys)."""
    t = ast.unparse(node)
    return norm_stmt(t.split('\n')[0])[:100]


def walk_local(fn):
    """Walk a function body without entering nested defs/classes/lambdas."""
    stack = list(fn.body) if hasattr(fn, 'body') and isinstance(
        fn.body, list) else [fn]
    while stack:
        n = stack.pop()
        yield n
        for c in ast.iter_child_nodes(n):
            if isinstance(c, (ast.FunctionDef, ast.AsyncFunctionDef,
                              ast.ClassDef, ast.Lambda)):
                continue
            stack.append(c)


def walk_all(node):
    return ast.walk(node)


def calls(node, name=None, local=False):
    """Call nodes whose func text equals `name` (or all)."""
    it = walk_local(node) if local else ast.walk(node)
    out = []
    for n in it:
        if isinstance(n, ast.Call):
            if name is None or ast.unparse(n.func) == name:
                out.append(n)
    return sorted(out, key=lambda c: (c.lineno, c.col_offset))


def calls_suffix(node, suffix):
    out = []
    for n in ast.walk(node):
        if isinstance(n, ast.Call):
            f = ast.unparse(n.func)
            if f == suffix or f.endswith('.' + suffix):
                out.append(n)
    return sorted(out, key=lambda c: (c.lineno, c.col_offset))


def parent(node):
    return getattr(node, '_parent', None)


def enclosing(node, kinds):
    p = parent(node)
    while p is not None and not isinstance(p, kinds):
        p = parent(p)
    return p


def ancestors(node, stop=None):
    """Parents of `node`, innermost first, up to (not including) `stop`."""
    out = []
    p = parent(node)
    while p is not None and p is not stop:
        out.append(p)
        p = parent(p)
    return out


def enclosing_stmt(node):
    p = node
    while p is not None and not isinstance(p, ast.stmt):
        p = parent(p)
    return p


def enclosing_func(node):
    return enclosing(node, (ast.FunctionDef, ast.AsyncFunctionDef))


def qualname(node):
    """Class.func qualified name of the def enclosing `node` (or itself)."""
    names = []
    p = node if isinstance(node, (ast.FunctionDef, ast.ClassDef)) else \
        enclosing(node, (ast.FunctionDef, ast.ClassDef))
    while p is not None:
        names.append(p.name)
        p = enclosing(p, (ast.FunctionDef, ast.ClassDef))
    return '.'.join(reversed(names)) or '<module>'


def params(fn):
    a = fn.args
    return [x.arg for x in a.posonlyargs + a.args]


def all_params(fn):
    a = fn.args
    return [x.arg for x in a.posonlyargs + a.args + a.kwonlyargs]


def const_list(node):
    """Literal list/tuple/set of constants -> python list, else None."""
    if isinstance(node, (ast.List, ast.Tuple, ast.Set)) and all(
            isinstance(e, ast.Constant) for e in node.elts):
        return [e.value for e in node.elts]
    return None


def is_docstring(st):
    return isinstance(st, ast.Expr) and isinstance(st.value, ast.Constant) \
        and isinstance(st.value.value, str)


def body_nodoc(fn):
    b = fn.body
    return b[1:] if b and is_docstring(b[0]) else b


def guards_of(node, stop=None):
    """List of (test node, polarity) of the if-statements enclosing `node`
    up to function `stop` (innermost last).  A leading `not` of the test is
    folded into the polarity."""
    out = []
    child, p = node, parent(node)
    while p is not None and p is not stop:
        if isinstance(p, ast.If):
            t, pol = p.test, None
            if any(child is s for s in p.body):
                pol = True
            elif any(child is s for s in p.orelse):
                pol = False
            if pol is not None:
                while isinstance(t, ast.UnaryOp) and isinstance(t.op, ast.Not):
                    t, pol = t.operand, not pol
                out.append((t, pol))
        child, p = p, parent(p)
    return list(reversed(out))


def guard_texts(node, stop=None):
    """The enclosing conditions of `node` as canonical positive statements
    (source text without blanks): a false-arm guard is written negated."""
    from .canon import negate
    out = []
    for t, pol in guards_of(node, stop):
        out.append(ast.unparse(t if pol else negate(t)).replace(' ', ''))
    return out


def decorator_names(fn):
    return [ast.unparse(d) for d in fn.decorator_list]


def assigned_attr_paths(fn):
    """(path text, node) of all attribute/subscript/name stores in fn."""
    out = []
    for n in walk_local(fn):
        tgs = []
        if isinstance(n, ast.Assign):
            tgs = n.targets
        elif isinstance(n, (ast.AugAssign, ast.AnnAssign)):
            tgs = [n.target]
        elif isinstance(n, ast.Delete):
            tgs = n.targets
        for t in tgs:
            for e in (t.elts if isinstance(t, (ast.Tuple, ast.List)) else [t]):
                out.append((ast.unparse(e), n))
    return out


def clone(node):
    """Copy of an AST (fields and positions only).  `copy.deepcopy` would
    follow the `_parent` pointers of a loaded tree and copy the module."""
    if isinstance(node, list):
        return [clone(x) for x in node]
    if not isinstance(node, ast.AST):
        return node
    new = type(node)()
    for f in node._fields:
        if hasattr(node, f):
            setattr(new, f, clone(getattr(node, f)))
    for a in ('lineno', 'col_offset', 'end_lineno', 'end_col_offset',
              '_src_lineno'):
        if hasattr(node, a):
            setattr(new, a, getattr(node, a))
    return new


def single_defs(fn):
    """{local name: value expression} for the locals of `fn` that are bound
    exactly once, by a plain `name = <expr>` (no augmented assignment, loop
    target, unpacking, with/except binding, parameter)."""
    cnt, val = {}, {}
    for a in ast.walk(fn.args):
        if isinstance(a, ast.arg):
            cnt[a.arg] = 2
    for n in walk_local(fn):
        if isinstance(n, ast.Assign) and len(n.targets) == 1 and isinstance(
                n.targets[0], ast.Name):
            t = n.targets[0].id
            cnt[t] = cnt.get(t, 0) + 1
            val[t] = n.value
            continue
        roots = []
        if isinstance(n, (ast.Assign, ast.AugAssign, ast.AnnAssign,
                          ast.Delete)):
            roots = [n]
        elif isinstance(n, ast.For):
            roots = [n.target]
        elif isinstance(n, ast.With):
            roots = [i.optional_vars for i in n.items if i.optional_vars]
        elif isinstance(n, (ast.Import, ast.ImportFrom)):
            for a in n.names:
                cnt[(a.asname or a.name).split('.')[0]] = 2
        for r in roots:
            for x in ast.walk(r):
                if isinstance(x, ast.Name) and isinstance(
                        x.ctx, (ast.Store, ast.Del)):
                    cnt[x.id] = cnt.get(x.id, 0) + 2
        if isinstance(n, ast.ExceptHandler) and n.name:
            cnt[n.name] = 2
        if isinstance(n, ast.NamedExpr):
            cnt[n.target.id] = 2
        if isinstance(n, ast.comprehension):
            for x in ast.walk(n.target):
                if isinstance(x, ast.Name):
                    cnt[x.id] = 2
    return {t: v for t, v in val.items() if cnt.get(t) == 1}


def value_of(expr, fn, depth=8):
    """Copy of `expr` in which every local that is bound exactly once in
    `fn` is replaced (recursively) by the expression it stands for: the value
    of an argument independent of how many temporaries the code uses."""
    import copy
    defs = getattr(fn, '_single_defs', None)
    if defs is None:
        defs = fn._single_defs = single_defs(fn)

    class V(ast.NodeTransformer):
        def __init__(self, d):
            self.d = d

        def visit_Name(self, n):
            if isinstance(n.ctx, ast.Load) and n.id in defs and self.d > 0:
                e = clone(defs[n.id])
                return ast.copy_location(V(self.d - 1).visit(e), n)
            return n
    return V(depth).visit(clone(expr))


def all_defs(fn):
    """{local name: [value expressions]} over all plain bindings of the
    locals of `fn` (tuple unpacking is split element-wise; unpacking of a
    non-tuple value `a, b = v` gives v[0], v[1]); names with any other kind
    of binding (loop target, augmented assignment, parameter, ...) map to
    None."""
    out, bad = {}, set()
    for a in ast.walk(fn.args):
        if isinstance(a, ast.arg):
            bad.add(a.arg)
    for n in walk_local(fn):
        if isinstance(n, ast.Assign):
            for t in n.targets:
                if isinstance(t, ast.Name):
                    out.setdefault(t.id, []).append(n.value)
                elif isinstance(t, (ast.Tuple, ast.List)) and all(
                        isinstance(e, ast.Name) for e in t.elts):
                    if isinstance(n.value, (ast.Tuple, ast.List)) and len(
                            n.value.elts) == len(t.elts):
                        for e, v in zip(t.elts, n.value.elts):
                            out.setdefault(e.id, []).append(v)
                    else:
                        for i, e in enumerate(t.elts):
                            out.setdefault(e.id, []).append(ast.copy_location(
                                ast.Subscript(n.value, ast.Constant(i),
                                              ast.Load()), n.value))
                else:
                    for x in ast.walk(t):
                        if isinstance(x, ast.Name) and isinstance(
                                x.ctx, ast.Store):
                            bad.add(x.id)
        elif isinstance(n, (ast.AugAssign, ast.AnnAssign, ast.Delete)):
            for x in ast.walk(n.target if not isinstance(n, ast.Delete)
                              else ast.Tuple(n.targets, ast.Del())):
                if isinstance(x, ast.Name) and isinstance(
                        x.ctx, (ast.Store, ast.Del)):
                    bad.add(x.id)
        elif isinstance(n, ast.For):
            for x in ast.walk(n.target):
                if isinstance(x, ast.Name):
                    bad.add(x.id)
        elif isinstance(n, ast.With):
            for i in n.items:
                if i.optional_vars is not None:
                    for x in ast.walk(i.optional_vars):
                        if isinstance(x, ast.Name):
                            bad.add(x.id)
        elif isinstance(n, ast.ExceptHandler) and n.name:
            bad.add(n.name)
        elif isinstance(n, ast.comprehension):
            for x in ast.walk(n.target):
                if isinstance(x, ast.Name):
                    bad.add(x.id)
    return {k: (None if k in bad else v) for k, v in out.items()}


def values_of(expr, fns, depth=6, limit=16):
    """All expressions `expr` may stand for when the locals of the enclosing
    functions `fns` (innermost first) are replaced by what they are bound to
    -- a name with several plain bindings gives several values.  Returns a
    list of expressions (at most `limit`; a name with another kind of
    binding stays as it is)."""
    import copy
    import itertools
    tables = []
    for f in fns:
        d = getattr(f, '_all_defs', None)
        if d is None:
            d = f._all_defs = all_defs(f)
        tables.append(d)

    def lookup(name):
        for d in tables:
            if name in d:
                return d[name]
        return None

    def expand(e, dep):
        names = []
        for x in ast.walk(e):
            if isinstance(x, ast.Name) and isinstance(x.ctx, ast.Load) and \
                    x.id not in names and lookup(x.id):
                names.append(x.id)
        if not names or dep <= 0:
            return [e]
        outs = []
        choices = [lookup(nm) for nm in names]
        for combo in itertools.islice(itertools.product(*choices), limit):
            m = dict(zip(names, combo))

            class V(ast.NodeTransformer):
                def visit_Name(self, n):
                    if isinstance(n.ctx, ast.Load) and n.id in m:
                        return ast.copy_location(clone(m[n.id]), n)
                    return n
            outs.extend(expand(V().visit(clone(e)), dep - 1))
            if len(outs) >= limit:
                break
        return outs[:limit]
    return expand(expr, depth)
