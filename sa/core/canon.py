"""Canonical form of the syntax tree, applied to every loaded module and to
every template before matching, so that rules do not depend on which of
several equivalent spellings the source uses:

  comparisons   `b > a` -> `a < b`, `b >= a` -> `a <= b` (single operator);
                `1 == x` -> `x == 1` (constant on the right)
  negations     `not a == b` -> `a != b`, `not a is None` -> `a is not None`,
                `not a in b` -> `a not in b` (and the reverse)
  if / else     an `if` with an else-arm that is not an elif chain is written
                with the positive test: `if not X: A else: B` and
                `if a != b: A else: B` become `if X: B else: A`,
                `if a == b: B else: A` (same for `is not`, `not in`, and for
                conditional expressions)

  conditional   a statement whose value is a conditional expression,
  expressions   `t = A if C else B`, `return A if C else B`, `t += ...`, is
                written as the if / else statement; a method called on a
                conditional expression, `(A if C else B).m(..)`, is the
                conditional expression of the two calls
  list(map)     `[f(x) for x in xs]` (one generator, no condition, the
                element is a call of f on the loop variable alone) is
                written `list(map(f, xs))`

  loops         `X = []; for T in IT: X.append(E)` and `X = {}; for T in IT:
                X[K] = V` (adjacent, one-statement body) are written as the
                comprehension `X = [E for T in IT]` / `X = {K: V for ..}`

  strings       `'a' + x + 'b'` is written as the f-string f'a{x}b';
                `k in d.keys()` as `k in d`

Ordering comparisons are never negated (`not a < b` is not `a >= b` for NaN).
Line numbers are kept, so reports still point at the source.
"""
import ast

FLIP = {ast.Gt: ast.Lt, ast.GtE: ast.LtE}
NEG = {ast.Eq: ast.NotEq, ast.NotEq: ast.Eq, ast.Is: ast.IsNot,
       ast.IsNot: ast.Is, ast.In: ast.NotIn, ast.NotIn: ast.In}
NEGATIVE = (ast.NotEq, ast.IsNot, ast.NotIn)


def negate(e):
    """Canonical negation of a test expression."""
    if isinstance(e, ast.UnaryOp) and isinstance(e.op, ast.Not):
        return e.operand
    if isinstance(e, ast.Compare) and len(e.ops) == 1 and \
            type(e.ops[0]) in NEG:
        return ast.copy_location(ast.Compare(
            e.left, [NEG[type(e.ops[0])]()], e.comparators), e)
    return ast.copy_location(ast.UnaryOp(ast.Not(), e), e)


def is_negative(e):
    return (isinstance(e, ast.UnaryOp) and isinstance(e.op, ast.Not)) or (
        isinstance(e, ast.Compare) and len(e.ops) == 1 and
        isinstance(e.ops[0], NEGATIVE))


class Canon(ast.NodeTransformer):
    def visit_Compare(self, n):
        self.generic_visit(n)
        if len(n.ops) != 1:
            return n
        op = type(n.ops[0])
        # `k in d.keys()` == `k in d`
        c0 = n.comparators[0]
        if op in (ast.In, ast.NotIn) and isinstance(c0, ast.Call) and \
                isinstance(c0.func, ast.Attribute) and c0.func.attr == 'keys' \
                and not c0.args and not c0.keywords:
            n.comparators = [c0.func.value]
        if op in FLIP:
            return ast.copy_location(ast.Compare(
                n.comparators[0], [FLIP[op]()], [n.left]), n)
        if op in (ast.Eq, ast.NotEq) and isinstance(n.left, ast.Constant) \
                and not isinstance(n.comparators[0], ast.Constant):
            return ast.copy_location(ast.Compare(
                n.comparators[0], [op()], [n.left]), n)
        return n

    @staticmethod
    def _is_strlike(e):
        return isinstance(e, ast.JoinedStr) or (
            isinstance(e, ast.Constant) and isinstance(e.value, str))

    @staticmethod
    def _parts(e):
        if isinstance(e, ast.JoinedStr):
            return list(e.values)
        if isinstance(e, ast.Constant) and isinstance(e.value, str):
            return [e]
        return [ast.copy_location(ast.FormattedValue(e, -1, None), e)]

    @staticmethod
    def _join(parts, at):
        out = []
        for p in parts:
            if isinstance(p, ast.Constant) and out and isinstance(
                    out[-1], ast.Constant):
                out[-1] = ast.copy_location(ast.Constant(
                    out[-1].value + p.value), out[-1])
            elif isinstance(p, ast.Constant) and p.value == '':
                continue
            else:
                out.append(p)
        return ast.copy_location(ast.JoinedStr(out), at)

    def visit_BinOp(self, n):
        self.generic_visit(n)
        # 'text' + x  ==  f'text{x}'  (x must be a string for the sum to work)
        if isinstance(n.op, ast.Add) and (self._is_strlike(n.left) or
                                          self._is_strlike(n.right)):
            # (not if the other operand contains string constants itself:
            # nested quotes / backslashes cannot be written inside an
            # f-string expression before Python 3.12)
            for side in (n.left, n.right):
                if not self._is_strlike(side) and any(
                        isinstance(x, (ast.Constant, ast.JoinedStr)) and (
                            isinstance(x, ast.JoinedStr) or
                            isinstance(x.value, (str, bytes)))
                        for x in ast.walk(side)):
                    return n
            return self._join(self._parts(n.left) + self._parts(n.right), n)
        return n

    def visit_JoinedStr(self, n):
        self.generic_visit(n)
        return self._join(list(n.values), n)

    def visit_UnaryOp(self, n):
        self.generic_visit(n)
        if isinstance(n.op, ast.Not):
            o = n.operand
            if isinstance(o, ast.Compare) and len(o.ops) == 1 and \
                    type(o.ops[0]) in NEG:
                return ast.copy_location(negate(o), n)
        return n

    def visit_If(self, n, children_done=False):
        if not children_done:
            self.generic_visit(n)
        if n.orelse and not (len(n.orelse) == 1 and
                             isinstance(n.orelse[0], ast.If)):
            test, body, orelse = n.test, n.body, n.orelse
            while is_negative(test):
                test, body, orelse = negate(test), orelse, body
            if test is not n.test:
                return ast.copy_location(ast.If(test, body, orelse), n)
        return n

    def _stmt_ifexp(self, n):
        """Statement with an IfExp value -> if / else statement."""
        v = n.value
        if not isinstance(v, ast.IfExp):
            return n
        import copy

        def arm(val):
            m = copy.copy(n)
            m.value = val
            if isinstance(n, ast.Assign):
                m.targets = copy.deepcopy(n.targets)
            elif isinstance(n, ast.AugAssign):
                m.target = copy.deepcopy(n.target)
            out = self._stmt_ifexp(ast.copy_location(m, n))
            return out if isinstance(out, list) else [out]
        new = ast.copy_location(ast.If(v.test, arm(v.body), arm(v.orelse)),
                                n)
        return self.visit_If(new, children_done=True)

    def visit_Assign(self, n):
        self.generic_visit(n)
        # `a = b = <immutable literal>` is written as two assignments (for a
        # mutable value the two names would share one object: not the same)
        if len(n.targets) >= 2 and all(isinstance(t, ast.Name)
                                       for t in n.targets) and (
                isinstance(n.value, ast.Constant) or (
                    isinstance(n.value, ast.Tuple) and all(
                        isinstance(e, ast.Constant) for e in n.value.elts))):
            import copy
            return [ast.copy_location(ast.Assign([t], copy.deepcopy(n.value)),
                                      n) for t in n.targets]
        # `a, b = x, y` (plain names, no name read on the right) is written
        # as two assignments
        if len(n.targets) == 1 and isinstance(n.targets[0], ast.Tuple) and \
                isinstance(n.value, ast.Tuple) and len(n.value.elts) == len(
                    n.targets[0].elts) >= 2 and all(
                    isinstance(t, ast.Name) for t in n.targets[0].elts):
            tn = {t.id for t in n.targets[0].elts}
            reads = {x.id for v in n.value.elts for x in ast.walk(v)
                     if isinstance(x, ast.Name)}
            if not (tn & reads) and len(tn) == len(n.targets[0].elts):
                out = []
                for t, v in zip(n.targets[0].elts, n.value.elts):
                    a = ast.copy_location(ast.Assign([t], v), n)
                    r = self._stmt_ifexp(a)
                    out.extend(r if isinstance(r, list) else [r])
                return out
        return self._stmt_ifexp(n)

    def visit_Expr(self, n):
        self.generic_visit(n)
        # `x.fill(c)` == `x[:] = c`
        v = n.value
        # `d.update({K: V for T in IT})` == `for T in IT: d[K] = V`
        if isinstance(v, ast.Call) and isinstance(v.func, ast.Attribute) and \
                v.func.attr == 'update' and len(v.args) == 1 and not \
                v.keywords and isinstance(v.args[0], ast.DictComp) and len(
                    v.args[0].generators) == 1 and len(
                    v.args[0].generators[0].ifs) <= 1:
            dc = v.args[0]
            g = dc.generators[0]
            st = ast.copy_location(ast.Assign([ast.copy_location(
                ast.Subscript(v.func.value, dc.key, ast.Store()), v)],
                dc.value), n)
            if g.ifs:
                st = self.visit_If(ast.copy_location(
                    ast.If(g.ifs[0], [st], []), n), children_done=True)
            return ast.copy_location(ast.For(g.target, g.iter, [st], []), n)
        if isinstance(v, ast.Call) and isinstance(v.func, ast.Attribute) and \
                v.func.attr == 'fill' and len(v.args) == 1 and not v.keywords:
            tgt = ast.copy_location(ast.Subscript(
                v.func.value, ast.Slice(None, None, None), ast.Store()), v)
            return ast.copy_location(ast.Assign([tgt], v.args[0]), n)
        return n

    def visit_AugAssign(self, n):
        self.generic_visit(n)
        return self._stmt_ifexp(n)

    def visit_Return(self, n):
        self.generic_visit(n)
        return self._stmt_ifexp(n) if n.value is not None else n

    def visit_Call(self, n):
        self.generic_visit(n)
        f = n.func
        # tuple() / list() / dict() without arguments are the empty literals
        if isinstance(f, ast.Name) and not n.args and not n.keywords and \
                f.id in ('tuple', 'list', 'dict'):
            lit = {'tuple': ast.Tuple([], ast.Load()),
                   'list': ast.List([], ast.Load()),
                   'dict': ast.Dict([], [])}[f.id]
            return ast.copy_location(lit, n)
        # any([..]) == any(..): a list comprehension as the only argument of
        # a consuming builtin is written as a generator
        if isinstance(f, ast.Name) and f.id in (
                'any', 'all', 'sum', 'min', 'max', 'tuple', 'sorted', 'set',
                'list') and len(n.args) == 1 and not n.keywords and \
                isinstance(n.args[0], ast.ListComp):
            lc = n.args[0]
            n.args = [ast.copy_location(ast.GeneratorExp(
                lc.elt, lc.generators), lc)]
        if isinstance(f, ast.Attribute) and isinstance(f.value, ast.IfExp):
            import copy
            c = f.value

            def call(recv):
                return ast.copy_location(ast.Call(
                    ast.copy_location(ast.Attribute(recv, f.attr, f.ctx), f),
                    copy.deepcopy(n.args), copy.deepcopy(n.keywords)), n)
            return ast.copy_location(ast.IfExp(c.test, call(c.body),
                                               call(c.orelse)), n)
        return n

    def visit_For(self, n):
        self.generic_visit(n)
        # `for a, b in zip(A, B):` -> `for _zi, b in enumerate(B):` with a
        # replaced by A[_zi] (A a plain name / attribute, a not re-bound)
        it, tg = n.iter, n.target
        if isinstance(it, ast.Call) and isinstance(it.func, ast.Name) and \
                it.func.id == 'zip' and len(it.args) == 2 and not \
                it.keywords and isinstance(tg, ast.Tuple) and len(
                    tg.elts) == 2 and isinstance(tg.elts[0], ast.Name) and \
                isinstance(it.args[0], (ast.Name, ast.Attribute)):
            a = tg.elts[0].id
            rebound = any(isinstance(x, ast.Name) and x.id == a and
                          isinstance(x.ctx, (ast.Store, ast.Del))
                          for st in n.body + n.orelse for x in ast.walk(st))
            used_zi = any(isinstance(x, ast.Name) and x.id == '_zi'
                          for x in ast.walk(n))
            if not rebound and not used_zi:
                import copy
                A = it.args[0]

                class R(ast.NodeTransformer):
                    def visit_Name(self, m):
                        if m.id == a and isinstance(m.ctx, ast.Load):
                            return ast.copy_location(ast.Subscript(
                                copy.deepcopy(A), ast.Name('_zi', ast.Load()),
                                ast.Load()), m)
                        return m
                n.body = [R().visit(st) for st in n.body]
                n.target = ast.copy_location(ast.Tuple(
                    [ast.Name('_zi', ast.Store()), tg.elts[1]], ast.Store()),
                    tg)
                n.iter = ast.copy_location(ast.Call(
                    ast.Name('enumerate', ast.Load()), [it.args[1]], []), it)
        return n

    def visit_ListComp(self, n):
        self.generic_visit(n)
        if len(n.generators) == 1:
            g = n.generators[0]
            e = n.elt
            # identity comprehension
            if not g.ifs and isinstance(g.target, ast.Name) and isinstance(
                    e, ast.Name) and e.id == g.target.id:
                return ast.copy_location(ast.Call(
                    ast.Name('list', ast.Load()), [g.iter], []), n)
            # small constant range: unrolled
            it = g.iter
            if not g.ifs and isinstance(g.target, ast.Name) and isinstance(
                    it, ast.Call) and isinstance(it.func, ast.Name) and \
                    it.func.id == 'range' and len(it.args) == 1 and \
                    isinstance(it.args[0], ast.Constant) and isinstance(
                        it.args[0].value, int) and 0 < it.args[0].value <= 8:
                import copy
                elts = []
                for k in range(it.args[0].value):
                    class K(ast.NodeTransformer):
                        def visit_Name(self, m):
                            if m.id == g.target.id:
                                return ast.copy_location(ast.Constant(k), m)
                            return m
                    elts.append(K().visit(copy.deepcopy(e)))
                return ast.copy_location(ast.List(elts, ast.Load()), n)
            if not g.ifs and not g.is_async and isinstance(
                    g.target, ast.Name) and isinstance(e, ast.Call) and \
                    not e.keywords and len(e.args) == 1 and isinstance(
                        e.args[0], ast.Name) and e.args[0].id == g.target.id \
                    and not any(isinstance(x, ast.Name) and
                                x.id == g.target.id
                                for x in ast.walk(e.func)):
                return ast.copy_location(ast.Call(
                    ast.Name('list', ast.Load()), [ast.Call(
                        ast.Name('map', ast.Load()), [e.func, g.iter], [])],
                    []), n)
        return n

    def visit_IfExp(self, n):
        self.generic_visit(n)
        test, body, orelse = n.test, n.body, n.orelse
        while is_negative(test):
            test, body, orelse = negate(test), orelse, body
        if test is not n.test:
            return ast.copy_location(ast.IfExp(test, body, orelse), n)
        return n


def _loop_to_comp(init, loop):
    """`X = []` / `X = {..}` followed by `for T in IT: X.append(E)` /
    `for T in IT: X[K] = V` (optionally under one `if C:`)  ->
    `X = [E for T in IT if C]` / `X = {.., **{K: V for T in IT if C}}`
    (None if the pair does not have that shape)."""
    if not (isinstance(init, ast.Assign) and len(init.targets) == 1 and
            isinstance(loop, ast.For) and not loop.orelse and
            len(loop.body) == 1):
        return None
    x = ast.unparse(init.targets[0])
    v, st = init.value, loop.body[0]
    ifs = []
    if isinstance(st, ast.If) and not st.orelse and len(st.body) == 1:
        ifs, st = [st.test], st.body[0]

    def mentions(e):
        return x in {ast.unparse(n) for n in ast.walk(e)
                     if isinstance(n, (ast.Name, ast.Subscript,
                                       ast.Attribute))}
    if mentions(loop.iter) or any(mentions(c) for c in ifs):
        return None
    gen = ast.comprehension(loop.target, loop.iter, ifs, 0)
    if isinstance(v, ast.List) and not v.elts and isinstance(st, ast.Expr) \
            and isinstance(st.value, ast.Call) and isinstance(
                st.value.func, ast.Attribute) and st.value.func.attr == \
            'append' and ast.unparse(st.value.func.value) == x and len(
                st.value.args) == 1 and not st.value.keywords:
        e = st.value.args[0]
        if mentions(e):
            return None
        new = ast.ListComp(e, [gen])
    elif isinstance(v, ast.Dict) and isinstance(
            st, ast.Assign) and len(st.targets) == 1 and isinstance(
                st.targets[0], ast.Subscript) and ast.unparse(
                    st.targets[0].value) == x:
        k, val = st.targets[0].slice, st.value
        if mentions(val) or mentions(k):
            return None
        new = ast.DictComp(k, val, [gen])
        if v.keys:
            new = ast.Dict(list(v.keys) + [None], list(v.values) + [new])
    else:
        return None
    out = ast.copy_location(ast.Assign(init.targets, ast.copy_location(
        new, init.value)), init)
    return out


def _comp_blocks(node):
    for fld in ('body', 'orelse', 'finalbody'):
        v = getattr(node, fld, None)
        if isinstance(v, list) and v and isinstance(v[0], ast.stmt):
            for st in v:
                _comp_blocks(st)
            i = 0
            while i < len(v) - 1:
                r = _loop_to_comp(v[i], v[i + 1])
                if r is not None:
                    v[i:i + 2] = [Canon().visit(r)]
                    i = max(i - 1, 0)
                else:
                    i += 1
    for h in getattr(node, 'handlers', []) or []:
        _comp_blocks(h)


def canon(tree):
    if isinstance(tree, list):
        return [canon(t) for t in tree]
    out = Canon().visit(tree)
    if isinstance(out, list):
        for o in out:
            _comp_blocks(o)
    else:
        _comp_blocks(out)
    ast.fix_missing_locations(out) if not isinstance(out, list) else [
        ast.fix_missing_locations(o) for o in out]
    return out


def ct(src):
    """Canonical blank-free text of an expression given as source text."""
    return ast.unparse(canon(ast.parse(src.strip(), mode='eval').body)
                       ).replace(' ', '')
