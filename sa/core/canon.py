"""Canonical form of the syntax tree, applied to every loaded module and to
every template before matching, so that rules do not depend on which of
several equivalent spellings the source uses:

  comparisons   `b > a` -> `a < b`, `b >= a` -> `a <= b` (single operator);
                `1 == x` -> `x == 1` (constant on the right)
  negations     `not a == b` -> `a != b`, `not a is None` -> `a is not None`,
                `not a in b` -> `a not in b` (and the reverse)
  if / else     an `if` with an else-arm that is not an elif chain is written
                with the positive test: `if not X: A else: B` and
                `if a != b: A else: B` become `if X: B else: A`,
                `if a == b: B else: A` (same for `is not`, `not in`, and for
                conditional expressions)

  conditional   a statement whose value is a conditional expression,
  expressions   `t = A if C else B`, `return A if C else B`, `t += ...`, is
                written as the if / else statement; a method called on a
                conditional expression, `(A if C else B).m(..)`, is the
                conditional expression of the two calls
  list(map)     `[f(x) for x in xs]` (one generator, no condition, the
                element is a call of f on the loop variable alone) is
                written `list(map(f, xs))`

Ordering comparisons are never negated (`not a < b` is not `a >= b` for NaN).
Line numbers are kept, so reports still point at the source.
"""
import ast

FLIP = {ast.Gt: ast.Lt, ast.GtE: ast.LtE}
NEG = {ast.Eq: ast.NotEq, ast.NotEq: ast.Eq, ast.Is: ast.IsNot,
       ast.IsNot: ast.Is, ast.In: ast.NotIn, ast.NotIn: ast.In}
NEGATIVE = (ast.NotEq, ast.IsNot, ast.NotIn)


def negate(e):
    """Canonical negation of a test expression."""
    if isinstance(e, ast.UnaryOp) and isinstance(e.op, ast.Not):
        return e.operand
    if isinstance(e, ast.Compare) and len(e.ops) == 1 and \
            type(e.ops[0]) in NEG:
        return ast.copy_location(ast.Compare(
            e.left, [NEG[type(e.ops[0])]()], e.comparators), e)
    return ast.copy_location(ast.UnaryOp(ast.Not(), e), e)


def is_negative(e):
    return (isinstance(e, ast.UnaryOp) and isinstance(e.op, ast.Not)) or (
        isinstance(e, ast.Compare) and len(e.ops) == 1 and
        isinstance(e.ops[0], NEGATIVE))


class Canon(ast.NodeTransformer):
    def visit_Compare(self, n):
        self.generic_visit(n)
        if len(n.ops) != 1:
            return n
        op = type(n.ops[0])
        if op in FLIP:
            return ast.copy_location(ast.Compare(
                n.comparators[0], [FLIP[op]()], [n.left]), n)
        if op in (ast.Eq, ast.NotEq) and isinstance(n.left, ast.Constant) \
                and not isinstance(n.comparators[0], ast.Constant):
            return ast.copy_location(ast.Compare(
                n.comparators[0], [op()], [n.left]), n)
        return n

    def visit_UnaryOp(self, n):
        self.generic_visit(n)
        if isinstance(n.op, ast.Not):
            o = n.operand
            if isinstance(o, ast.Compare) and len(o.ops) == 1 and \
                    type(o.ops[0]) in NEG:
                return ast.copy_location(negate(o), n)
        return n

    def visit_If(self, n, children_done=False):
        if not children_done:
            self.generic_visit(n)
        if n.orelse and not (len(n.orelse) == 1 and
                             isinstance(n.orelse[0], ast.If)):
            test, body, orelse = n.test, n.body, n.orelse
            while is_negative(test):
                test, body, orelse = negate(test), orelse, body
            if test is not n.test:
                return ast.copy_location(ast.If(test, body, orelse), n)
        return n

    def _stmt_ifexp(self, n):
        """Statement with an IfExp value -> if / else statement."""
        v = n.value
        if not isinstance(v, ast.IfExp):
            return n
        import copy

        def arm(val):
            m = copy.copy(n)
            m.value = val
            if isinstance(n, ast.Assign):
                m.targets = copy.deepcopy(n.targets)
            elif isinstance(n, ast.AugAssign):
                m.target = copy.deepcopy(n.target)
            out = self._stmt_ifexp(ast.copy_location(m, n))
            return out if isinstance(out, list) else [out]
        new = ast.copy_location(ast.If(v.test, arm(v.body), arm(v.orelse)),
                                n)
        return self.visit_If(new, children_done=True)

    def visit_Assign(self, n):
        self.generic_visit(n)
        return self._stmt_ifexp(n)

    def visit_AugAssign(self, n):
        self.generic_visit(n)
        return self._stmt_ifexp(n)

    def visit_Return(self, n):
        self.generic_visit(n)
        return self._stmt_ifexp(n) if n.value is not None else n

    def visit_Call(self, n):
        self.generic_visit(n)
        f = n.func
        if isinstance(f, ast.Attribute) and isinstance(f.value, ast.IfExp):
            import copy
            c = f.value

            def call(recv):
                return ast.copy_location(ast.Call(
                    ast.copy_location(ast.Attribute(recv, f.attr, f.ctx), f),
                    copy.deepcopy(n.args), copy.deepcopy(n.keywords)), n)
            return ast.copy_location(ast.IfExp(c.test, call(c.body),
                                               call(c.orelse)), n)
        return n

    def visit_ListComp(self, n):
        self.generic_visit(n)
        if len(n.generators) == 1:
            g = n.generators[0]
            e = n.elt
            if not g.ifs and not g.is_async and isinstance(
                    g.target, ast.Name) and isinstance(e, ast.Call) and \
                    not e.keywords and len(e.args) == 1 and isinstance(
                        e.args[0], ast.Name) and e.args[0].id == g.target.id \
                    and not any(isinstance(x, ast.Name) and
                                x.id == g.target.id
                                for x in ast.walk(e.func)):
                return ast.copy_location(ast.Call(
                    ast.Name('list', ast.Load()), [ast.Call(
                        ast.Name('map', ast.Load()), [e.func, g.iter], [])],
                    []), n)
        return n

    def visit_IfExp(self, n):
        self.generic_visit(n)
        test, body, orelse = n.test, n.body, n.orelse
        while is_negative(test):
            test, body, orelse = negate(test), orelse, body
        if test is not n.test:
            return ast.copy_location(ast.IfExp(test, body, orelse), n)
        return n


def canon(tree):
    if isinstance(tree, list):
        return [canon(t) for t in tree]
    out = Canon().visit(tree)
    ast.fix_missing_locations(out)
    return out


def ct(src):
    """Canonical blank-free text of an expression given as source text."""
    return ast.unparse(canon(ast.parse(src.strip(), mode='eval').body)
                       ).replace(' ', '')
