"""Mutates-parameter summaries (fixpoint) and writer sets.

A function *mutates* parameter p if its body stores through p (subscript or
attribute store rooted at p, including augmented assignment), or passes a
value rooted at p to a callee in a position the callee mutates.  Callees are
resolved inside the given modules (plain names and `alias.name`); unknown
external callees are assumed not to mutate their arguments (scipy/numpy calls
in emg3d take copies; axiom recorded by the callers of this module).
"""
import ast

from . import astutil as au


def root_name(n):
    """Base Name of an attribute/subscript/call-free chain, else None."""
    while isinstance(n, (ast.Attribute, ast.Subscript, ast.Starred)):
        n = n.value
    return n.id if isinstance(n, ast.Name) else None


def store_targets(st):
    tgs = []
    if isinstance(st, ast.Assign):
        for t in st.targets:
            tgs.extend(t.elts if isinstance(t, (ast.Tuple, ast.List)) else [t])
    elif isinstance(st, (ast.AugAssign, ast.AnnAssign)):
        tgs.append(st.target)
    elif isinstance(st, ast.Delete):
        tgs.extend(st.targets)
    return tgs


class Summaries:
    def __init__(self, mods, aliases=None):
        """mods: {alias: Module}, e.g. {'': solver, 'core': core}."""
        self.funcs = {}
        for alias, m in mods.items():
            for fn in m.functions():
                self.funcs[(alias, fn.name)] = fn
        self.mut = {k: set() for k in self.funcs}
        self.fixpoint()

    def resolve(self, call, here):
        f = call.func
        if isinstance(f, ast.Name):
            return (here, f.id) if (here, f.id) in self.funcs else None
        if isinstance(f, ast.Attribute) and isinstance(f.value, ast.Name):
            k = (f.value.id, f.attr)
            return k if k in self.funcs else None
        return None

    def local_tuples(self, fn):
        out = {}
        for n in au.walk_local(fn):
            if isinstance(n, ast.Assign) and len(n.targets) == 1 and \
                    isinstance(n.targets[0], ast.Name) and isinstance(
                        n.value, ast.Tuple):
                out[n.targets[0].id] = n.value.elts
        return out

    def expand(self, fn, call):
        tups = self.local_tuples(fn)
        args = []
        for a in call.args:
            if isinstance(a, ast.Starred) and isinstance(a.value, ast.Name) \
                    and a.value.id in tups:
                args.extend(tups[a.value.id])
            else:
                args.append(a)
        return args

    def direct(self, fn, names):
        """Names (subset of `names`) stored through directly in fn."""
        out = set()
        for n in au.walk_local(fn):
            for t in store_targets(n):
                if isinstance(t, (ast.Subscript, ast.Attribute)):
                    r = root_name(t)
                    if r in names:
                        out.add(r)
        return out

    def fixpoint(self):
        changed = True
        while changed:
            changed = False
            for (alias, name), fn in self.funcs.items():
                ps = au.params(fn)
                new = {ps.index(p) for p in self.direct(fn, set(ps))}
                for c in au.calls(fn, local=True):
                    k = self.resolve(c, alias)
                    if k is None:
                        continue
                    args = self.expand(fn, c)
                    for i, a in enumerate(args):
                        r = root_name(a)
                        if r in ps and i in self.mut[k]:
                            new.add(ps.index(r))
                    cps = au.params(self.funcs[k])
                    for kw in c.keywords:
                        r = root_name(kw.value)
                        if kw.arg in cps and r in ps and \
                                cps.index(kw.arg) in self.mut[k]:
                            new.add(ps.index(r))
                if not new <= self.mut[(alias, name)]:
                    self.mut[(alias, name)] |= new
                    changed = True

    def writes(self, fn, alias, name, stmt):
        """Does statement `stmt` (inside fn) write through variable `name`?
        Nested function definitions are not entered."""
        if isinstance(stmt, (ast.FunctionDef, ast.ClassDef)):
            return False
        nodes = [stmt] if not hasattr(stmt, 'body') or isinstance(
            stmt, (ast.Expr,)) else [stmt]
        for t in store_targets(stmt):
            if isinstance(t, (ast.Subscript, ast.Attribute)) and \
                    root_name(t) == name:
                return True
        for n in ast.walk(stmt):
            if isinstance(n, (ast.FunctionDef, ast.Lambda)):
                continue
            if isinstance(n, ast.Call):
                k = self.resolve(n, alias)
                if k is None:
                    continue
                args = self.expand(fn, n)
                for i, a in enumerate(args):
                    if root_name(a) == name and i in self.mut[k]:
                        return True
                cps = au.params(self.funcs[k])
                for kw in n.keywords:
                    if kw.arg in cps and root_name(kw.value) == name and \
                            cps.index(kw.arg) in self.mut[k]:
                        return True
        return False

    def writer_functions(self, alias_filter=None):
        return sorted(f'{a + "." if a else ""}{n}' for (a, n), m in
                      self.mut.items() if m)
