"""Source loader: parses /repo's current working tree on every run.

Nothing of emg3d is imported or executed.  The repository root is taken from
the environment variable VERIF_REPO (default /repo) so that the self-test can
point the same analysers at a scratch copy; ``overrides`` lets the self-test
replace the text of single files in memory.
"""
import ast
import hashlib
import os

from .report import AnalysisError
from .canon import canon
from .normal import normalise

REPO = os.environ.get('VERIF_REPO', '/repo')


class Module:
    def __init__(self, rel, text):
        self.rel = rel
        self.text = text
        self.digest = hashlib.sha256(text.encode()).hexdigest()[:16]
        try:
            self.tree = normalise(canon(ast.parse(text)), rel)
        except SyntaxError as e:  # pragma: no cover
            raise AnalysisError(f'{rel}: does not parse: {e}')
        # (context / operator nodes are interpreter-wide singletons: a parent
        # pointer on them would tie all loaded trees together)
        shared = (ast.expr_context, ast.operator, ast.boolop, ast.unaryop,
                  ast.cmpop)
        for node in ast.walk(self.tree):
            for child in ast.iter_child_nodes(node):
                if not isinstance(child, shared):
                    child._parent = node
        self.lines = text.splitlines()

    # -- lookup helpers -----------------------------------------------------
    def func(self, name, required=True):
        """Module-level function by name."""
        for n in self.tree.body:
            if isinstance(n, (ast.FunctionDef,)) and n.name == name:
                return n
        if required:
            raise AnalysisError(f'anchor vanished: function {name} in {self.rel}')
        return None

    def cls(self, name, required=True):
        for n in self.tree.body:
            if isinstance(n, ast.ClassDef) and n.name == name:
                return n
        if required:
            raise AnalysisError(f'anchor vanished: class {name} in {self.rel}')
        return None

    def method(self, cname, mname, required=True):
        c = self.cls(cname, required)
        if c is None:
            return None
        for n in c.body:
            if isinstance(n, ast.FunctionDef) and n.name == mname:
                return n
        if required:
            raise AnalysisError(
                f'anchor vanished: method {cname}.{mname} in {self.rel}')
        return None

    def methods(self, cname, mname):
        """All defs of that name in the class (property getter + setter)."""
        c = self.cls(cname)
        return [n for n in c.body
                if isinstance(n, ast.FunctionDef) and n.name == mname]

    def functions(self):
        return [n for n in self.tree.body if isinstance(n, ast.FunctionDef)]

    def scope(self, fn):
        """fn plus the module-level functions it (transitively) calls by
        name that do NOT exist in the reference tree (new helpers the
        normal form could not inline, e.g. mutually recursive ones): for a
        rule that reads constants / calls off `fn` they are part of it."""
        from .normal import known
        ref = known().get(self.rel)
        if ref is None:
            return [fn]
        byname = {f.name: f for f in self.functions()}
        out, todo = [fn], [fn]
        while todo:
            f = todo.pop()
            for n in ast.walk(f):
                if isinstance(n, ast.Call) and isinstance(n.func, ast.Name) \
                        and n.func.id in byname and n.func.id not in ref \
                        and byname[n.func.id] not in out:
                    out.append(byname[n.func.id])
                    todo.append(byname[n.func.id])
        return out

    def classes(self):
        return [n for n in self.tree.body if isinstance(n, ast.ClassDef)]


class Repo:
    def __init__(self, root=None, overrides=None):
        self.root = root or REPO
        self.overrides = overrides or {}
        self._mods = {}

    def exists(self, rel):
        return rel in self.overrides or os.path.exists(
            os.path.join(self.root, rel))

    def text(self, rel):
        if rel in self.overrides:
            return self.overrides[rel]
        p = os.path.join(self.root, rel)
        if not os.path.exists(p):
            raise AnalysisError(f'anchor vanished: file {rel}')
        with open(p, encoding='utf-8') as f:
            return f.read()

    def mod(self, rel):
        if rel not in self._mods:
            self._mods[rel] = Module(rel, self.text(rel))
        return self._mods[rel]

    def package_files(self):
        out = []
        base = os.path.join(self.root, 'emg3d')
        for d, _, fs in os.walk(base):
            for f in sorted(fs):
                if f.endswith('.py'):
                    out.append(os.path.relpath(os.path.join(d, f), self.root))
        for rel in self.overrides:
            if rel not in out and rel.endswith('.py'):
                out.append(rel)
        return sorted(out)

    def used(self):
        return {rel: m.digest for rel, m in self._mods.items()}
