"""Rule-instance bookkeeping, findings, known findings, evidence, exit codes.

Exit protocol (DESIGN.md section 2):
  0  every rule instance holds (or only listed known findings fail)
  1  VIOLATION property=<id> replay=<path>     (one line per unlisted construct)
  2  ANALYSIS-ERROR property=<id> <why>        (anchor vanished, unsupported
                                               construct, instance floor, bug)
"""
import hashlib
import json
import os
import re
import time

VERIF = os.path.dirname(os.path.dirname(os.path.dirname(os.path.abspath(__file__))))
KNOWN_FILE = os.path.join(VERIF, 'known_findings.json')


class AnalysisError(Exception):
    """The analysis cannot give a verdict (never a violation)."""


def norm_stmt(text):
    """Normalised statement text used in construct keys (no line numbers)."""
    return re.sub(r'\s+', ' ', text).strip()


def slug(s):
    h = hashlib.sha256(s.encode()).hexdigest()[:10]
    s = re.sub(r'[^A-Za-z0-9_.-]+', '_', s)[:60].strip('_')
    return f'{s}-{h}'


class Finding:
    def __init__(self, pid, rule, construct, message, where=None):
        self.pid, self.rule, self.construct = pid, rule, construct
        self.message, self.where = message, where

    @property
    def key(self):
        return f'{self.rule}|{self.construct}'

    def as_dict(self):
        d = {'property': self.pid, 'rule': self.rule,
             'construct': self.construct, 'message': self.message}
        if self.where:
            d['file'], d['line'] = self.where[0], int(self.where[1])
        return d


def load_known():
    if not os.path.exists(KNOWN_FILE):
        return []
    with open(KNOWN_FILE) as f:
        return json.load(f).get('findings', [])


class Ctx:
    """One run of one property check."""

    def __init__(self, pid, tier, repo, level='other', collect_only=False):
        self.pid, self.tier, self.repo, self.level = pid, tier, repo, level
        self.collect_only = collect_only
        self.t0 = time.time()
        self.instances = []      # (rule, construct, ok, nontrivial)
        self.findings = []
        self.samples = {}        # rule -> list (few)
        self.notes = []
        self.floors = []         # (rule, need, have)
        self.obligations = 0
        self.discharged = 0
        self.assumptions = []
        self.trusted = []
        self.explanation = ''
        self.rule_text = ''
        self.exhaustive = None
        self.extra = {}

    # -- instances ----------------------------------------------------------
    def ok(self, rule, construct, nontrivial=True, sample=None,
           obligation=False):
        self.instances.append((rule, construct, True, nontrivial))
        if obligation:
            self.obligations += 1
            self.discharged += 1
        if sample is not None:
            lst = self.samples.setdefault(rule, [])
            if len(lst) < 2:
                lst.append(sample)

    def fail(self, rule, construct, message, where=None, obligation=False):
        self.instances.append((rule, construct, False, True))
        if obligation:
            self.obligations += 1
        f = Finding(self.pid, rule, construct, message, where)
        if f.key not in {g.key for g in self.findings}:
            self.findings.append(f)

    def check(self, rule, construct, cond, message, where=None, sample=None,
              obligation=False, nontrivial=True):
        if cond:
            self.ok(rule, construct, nontrivial, sample, obligation)
        else:
            self.fail(rule, construct, message, where, obligation)
        return bool(cond)

    def anchor(self, cond, what):
        if not cond:
            raise AnalysisError(f'anchor vanished: {what}')

    def need(self, cond, what):
        if not cond:
            raise AnalysisError(what)

    def note(self, text):
        self.notes.append(text)

    def count(self, rule):
        return sum(1 for r in self.instances if r[0] == rule)

    def floor(self, rule, n):
        have = self.count(rule)
        self.floors.append((rule, n, have))
        if have < n:
            raise AnalysisError(
                f'instance floor: rule {rule} matched {have} < {n} instances '
                f'(the rule would pass vacuously)')

    def where(self, mod, node):
        return (mod.rel, int(getattr(node, '_src_lineno', None) or
                             getattr(node, 'lineno', 0)))

    # -- finishing ------------------------------------------------------------
    def evidence(self, wall, violations, error=None):
        rules = sorted({r[0] for r in self.instances})
        distinct = {(r[0], r[1]) for r in self.instances if r[3]}
        samples = []
        for r in rules:
            for s in self.samples.get(r, [])[:2]:
                samples.append({'rule': r, 'case': s})
        if not samples:
            samples = [{'rule': r[0], 'construct': r[1], 'holds': r[2]}
                       for r in self.instances[:5]]
        cov = {
            'evaluations': len(self.instances),
            'distinct_nontrivial': len(distinct),
            'rule': self.rule_text or (
                'one evaluation per rule instance (rule id + construct of '
                '/repo source); distinct = distinct (rule, construct) pairs '
                'carrying a non-vacuous obligation'),
            'samples': samples[:40],
            'explanation': self.explanation,
            'rules': {r: self.count(r) for r in rules},
            'floors': [{'rule': r, 'floor': n, 'matched': h}
                       for r, n, h in self.floors],
            'files': self.repo.used(),
            'notes': self.notes,
            'findings': [f.as_dict() for f in self.findings],
        }
        if self.level == 'proof':
            cov['obligations'] = self.obligations
            cov['discharged'] = self.discharged
            cov['checker_cmd'] = f'./check {self.pid} --tier {self.tier}'
            cov['trusted_base'] = self.trusted
        if self.exhaustive is not None:
            cov['exhaustive'] = self.exhaustive
        if error:
            cov['analysis_error'] = error
        cov.update(self.extra)
        return {
            'property_id': self.pid,
            'tier': self.tier,
            'seed': int(os.environ.get('VERIF_SEED', '0') or 0),
            'level': self.level,
            'coverage': cov,
            'assumptions': self.assumptions + self.trusted,
            'wall_s': round(wall, 3),
            'violations': violations,
        }

    def finish(self, error=None):
        """Print verdict lines, write evidence and replay files; exit code."""
        wall = time.time() - self.t0
        known = [k for k in load_known() if k.get('property') == self.pid]
        known_keys = {f"{k['rule']}|{k['construct']}": k for k in known
                      if k.get('status') == 'known'}
        viol, kf = [], []
        for f in self.findings:
            (kf if f.key in known_keys else viol).append(f)
        if self.collect_only:
            return viol, kf
        evdir = os.environ.get('VERIF_EVIDENCE_DIR') or os.path.join(
            VERIF, 'evidence')
        os.makedirs(evdir, exist_ok=True)
        for r, n, h in self.floors:
            print(f'  rule {r}: {h} instances (floor {n})')
        for n in self.notes:
            print(n)
        for f in kf:
            print(f'KNOWN-FINDING: property={self.pid} {f.rule} {f.construct}: '
                  f'{f.message}')
        code = 0
        if error:
            print(f'ANALYSIS-ERROR property={self.pid} {error}')
            code = 2
        for f in viol:
            fdir = os.path.join(evdir, 'findings', self.pid)
            os.makedirs(fdir, exist_ok=True)
            path = os.path.join(fdir, slug(f.key) + '.json')
            with open(path, 'w') as fh:
                json.dump(f.as_dict(), fh, indent=1)
            loc = f'{f.where[0]}:{int(f.where[1])}' if f.where else '?'
            print(f'  {loc}: [{f.rule}] {f.construct}: {f.message}')
            print(f'VIOLATION property={self.pid} replay={path}')
            code = 1
        ev = self.evidence(wall, len(viol), error)
        with open(os.path.join(evdir, f'{self.pid}.json'), 'w') as fh:
            json.dump(ev, fh, indent=1, default=str)
        if code == 0:
            print(f'OK property={self.pid} tier={self.tier} '
                  f'instances={len(self.instances)} '
                  f'rules={len({r[0] for r in self.instances})} '
                  f'known_findings={len(kf)} wall={wall:.2f}s')
        return code


class Renamed:
    """Proxy of a Ctx that files every rule instance under another rule
    name: lets one property re-use the rule functions of another one."""

    def __init__(self, ctx, rename):
        self._c, self._rn = ctx, rename

    def __getattr__(self, name):
        return getattr(self._c, name)

    def check(self, rule, *a, **k):
        return self._c.check(self._rn(rule), *a, **k)

    def fail(self, rule, *a, **k):
        return self._c.fail(self._rn(rule), *a, **k)

    def ok(self, rule, *a, **k):
        return self._c.ok(self._rn(rule), *a, **k)

    def floor(self, rule, n):
        return self._c.floor(self._rn(rule), n)


class Filtered:
    """Proxy of a Ctx that keeps only the rule instances whose rule name
    starts with `prefix` and files them under `newname`; everything else the
    borrowed checker reports (and every attribute it sets) is dropped.  Lets
    a property run ONE rule family of another property's run()."""

    def __init__(self, ctx, prefix, newname):
        object.__setattr__(self, '_c', ctx)
        object.__setattr__(self, '_p', prefix)
        object.__setattr__(self, '_n', newname)
        object.__setattr__(self, '_own', {})

    def __getattr__(self, name):
        own = object.__getattribute__(self, '_own')
        if name in own:
            return own[name]
        return getattr(object.__getattribute__(self, '_c'), name)

    def __setattr__(self, name, value):
        object.__getattribute__(self, '_own')[name] = value

    def _keep(self, rule):
        return rule.startswith(self._p)

    def check(self, rule, *a, **k):
        if self._keep(rule):
            return self._c.check(self._n, *a, **k)
        return bool(a[1]) if len(a) > 1 else True

    def fail(self, rule, *a, **k):
        if self._keep(rule):
            return self._c.fail(self._n, *a, **k)

    def ok(self, rule, *a, **k):
        if self._keep(rule):
            return self._c.ok(self._n, *a, **k)

    def floor(self, rule, n):
        return None

    def note(self, text):
        return None
