"""Finite-domain evaluator for pure decision code.

Evaluates the AST of small functions (if/elif/else, comparisons, `in [...]`,
`is None`, boolean operators, integer arithmetic, local assignment, return)
on *abstract points of a finite domain* supplied by the caller, so that
decision code can be turned into tables and compared.  Nothing of emg3d is
imported; only the syntax tree is walked.  Anything outside the subset raises
AnalysisError.
"""
import ast
import operator

from .report import AnalysisError


class Opaque:
    """A value known only to be 'something' (not None)."""
    def __init__(self, tag='obj'):
        self.tag = tag

    def __repr__(self):
        return f'<{self.tag}>'


class _Return(Exception):
    def __init__(self, v):
        self.v = v


_BIN = {ast.Add: operator.add, ast.Sub: operator.sub, ast.Mult: operator.mul,
        ast.Mod: operator.mod, ast.FloorDiv: operator.floordiv,
        ast.Div: operator.truediv, ast.Pow: operator.pow,
        ast.BitOr: operator.or_, ast.BitAnd: operator.and_}
_CMP = {ast.Eq: operator.eq, ast.NotEq: operator.ne, ast.Lt: operator.lt,
        ast.LtE: operator.le, ast.Gt: operator.gt, ast.GtE: operator.ge}


class FiniteEval:
    def __init__(self, env=None, calls=None, where='?'):
        self.env = dict(env or {})
        self.calls = calls or {}
        self.where = where
        self.attr_stores = {}

    def err(self, n, msg):
        return AnalysisError(
            f'{self.where}:{getattr(n, "lineno", "?")}: finite-domain '
            f'evaluator: {msg}: `{ast.unparse(n)[:70]}`')

    # ------------------------------------------------------------------ expr
    def ev(self, n):
        if isinstance(n, ast.Constant):
            return n.value
        if isinstance(n, ast.Name):
            if n.id in self.env:
                return self.env[n.id]
            raise self.err(n, f'unknown name {n.id}')
        if isinstance(n, (ast.Attribute, ast.Subscript)):
            txt = ast.unparse(n)
            if txt in self.env:
                return self.env[txt]
            if isinstance(n, ast.Subscript):
                base = self.ev(n.value)
                idx = self.ev(n.slice)
                try:
                    return base[idx]
                except Exception:
                    raise self.err(n, 'subscript')
            raise self.err(n, f'unknown attribute path {txt}')
        if isinstance(n, ast.Slice):
            return slice(*[None if x is None else self.ev(x)
                           for x in (n.lower, n.upper, n.step)])
        if isinstance(n, (ast.List, ast.Tuple)):
            return [self.ev(e) for e in n.elts]
        if isinstance(n, ast.Set):
            return {self.ev(e) for e in n.elts}
        if isinstance(n, ast.Dict) and all(k is not None for k in n.keys):
            return {self.ev(k): self.ev(v) for k, v in zip(n.keys, n.values)}
        if isinstance(n, ast.UnaryOp):
            v = self.ev(n.operand)
            if isinstance(n.op, ast.Not):
                return not v
            if isinstance(n.op, ast.USub):
                return -v
            raise self.err(n, 'unary operator')
        if isinstance(n, ast.BinOp):
            if type(n.op) not in _BIN:
                raise self.err(n, 'binary operator')
            return _BIN[type(n.op)](self.ev(n.left), self.ev(n.right))
        if isinstance(n, ast.BoolOp):
            if isinstance(n.op, ast.And):
                v = True
                for e in n.values:
                    v = self.ev(e)
                    if not v:
                        return v
                return v
            v = False
            for e in n.values:
                v = self.ev(e)
                if v:
                    return v
            return v
        if isinstance(n, ast.Compare):
            left = self.ev(n.left)
            for op, c in zip(n.ops, n.comparators):
                right = self.ev(c)
                if isinstance(op, ast.In):
                    r = left in right
                elif isinstance(op, ast.NotIn):
                    r = left not in right
                elif isinstance(op, ast.Is):
                    r = left is right
                elif isinstance(op, ast.IsNot):
                    r = left is not right
                elif type(op) in _CMP:
                    r = _CMP[type(op)](left, right)
                else:
                    raise self.err(n, 'comparison')
                if not r:
                    return False
                left = right
            return True
        if isinstance(n, ast.IfExp):
            return self.ev(n.body) if self.ev(n.test) else self.ev(n.orelse)
        if isinstance(n, ast.Call):
            f = ast.unparse(n.func)
            if ast.unparse(n) in self.env:
                return self.env[ast.unparse(n)]
            if f in self.calls:
                return self.calls[f](*[self.ev(a) for a in n.args])
            if f == 'range':
                return list(range(*[self.ev(a) for a in n.args]))
            if isinstance(n.func, ast.Attribute) and n.func.attr in (
                    'index', 'count') and len(n.args) == 1:
                base = self.ev(n.func.value)
                if isinstance(base, (list, tuple)):
                    try:
                        return getattr(list(base), n.func.attr)(
                            self.ev(n.args[0]))
                    except ValueError:
                        raise self.err(n, 'value not in the list')
            if isinstance(n.func, ast.Attribute) and n.func.attr in (
                    'startswith', 'endswith', 'lower', 'upper', 'get',
                    'keys'):
                base = self.ev(n.func.value)
                if isinstance(base, (str, dict)):
                    return getattr(base, n.func.attr)(
                        *[self.ev(a) for a in n.args])
            if f in ('np.copy', 'int', 'np.array', 'abs', 'bool', 'len', 'max',
                     'min', 'str'):
                args = [self.ev(a) for a in n.args]
                return {'np.copy': lambda x: x, 'int': int,
                        'np.array': lambda x: x, 'abs': abs, 'bool': bool,
                        'len': len, 'max': max, 'min': min,
                        'str': str}[f](*args)
            raise self.err(n, f'call to {f}')
        raise self.err(n, f'expression kind {type(n).__name__}')

    # ------------------------------------------------------------------ stmts
    def run(self, stmts):
        for st in stmts:
            self.stmt(st)

    def stmt(self, st):
        if isinstance(st, ast.Assign):
            v = self.ev(st.value)
            for tg in st.targets:
                self.assign(tg, v)
        elif isinstance(st, ast.AugAssign):
            cur = self.ev(st.target)
            self.assign(st.target, _BIN[type(st.op)](cur, self.ev(st.value)))
        elif isinstance(st, ast.If):
            self.run(st.body if self.ev(st.test) else st.orelse)
        elif isinstance(st, ast.While):
            n = 0
            while self.ev(st.test):
                n += 1
                if n > 10000:
                    raise self.err(st, 'loop does not terminate on this point')
                self.run(st.body)
        elif isinstance(st, ast.For):
            it = st.iter
            if isinstance(it, ast.Call) and ast.unparse(it.func) == 'range':
                seq = range(*[self.ev(a) for a in it.args])
            else:
                seq = self.ev(it)
            for v in seq:
                self.assign(st.target, v)
                self.run(st.body)
        elif isinstance(st, ast.Return):
            raise _Return(self.ev(st.value) if st.value else None)
        elif isinstance(st, (ast.Pass,)):
            pass
        elif isinstance(st, ast.Expr) and isinstance(st.value, ast.Constant):
            pass
        elif isinstance(st, ast.Raise):
            raise _Return(('raise', ast.unparse(st.exc)[:40] if st.exc else ''))
        else:
            raise self.err(st, f'statement kind {type(st).__name__}')

    def assign(self, tg, v):
        if isinstance(tg, ast.Name):
            self.env[tg.id] = v
        elif isinstance(tg, (ast.Attribute, ast.Subscript)):
            txt = ast.unparse(tg)
            self.env[txt] = v
            self.attr_stores[txt] = v
        elif isinstance(tg, ast.Tuple) and isinstance(v, (list, tuple)) \
                and len(v) == len(tg.elts):
            for t, x in zip(tg.elts, v):
                self.assign(t, x)
        else:
            raise self.err(tg, 'assignment target')

    def call(self, fn, skip_doc=True):
        """Evaluate a FunctionDef body; returns the returned value."""
        try:
            self.run(fn.body)
        except _Return as r:
            return r.v
        return None


def table(fn, points, make_env, where='?', calls=None):
    """Evaluate `fn` on every point of a finite domain -> {point: result}."""
    out = {}
    for p in points:
        fe = FiniteEval(make_env(p), calls, where)
        out[p] = fe.call(fn)
    return out
