"""Definition-use structure of the functions a property is anchored in.

Companion of sa/core/control.py.  A change that keeps every statement but
makes one of them read ANOTHER value -- two dependent statements swapped
(something used before the value it depends on is updated), the wrong one of
two similar locals (`grid` for `cgrid`, `rec` for `src`), a definition moved
under a condition so that the previous one also reaches the use -- leaves all
template rules satisfied and changes no control condition.  What it changes
is which definitions reach which use.

For every function of `control.CORE[<ID>]` the reaching definitions of every
read of a local name are computed on the CFG (sa.core.cfg.reaching_defs).
Statements and definitions are named by the rename-proof skeleton of
control.skeleton (locals blanked), parameters by their position; the result
per statement is, per read in traversal order, the set of definitions that
reach it.  This is compared with `sa/props/defuse_table.json`, generated from
today's tree by `tools/guard_audit.py --write`.

What is reported (rule `<ID>.DU.reaching`): a read that is reached by an
EXISTING other definition of the function it was not reached by before, or
that is no longer reached by a definition that still exists.  What is not: a
statement that was itself edited or is new (no key), a read whose changed
definition is an edited or brand-new statement (the old key vanished and a new
one appeared: taken as the same definition re-written), independent
statements in another order (reaching sets are unchanged), renamed locals,
re-formatting, swapped if/else arms.
"""
import ast
import json
import os

from . import astutil as au
from .cfg import CFG, reaching_defs
from .control import skeleton, CORE
from .report import AnalysisError

TABLE = os.path.join(os.path.dirname(os.path.dirname(os.path.abspath(
    __file__))), 'props', 'defuse_table.json')


def _stored_names(node):
    """Local names bound by the CFG node's own statement part."""
    st = node.ast
    out = set()
    if node.kind == 'for':
        for x in ast.walk(st.target):
            if isinstance(x, ast.Name):
                out.add(x.id)
        return out
    if node.kind == 'def':
        return {st.name}
    if node.kind == 'handler':
        return {st.name} if getattr(st, 'name', None) else set()
    if node.kind != 'stmt':
        return out
    if isinstance(st, ast.Assign):
        tg = st.targets
    elif isinstance(st, (ast.AugAssign, ast.AnnAssign)):
        tg = [st.target]
    elif isinstance(st, ast.Delete):
        tg = st.targets
    elif isinstance(st, ast.With):
        tg = [i.optional_vars for i in st.items if i.optional_vars]
    elif isinstance(st, (ast.Import, ast.ImportFrom)):
        return {(a.asname or a.name).split('.')[0] for a in st.names}
    else:
        tg = []
    for t in tg:
        for x in ast.walk(t):
            if isinstance(x, ast.Name) and isinstance(
                    x.ctx, (ast.Store, ast.Del)):
                out.add(x.id)
    return out


def _own_expr(node):
    """The expression parts that the CFG node itself evaluates."""
    st = node.ast
    if node.kind == 'test':
        return [st]
    if node.kind == 'for':
        return [st.iter]
    if node.kind == 'return':
        return [st.value] if st.value is not None else []
    if node.kind == 'raise_stmt':
        return [x for x in (st.exc, st.cause) if x is not None]
    if node.kind == 'stmt':
        if isinstance(st, ast.With):
            return [i.context_expr for i in st.items]
        return [st]
    return []


def _loads(exprs, local):
    """Reads of local names, in traversal order; names bound inside a
    comprehension / lambda of the expression are not reads of the function's
    variables."""
    out = []

    def walk(n, bound):
        if isinstance(n, (ast.ListComp, ast.SetComp, ast.GeneratorExp,
                          ast.DictComp)):
            b = set(bound)
            for g in n.generators:
                walk(g.iter, b)
                b |= {x.id for x in ast.walk(g.target)
                      if isinstance(x, ast.Name)}
                for c in g.ifs:
                    walk(c, b)
            for part in ([n.key, n.value] if isinstance(n, ast.DictComp)
                         else [n.elt]):
                walk(part, b)
            return
        if isinstance(n, ast.Lambda):
            b = set(bound) | {a.arg for a in ast.walk(n.args)
                              if isinstance(a, ast.arg)}
            walk(n.body, b)
            return
        if isinstance(n, (ast.FunctionDef, ast.ClassDef)):
            return
        if isinstance(n, ast.Name):
            if isinstance(n.ctx, ast.Load) and n.id in local and \
                    n.id not in bound:
                out.append(n)
            return
        if isinstance(n, ast.AugAssign) and isinstance(n.target, ast.Name) \
                and n.target.id in local:
            out.append(n.target)
        for c in ast.iter_child_nodes(n):
            walk(c, bound)
    for e in exprs:
        walk(e, set())
    return out


def fingerprint(fn):
    """{statement key: [tuple(per read: sorted tuple of definition names)]}
    and the set of all statement keys of the function."""
    cfg = CFG(fn)
    params = [a.arg for a in (fn.args.posonlyargs + fn.args.args)]
    if fn.args.vararg:
        params.append(fn.args.vararg.arg)
    params += [a.arg for a in fn.args.kwonlyargs]
    if fn.args.kwarg:
        params.append(fn.args.kwarg.arg)
    local = set(params)
    defs_of = {}
    for n in cfg.nodes:
        if n.ast is None:
            continue
        for nm in _stored_names(n):
            local.add(nm)
            defs_of.setdefault(nm, set()).add(n)
    keyof = {}

    def key(n):
        if n not in keyof:
            keyof[n] = ('for:' if n.kind == 'for' else '') + skeleton(
                n.ast, fn)
        return keyof[n]
    reach = {}
    res, keys = {}, set()
    for n in cfg.nodes:
        if n.ast is None or n.kind in ('def', 'handler'):
            continue
        k = key(n)
        keys.add(k)
        loads = _loads(_own_expr(n), local)
        fp = []
        for ld in loads:
            nm = ld.id
            if nm not in reach:
                ds = defs_of.get(nm, set())
                reach[nm] = reaching_defs(cfg, nm, lambda x, ds=ds: x in ds)
            rd = reach[nm].get(n, set())
            names = []
            for d in rd:
                if d is None:
                    names.append(f'P{params.index(nm)}' if nm in params
                                 else 'unbound')
                else:
                    names.append(key(d))
            fp.append(tuple(sorted(set(names))))
        # a test that is nothing but a local name (`if flag:`) has no text
        # of its own once the locals are blanked: all such tests of a
        # function would be twins of each other, and a NEW `if other:` would
        # be taken for a changed `if flag:`.  Its identity is what it reads.
        a = n.ast
        if isinstance(a, ast.UnaryOp) and isinstance(a.op, ast.Not):
            a = a.operand
        if n.kind == 'test' and isinstance(a, ast.Name) and len(fp) == 1:
            keys.discard(k)
            k = k + ':' + '|'.join(fp[0])
            keys.add(k)
        # the reads of one statement as a MULTISET (sorted): with the locals
        # blanked in the key, `a * b` and `b * a` are the same statement
        res.setdefault(k, []).append(tuple(sorted(fp)))
    return res, keys


def functions(ctx):
    for rel, names in CORE.get(ctx.pid, {}).items():
        try:
            m = ctx.repo.mod(rel)
        except AnalysisError:
            continue
        for fn in ast.walk(m.tree):
            if not isinstance(fn, ast.FunctionDef):
                continue
            q = au.qualname(fn)
            top = q.split('.')
            if any(q == n or q.startswith(n + '.') or (
                    n.endswith('.*') and top[0] == n[:-2]) for n in names):
                yield m, fn, q


def collect(ctx):
    """{rel::qualname: {'stmts': {key: [fingerprints]}, 'keys': [...]}}"""
    out = {}
    for m, fn, q in functions(ctx):
        try:
            res, keys = fingerprint(fn)
        except AnalysisError:
            continue
        name = f'{m.rel}::{q}'
        if name in out:           # getter + setter: same qualified name
            name = f'{name}#{sum(1 for k in out if k.startswith(name))}'
        out[name] = {'stmts': {k: sorted([list(x) for x in fp] for fp in v)
                               for k, v in res.items()},
                     'keys': sorted(keys), 'line': fn.lineno, 'mod': m.rel}
    return out


def load_table():
    if not os.path.exists(TABLE):
        return {}
    with open(TABLE) as f:
        return json.load(f)


def audit(ctx):
    """The rule `<PID>.DU.reaching` (run after the rules of a property)."""
    table = load_table().get(ctx.pid)
    if not table:
        return
    rule = f'{ctx.pid}.DU.reaching'
    cur = collect(ctx)
    n = 0
    for fname, ref in sorted(table.items()):
        now = cur.get(fname)
        if now is None:
            continue
        refkeys, nowkeys = set(ref['keys']), set(now['keys'])
        for k, rfps in ref['stmts'].items():
            cfps = now['stmts'].get(k)
            if cfps is None or len(cfps) != len(rfps):
                continue              # edited statement / other twin count
            bad = None
            for rfp, cfp in zip(rfps, cfps):
                if len(rfp) != len(cfp):
                    bad = None
                    break
                # a read whose definitions include a re-written one (a key
                # the other side does not know) is a wildcard; the reads with
                # known definitions are compared as multisets, the wildcards
                # may absorb what is left over
                from collections import Counter
                # (a key with another number of twins than in the reference
                # is not a known definition either: a new statement happens
                # to look like an existing one)
                both = {x for x in refkeys & nowkeys if len(
                    ref['stmts'].get(x, [])) == len(now['stmts'].get(x, []))}

                def split(fp):
                    known, wild = Counter(), 0
                    for rd in fp:
                        if all(x in both or x.startswith('P') or
                               x == 'unbound' for x in rd):
                            known[tuple(rd)] += 1
                        else:
                            wild += 1
                    return known, wild
                kr, wr = split(rfp)
                kc, wc = split(cfp)
                extra_c = kc - kr          # reads only the current tree has
                extra_r = kr - kc          # reads only the reference has
                if sum(extra_c.values()) > wr or sum(extra_r.values()) > wc:
                    bad = (0, sorted(extra_c) or '(re-written)',
                           sorted(extra_r) or '(re-written)')
                    break
            n += 1
            short = fname.split('::')[1]
            if not bad:
                ctx.ok(rule, f'{short}: statement {k}')
                continue
            ctx.check(rule, f'{short}: statement {k}', False,
                      f'a read of this statement is now reached by the '
                      f'definitions {list(bad[1])}, in the reference by '
                      f'{list(bad[2])}: the statement reads another value than it '
                      'did (dependent statements re-ordered, the wrong one '
                      'of two locals, or a definition that no longer '
                      'dominates its use)',
                      (now['mod'], _line_of(ctx, fname, k, now)))
    want = sum(len(v['stmts']) for v in table.values())
    ctx.need(n >= int(0.6 * want), f'def-use table: only {n} of {want} '
             'reference statements were matched')


def _line_of(ctx, fname, key, now):
    rel, q = fname.split('::')
    q = q.split('#')[0]
    for m, fn, qq in functions(ctx):
        if m.rel == rel and qq == q:
            cfg = CFG(fn)
            for nd in cfg.nodes:
                if nd.ast is not None and nd.kind not in ('def', 'handler') \
                        and ('for:' if nd.kind == 'for' else '') + skeleton(
                            nd.ast, fn) == key:
                    return nd.lineno
    return now.get('line', 0)
