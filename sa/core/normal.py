"""Normal form with respect to the REFERENCE tree: undo the two refactorings
that leave behaviour alone but move code away from where the rules look.

The rules locate statements inside named functions.  Two everyday clean-ups
defeat that without changing what the program does:

  * "extract function": a block of an anchored function is moved into a NEW
    private helper and called from the old place;
  * "introduce a variable": a sub-expression of a statement gets a NEW local
    name one line earlier.

`sa/props/known_names.json` (written by tools/known_names.py from today's
tree) lists every function of the package with its local names.  When a
module is loaded,

  1. every function that is NOT in the list (a new helper) and is simple
     enough (no decorator, no *args/**kwargs, no yield, `return` only as its
     last statement, not recursive) is inlined at each of its call sites
     that is a statement of its own (`f(..)`, `x = f(..)`, `return f(..)`),
     parameters replaced by the arguments; a helper that is a single
     `return <expr>` is also inlined inside expressions;
  2. every local name that is NOT in the list for its function (a new
     temporary), is bound only by plain `name = <expr>` statements, and
     whose every use is reached by exactly one of those bindings with no
     store to anything the expression reads in between (checked on the
     CFG), is replaced by the expression it stands for, and the bindings
     are dropped.

Both steps are identities on the reference tree (everything there is known)
and semantics-preserving by construction; whatever does not fit the
conditions is left as it is (and the rules see it as written).  Line numbers
of moved statements are kept, so reports point at the source.
"""
import ast
import copy
import json
import os

TABLE = os.path.join(os.path.dirname(os.path.dirname(os.path.abspath(
    __file__))), 'props', 'known_names.json')
_known = None


def known():
    global _known
    if _known is None:
        if os.path.exists(TABLE):
            with open(TABLE) as f:
                _known = json.load(f)
        else:
            _known = {}
    return _known


def qualnames(tree):
    """[(qualname, FunctionDef, class or None)] of module-level functions and
    methods (nested defs belong to their function)."""
    out = []
    for n in tree.body:
        if isinstance(n, ast.FunctionDef):
            out.append((n.name, n, None))
        elif isinstance(n, ast.ClassDef):
            seen = {}
            for m in n.body:
                if isinstance(m, ast.FunctionDef):
                    k = seen.get(m.name, 0)
                    seen[m.name] = k + 1
                    out.append((f'{n.name}.{m.name}' + (f'#{k}' if k else ''),
                                m, n))
    return out


def local_names(fn):
    names = {a.arg for a in ast.walk(fn.args) if isinstance(a, ast.arg)}
    for n in ast.walk(fn):
        if isinstance(n, ast.Name) and isinstance(n.ctx, (ast.Store, ast.Del)):
            names.add(n.id)
        elif isinstance(n, ast.arg):
            names.add(n.arg)
        elif isinstance(n, ast.ExceptHandler) and n.name:
            names.add(n.name)
        elif isinstance(n, (ast.FunctionDef, ast.ClassDef)) and n is not fn:
            names.add(n.name)
        elif isinstance(n, (ast.Import, ast.ImportFrom)):
            for a in n.names:
                names.add((a.asname or a.name).split('.')[0])
    return names


def module_names(tree):
    out = set()
    for st in tree.body:
        if isinstance(st, (ast.Assign, ast.AugAssign, ast.AnnAssign)):
            for x in ast.walk(st):
                if isinstance(x, ast.Name) and isinstance(x.ctx, ast.Store):
                    out.add(x.id)
    return out


def collect(tree):
    """{qualname: sorted local names} of one module (for the table);
    '<module>' holds the names assigned at module level."""
    out = {q: sorted(local_names(fn)) for q, fn, _ in qualnames(tree)}
    out['<module>'] = sorted(module_names(tree))
    out['<defs>'] = {q: def_skeletons(fn) for q, fn, _ in qualnames(tree)}
    out['<attrs>'] = {c.name: sorted(self_attrs(c)) for c in tree.body
                      if isinstance(c, ast.ClassDef)}
    out['<classattrs>'] = {c.name: sorted(
        t.id for st in c.body if isinstance(st, ast.Assign)
        for t in st.targets if isinstance(t, ast.Name))
        for c in tree.body if isinstance(c, ast.ClassDef)}
    return out


def self_attrs(cls):
    """Names of the attributes stored on `self` anywhere in the class
    (`self.x = ..`, `self.x += ..`, `setattr(self, 'x', ..)`)."""
    out = set()
    for n in ast.walk(cls):
        tgs = []
        if isinstance(n, ast.Assign):
            tgs = n.targets
        elif isinstance(n, (ast.AugAssign, ast.AnnAssign)):
            tgs = [n.target]
        for t in tgs:
            for e in (t.elts if isinstance(t, (ast.Tuple, ast.List))
                      else [t]):
                if isinstance(e, ast.Attribute) and isinstance(
                        e.value, ast.Name) and e.value.id == 'self':
                    out.add(e.attr)
        if isinstance(n, ast.Call) and isinstance(n.func, ast.Name) and \
                n.func.id == 'setattr' and len(n.args) >= 2 and isinstance(
                    n.args[0], ast.Name) and n.args[0].id == 'self' and \
                isinstance(n.args[1], ast.Constant):
            out.add(n.args[1].value)
    return out


def def_skeletons(fn):
    """{local name: sorted skeletons of the plain assignments binding it}
    (skeleton = statement with every local blanked): lets a RENAMED local be
    told from a new temporary."""
    from .control import skeleton
    out = {}
    for n in ast.walk(fn):
        if isinstance(n, ast.Assign) and len(n.targets) == 1 and isinstance(
                n.targets[0], ast.Name):
            out.setdefault(n.targets[0].id, []).append(skeleton(n, fn))
    return {k: sorted(v) for k, v in out.items()}


# --------------------------------------------------------------------------
# 1. inline new helpers
# --------------------------------------------------------------------------
SIMPLE_ARG = (ast.Name, ast.Constant, ast.Attribute)


def _simple(e):
    if isinstance(e, (ast.Name, ast.Constant)):
        return True
    if isinstance(e, ast.Attribute):
        return _simple(e.value)
    return False


def _single_exit(stmts, rname):
    """Rewrite a block in which `return` occurs as last statement of the
    block or of an if-arm at the top level (guard clauses) into a block
    without returns that binds the result to `rname`; None if the block has
    another shape."""
    out = []
    for i, st in enumerate(stmts):
        rest = stmts[i + 1:]
        if isinstance(st, ast.Return):
            if rest:
                return None
            out.append(ast.copy_location(ast.Assign(
                [ast.Name(rname, ast.Store())],
                st.value or ast.Constant(None)), st))
            return out
        if isinstance(st, ast.If) and any(isinstance(x, ast.Return)
                                          for x in ast.walk(st)):
            body_ret = st.body and isinstance(st.body[-1], ast.Return)
            else_ret = st.orelse and isinstance(st.orelse[-1], ast.Return)
            if body_ret and not st.orelse:
                b = _single_exit(st.body, rname)
                e = _single_exit(rest, rname) if rest else [
                    ast.copy_location(ast.Assign(
                        [ast.Name(rname, ast.Store())], ast.Constant(None)),
                        st)]
                if b is None or e is None:
                    return None
                out.append(ast.copy_location(ast.If(st.test, b, e), st))
                return out
            if body_ret and else_ret and not rest:
                b = _single_exit(st.body, rname)
                e = _single_exit(st.orelse, rname)
                if b is None or e is None:
                    return None
                out.append(ast.copy_location(ast.If(st.test, b, e), st))
                return out
            if else_ret and not body_ret:
                e = _single_exit(st.orelse, rname)
                b = _single_exit(list(st.body) + list(rest), rname) \
                    if rest or st.body else None
                if b is None or e is None:
                    return None
                out.append(ast.copy_location(ast.If(st.test, b, e), st))
                return out
            return None
        if any(isinstance(x, ast.Return) for x in ast.walk(st)):
            return None
        out.append(st)
    # fell off the end: returns None
    out.append(ast.Assign([ast.Name(rname, ast.Store())],
                          ast.Constant(None)))
    return out


def _inlinable(fn, is_method):
    a = fn.args
    decs = [ast.unparse(d) for d in fn.decorator_list]
    if (decs and decs != ['staticmethod']) or a.vararg or a.kwarg or \
            a.posonlyargs:
        return False
    body = fn.body[1:] if fn.body and isinstance(fn.body[0], ast.Expr) and \
        isinstance(getattr(fn.body[0], 'value', None), ast.Constant) and \
        isinstance(fn.body[0].value.value, str) else fn.body
    if not body:
        return False
    for n in ast.walk(fn):
        if isinstance(n, (ast.Yield, ast.YieldFrom, ast.Await, ast.Global,
                          ast.Nonlocal, ast.Lambda, ast.ClassDef)):
            return False
        if isinstance(n, ast.FunctionDef) and n is not fn:
            return False
        if isinstance(n, ast.Return) and n is not body[-1]:
            if _single_exit(copy.deepcopy(body), '_r__') is None:
                return False
        if isinstance(n, ast.Call):
            f = n.func
            if isinstance(f, ast.Name) and f.id == fn.name:
                return False
            if isinstance(f, ast.Attribute) and f.attr == fn.name:
                return False
    if is_method and decs != ['staticmethod'] and (
            not a.args or a.args[0].arg != 'self'):
        return False
    return True


def _body(fn):
    b = fn.body
    if b and isinstance(b[0], ast.Expr) and isinstance(
            getattr(b[0], 'value', None), ast.Constant) and isinstance(
                b[0].value.value, str):
        return b[1:]
    return b


class _Subst(ast.NodeTransformer):
    def __init__(self, mapping):
        self.m = mapping

    def visit_Name(self, n):
        if n.id in self.m:
            r = self.m[n.id]
            if isinstance(r, str):
                return ast.copy_location(ast.Name(r, n.ctx), n)
            if isinstance(n.ctx, ast.Load):
                return ast.copy_location(copy.deepcopy(r), n)
        return n

    def visit_arg(self, n):
        return n


def _bind(fn, call, is_method):
    """param -> argument expression (None if the call does not fit)."""
    ps = [a.arg for a in fn.args.args]
    if is_method and not any(ast.unparse(d) == 'staticmethod'
                             for d in fn.decorator_list):
        ps = ps[1:]
    if len(call.args) > len(ps) or any(isinstance(a, ast.Starred)
                                       for a in call.args):
        return None
    out = dict(zip(ps, call.args))
    for k in call.keywords:
        if k.arg is None or k.arg in out:
            return None
        out[k.arg] = k.value
    kwo = [a.arg for a in fn.args.kwonlyargs]
    for k in list(out):
        if k not in ps and k not in kwo:
            return None
    defaults = dict(zip(ps[len(ps) - len(fn.args.defaults):],
                        fn.args.defaults))
    for a, d in zip(fn.args.kwonlyargs, fn.args.kw_defaults):
        if d is not None:
            defaults[a.arg] = d
    for p in ps + kwo:
        if p not in out:
            if p not in defaults:
                return None
            out[p] = defaults[p]
    return out


def _expand(fn, call, is_method, caller_locals, counter, site=None):
    """(statements, result expression or None) replacing `call`."""
    bind = _bind(fn, call, is_method)
    if bind is None:
        return None
    body = copy.deepcopy(_body(fn))
    if any(isinstance(x, ast.Return) and x is not body[-1]
           for st0 in body for x in ast.walk(st0)):
        rn = f'_r__{counter[0]}'
        conv = _single_exit(body, rn)
        if conv is None:
            return None
        body = conv + [ast.Return(ast.Name(rn, ast.Load()))]
        for st0 in body:
            ast.fix_missing_locations(st0)
    stored = {n.id for st in body for n in ast.walk(st)
              if isinstance(n, ast.Name) and isinstance(n.ctx, (ast.Store,
                                                                ast.Del))}
    pre, mapping, same_name = [], {}, set()
    for p, arg in bind.items():
        if _simple(arg) and p not in stored:
            mapping[p] = arg
        elif isinstance(arg, ast.Name) and arg.id == p:
            same_name.add(p)    # handed on under its own name: the same
                                # variable before the block was moved
        else:
            nm = p if p not in caller_locals else f'{p}__h{counter[0]}'
            mapping[p] = nm
            pre.append(ast.copy_location(ast.Assign(
                [ast.Name(nm, ast.Store())], copy.deepcopy(arg)), call))
    # a helper local returned into the caller's variable of the same name
    # (`grad, g = self._helper()` with `return grad, ...`) IS that variable
    keep = set()
    ret = body[-1].value if body and isinstance(body[-1], ast.Return) else None
    if isinstance(site, ast.Assign) and len(site.targets) == 1:
        tg = site.targets[0]
        pairs = []
        if isinstance(tg, ast.Tuple) and isinstance(ret, ast.Tuple) and \
                len(tg.elts) == len(ret.elts):
            pairs = list(zip(tg.elts, ret.elts))
        elif isinstance(tg, ast.Name) and isinstance(ret, ast.Name):
            pairs = [(tg, ret)]
        keep = {t.id for t, r in pairs if isinstance(t, ast.Name) and
                isinstance(r, ast.Name) and t.id == r.id}
    for nm in stored:
        if nm not in mapping and nm in caller_locals and \
                nm not in keep and nm not in same_name:
            mapping[nm] = f'{nm}__h{counter[0]}'
    counter[0] += 1
    sub = _Subst(mapping)
    body = [sub.visit(st) for st in body]
    res = None
    if body and isinstance(body[-1], ast.Return):
        res = body[-1].value
        body = body[:-1]
    out = pre + body
    for st in out:
        ast.fix_missing_locations(st)
    # position: the statements take the place of the call.  Rules compare
    # line numbers to order statements, so the moved statements get the line
    # of the call plus a small increasing fraction; the line in the source is
    # kept for reports (`_src_lineno`, used by Ctx.where)
    k = [0]

    def renumber(stmts):
        for st in stmts:
            k[0] += 1
            ln = call.lineno + k[0] * 1e-4
            blocks = []
            for fld in ('body', 'orelse', 'finalbody'):
                v = getattr(st, fld, None)
                if isinstance(v, list):
                    blocks.append(v)
            for h in getattr(st, 'handlers', []) or []:
                blocks.append(h.body)
            nested = {id(x) for v in blocks for y in v for x in ast.walk(y)}
            for x in ast.walk(st):
                if id(x) not in nested and hasattr(x, 'lineno'):
                    if not hasattr(x, '_src_lineno'):
                        x._src_lineno = x.lineno
                    x.lineno = ln
            for v in blocks:
                renumber(v)
    renumber(out)
    if res is not None:
        for x in ast.walk(res):
            if hasattr(x, 'lineno'):
                x._src_lineno = getattr(x, '_src_lineno', x.lineno)
                x.lineno = call.lineno
    return out, res


def _after(stmts, line):
    """Order the statements that take over the result AFTER the inlined
    body (which got line + k * 1e-4)."""
    for st in stmts:
        for x in ast.walk(st):
            if hasattr(x, 'lineno'):
                if not hasattr(x, '_src_lineno'):
                    x._src_lineno = x.lineno
                x.lineno = line + 0.9
    return stmts


def _assign_result(st, res):
    """`targets = <result of the inlined helper>`; a tuple result bound to
    a tuple of names is split into one assignment per name (an element that
    is the name itself is dropped), unless an element reads another
    target."""
    st.value = res
    if isinstance(st, ast.Assign) and len(st.targets) == 1 and isinstance(
            st.targets[0], ast.Tuple) and isinstance(res, ast.Tuple) and \
            len(res.elts) == len(st.targets[0].elts) and all(
                isinstance(t, ast.Name) for t in st.targets[0].elts):
        tn = [t.id for t in st.targets[0].elts]
        ok = True
        for t, r in zip(tn, res.elts):
            reads = {x.id for x in ast.walk(r) if isinstance(x, ast.Name)}
            if reads & (set(tn) - {t}) or (t in reads and not (
                    isinstance(r, ast.Name) and r.id == t)):
                ok = False
        if ok:
            out = []
            for t, r in zip(st.targets[0].elts, res.elts):
                if isinstance(r, ast.Name) and r.id == t.id:
                    continue
                a = ast.copy_location(ast.Assign([t], r), st)
                out.append(a)
            return out
    return [st]


def inline_new_helpers(tree, ref):
    """ref: {qualname: [locals]} of the reference module (or None: no-op)."""
    if ref is None:
        return tree
    new = {}
    modvars = module_names(tree)
    for q, fn, cls in qualnames(tree):
        if q.startswith('<'):
            continue
        # (a helper that works on module-level state is not a moved block of
        # its caller: it is left for the rules to see)
        if any(isinstance(x, ast.Name) and x.id in modvars
               for x in ast.walk(fn)):
            continue
        if q.split('#')[0] not in ref and q not in ref and _inlinable(
                fn, cls is not None):
            new[(cls.name if cls else None, fn.name)] = fn
    if not new:
        return tree
    counter = [0]

    def target(call, cls):
        f = call.func
        if isinstance(f, ast.Name) and (None, f.id) in new:
            return new[(None, f.id)], False
        if isinstance(f, ast.Attribute) and isinstance(f.value, ast.Name) \
                and f.value.id == 'self' and cls is not None and \
                (cls.name, f.attr) in new:
            return new[(cls.name, f.attr)], True
        return None

    def do_block(stmts, cls, caller_locals):
        out = []
        for st in stmts:
            for fld in ('body', 'orelse', 'finalbody'):
                if isinstance(getattr(st, fld, None), list) and not \
                        isinstance(st, (ast.FunctionDef, ast.ClassDef)):
                    setattr(st, fld, do_block(getattr(st, fld), cls,
                                              caller_locals))
            if isinstance(st, ast.Try):
                for h in st.handlers:
                    h.body = do_block(h.body, cls, caller_locals)
            call = None
            if isinstance(st, ast.Expr) and isinstance(st.value, ast.Call):
                call = st.value
            elif isinstance(st, (ast.Assign, ast.Return)) and isinstance(
                    st.value, ast.Call):
                call = st.value
            tg = target(call, cls) if call is not None else None
            if tg is not None:
                ex = _expand(tg[0], call, tg[1], caller_locals, counter, st)
                if ex is not None:
                    body, res = ex
                    if isinstance(st, ast.Expr):
                        out.extend(body)
                        continue
                    if res is not None:
                        out.extend(body)
                        out.extend(_after(_assign_result(st, res),
                                          call.lineno))
                        continue
            out.append(st)
        return out

    for q, fn, cls in qualnames(tree):
        if (cls.name if cls else None, fn.name) in new:
            continue
        fn.body = do_block(fn.body, cls, local_names(fn))
    # single-expression helpers inside expressions
    single = {k: f for k, f in new.items() if len(_body(f)) == 1 and
              isinstance(_body(f)[0], ast.Return) and _body(f)[0].value
              is not None}
    if single:
        class InExpr(ast.NodeTransformer):
            def __init__(self, cls):
                self.cls = cls

            def visit_Call(self, n):
                self.generic_visit(n)
                f = n.func
                key = None
                if isinstance(f, ast.Name):
                    key = (None, f.id)
                elif isinstance(f, ast.Attribute) and isinstance(
                        f.value, ast.Name) and f.value.id == 'self' and \
                        self.cls is not None:
                    key = (self.cls.name, f.attr)
                if key in single:
                    fn = single[key]
                    bind = _bind(fn, n, key[0] is not None)
                    if bind is not None and all(_simple(a) for a in
                                                bind.values()):
                        e = copy.deepcopy(_body(fn)[0].value)
                        e = _Subst(bind).visit(e)
                        return ast.copy_location(e, n)
                return n
        for q, fn, cls in qualnames(tree):
            if (cls.name if cls else None, fn.name) in new:
                continue
            InExpr(cls).visit(fn)
    ast.fix_missing_locations(tree)
    return tree


# --------------------------------------------------------------------------
# 2. propagate new temporaries
# --------------------------------------------------------------------------
def _reads(e):
    """(names, bases) an expression reads: local / global names and the text
    of attribute / subscript bases."""
    names, bases = set(), set()
    for n in ast.walk(e):
        if isinstance(n, ast.Name):
            names.add(n.id)
        elif isinstance(n, (ast.Attribute, ast.Subscript)):
            bases.add(ast.unparse(n.value))
            bases.add(ast.unparse(n))
    return names, bases


PURE_CALLS = {'len', 'abs', 'min', 'max', 'int', 'float', 'bool', 'str',
              'tuple', 'list', 'sorted', 'isinstance', 'getattr', 'hasattr',
              'range', 'zip', 'enumerate', 'round', 'sum', 'complex'}


# calls that return a VALUE (evaluating them twice gives equal results and
# nothing depends on the identity of what they return)
VALUE_CALLS = {'np.asarray', 'len', 'abs', 'float', 'int', 'bool', 'str',
               'getattr', 'np.real', 'np.imag', 'np.abs', 'np.sqrt',
               'isinstance', 'min', 'max', 'np.shape', 'np.ndim', 'np.size'}


def _pure(e):
    for n in ast.walk(e):
        if isinstance(n, ast.Call):
            f = ast.unparse(n.func)
            if f in PURE_CALLS:
                continue
            if f.startswith(('np.', 'sp.', 'math.')) and not f.startswith(
                    ('np.random', 'np.save', 'np.load')):
                continue
            return False
        if isinstance(n, (ast.Yield, ast.Await, ast.NamedExpr, ast.Lambda,
                          ast.ListComp, ast.SetComp, ast.DictComp,
                          ast.GeneratorExp)):
            return False
    return True


MUTATORS = {'append', 'extend', 'insert', 'pop', 'remove', 'clear', 'sort',
            'reverse', 'update', 'setdefault', 'popitem', 'add', 'discard',
            'fill', 'resize', 'put', 'itemset'}


def _stores(node):
    """Names and base texts a CFG node's own statement stores to (a call of
    a mutating method stores to the object it is invoked on)."""
    from .defuse import _stored_names
    names = set(_stored_names(node))
    bases = set()
    st = node.ast
    if st is None:
        return names, bases
    parts = []
    if node.kind == 'stmt':
        parts = [st]
    elif node.kind == 'test':
        parts = [st]
    elif node.kind == 'for':
        parts = [st.iter]
    elif node.kind == 'return' and getattr(st, 'value', None) is not None:
        parts = [st.value]
    for p in parts:
        for n in ast.walk(p):
            if isinstance(n, (ast.Attribute, ast.Subscript)) and isinstance(
                    n.ctx, (ast.Store, ast.Del)):
                bases.add(ast.unparse(n.value))
                bases.add(ast.unparse(n))
            elif isinstance(n, ast.Call):
                f = n.func
                if isinstance(f, ast.Attribute) and f.attr in MUTATORS:
                    bases.add(ast.unparse(f.value))
    return names, bases


def propagate_new_temps(tree, ref):
    if ref is None:
        return tree
    from .cfg import CFG, reaching_defs
    from .defuse import _own_expr, _loads
    from .report import AnalysisError
    for q, fn, cls in qualnames(tree):
        base = ref.get(q) or ref.get(q.split('#')[0])
        if base is None:
            continue
        cand = local_names(fn) - set(base)
        if not cand:
            continue
        # a new name whose bindings look exactly like those of a name that
        # vanished is that local under another name, not a new temporary
        gone = set(base) - local_names(fn)
        if gone:
            refd = (ref.get('<defs>', {}).get(q) or
                    ref.get('<defs>', {}).get(q.split('#')[0]) or {})
            nowd = def_skeletons(fn)
            old = [refd.get(g) for g in gone if refd.get(g)]
            cand = {c for c in cand if nowd.get(c) not in old}
            if not cand:
                continue
        try:
            cfg = CFG(fn)
        except AnalysisError:
            continue
        for t in sorted(cand):
            _propagate(fn, cfg, t)
            try:
                cfg = CFG(fn)
            except AnalysisError:
                break
    ast.fix_missing_locations(tree)
    return tree


def _between(cfg, d, n):
    """Nodes on some path from the binding d to the use n that does not pass
    d again -- the path may go through n (a loop), so a store AFTER the use
    that comes round to it again is seen."""
    import networkx as nx
    g = getattr(cfg, '_g_all', None)
    if g is None:
        g = cfg._g_all = cfg.graph()
    h = g.copy()
    h.remove_edges_from(list(h.in_edges(d)))
    fwd = nx.descendants(h, d)
    bwd = nx.ancestors(h, n) | {n}
    out = fwd & bwd
    # n itself counts if it can be reached again after it ran
    if n not in nx.descendants(h, n):
        out = out - {n}
    return out - {d}


def _propagate(fn, cfg, t):
    from .cfg import reaching_defs
    from .defuse import _own_expr, _loads, _stored_names
    defs = [n for n in cfg.nodes if n.ast is not None and
            t in _stored_names(n)]
    if not defs:
        return
    for d in defs:
        st = d.ast
        if not (d.kind == 'stmt' and isinstance(st, ast.Assign) and
                len(st.targets) == 1 and isinstance(st.targets[0], ast.Name)
                and st.targets[0].id == t and _pure(st.value)):
            return
        if t in {n.id for n in ast.walk(st.value) if isinstance(n, ast.Name)}:
            return
    # no use inside nested defs / lambdas / comprehensions (late binding)
    for n in ast.walk(fn):
        if isinstance(n, (ast.FunctionDef, ast.Lambda)) and n is not fn:
            if any(isinstance(x, ast.Name) and x.id == t
                   for x in ast.walk(n)):
                return
    dset = set(defs)
    reach = reaching_defs(cfg, t, lambda x: x in dset)
    plan = []        # (Name node, def node)
    for n in cfg.nodes:
        if n.ast is None or n.kind in ('def', 'handler'):
            continue
        for ld in _loads(_own_expr(n), {t}):
            if isinstance(ld.ctx, ast.Store):
                return                      # augmented assignment
            rd = reach.get(n, set())
            if len(rd) != 1 or None in rd:
                return
            d = next(iter(rd))
            names, bases = _reads(d.ast.value)
            between = _between(cfg, d, n)
            has_call = any(isinstance(x, ast.Call)
                           for x in ast.walk(d.ast.value))
            for m in between:
                if has_call and m.ast is not None and any(
                        isinstance(x, ast.Call) for p_ in _own_expr(m)
                        for x in ast.walk(p_)):
                    return          # would move a call past another call
                sn, sb = _stores(m)
                if sn & names or sb & bases or any(
                        b.split('.')[0].split('[')[0] in sn for b in bases):
                    return
            plan.append((ld, d))
    # also uses that _loads does not see (comprehension scopes): give up if
    # the name occurs anywhere else
    planned = {id(ld) for ld, _ in plan}
    for n in ast.walk(fn):
        if isinstance(n, ast.Name) and n.id == t and isinstance(
                n.ctx, ast.Load) and id(n) not in planned:
            return
    if not plan:
        return
    # an expression with a call is evaluated once: it may replace one use
    # only (a second evaluation could create a second object)
    uses = {}
    for ld, d in plan:
        uses[d] = uses.get(d, 0) + 1
    for d, k in uses.items():
        if k > 1 and any(isinstance(x, ast.Call) and ast.unparse(x.func)
                         not in VALUE_CALLS for x in ast.walk(d.ast.value)):
            return
    # (a value that is changed in place afterwards is an object, not a value)
    for n in ast.walk(fn):
        if isinstance(n, (ast.Subscript, ast.Attribute)) and isinstance(
                n.ctx, (ast.Store, ast.Del)) and isinstance(
                    n.value, ast.Name) and n.value.id == t:
            return
        if isinstance(n, ast.Call) and isinstance(n.func, ast.Attribute) \
                and n.func.attr in MUTATORS and isinstance(
                    n.func.value, ast.Name) and n.func.value.id == t:
            return
    repl = {id(ld): d.ast.value for ld, d in plan}

    class R(ast.NodeTransformer):
        def visit_Name(self, n):
            if id(n) in repl:
                return ast.copy_location(copy.deepcopy(repl[id(n)]), n)
            return n
    drop = {id(d.ast) for d in defs}

    def clean(stmts):
        out = []
        for st in stmts:
            if id(st) in drop:
                continue
            for fld in ('body', 'orelse', 'finalbody'):
                if isinstance(getattr(st, fld, None), list) and not \
                        isinstance(st, (ast.FunctionDef, ast.ClassDef)):
                    new = clean(getattr(st, fld))
                    if fld == 'body' and not new:
                        new = [ast.copy_location(ast.Pass(), st)]
                    setattr(st, fld, new)
            if isinstance(st, ast.Try):
                for h in st.handlers:
                    h.body = clean(h.body) or [ast.Pass()]
            out.append(st)
        return out
    R().visit(fn)
    fn.body = clean(fn.body)


# --------------------------------------------------------------------------
# 3. specialise new parameters to their default
# --------------------------------------------------------------------------
class _Fold(ast.NodeTransformer):
    """Constant-fold tests after a parameter was replaced by a constant."""

    @staticmethod
    def const(e):
        if isinstance(e, ast.Constant):
            return True, e.value
        if isinstance(e, ast.UnaryOp) and isinstance(e.op, ast.Not):
            ok, v = _Fold.const(e.operand)
            if ok:
                return True, not v
        if isinstance(e, ast.Compare) and len(e.ops) == 1 and isinstance(
                e.left, ast.Constant) and isinstance(
                    e.comparators[0], ast.Constant):
            a, b, op = e.left.value, e.comparators[0].value, e.ops[0]
            try:
                if isinstance(op, ast.Is):
                    return True, a is b
                if isinstance(op, ast.IsNot):
                    return True, a is not b
                if isinstance(op, ast.Eq):
                    return True, a == b
                if isinstance(op, ast.NotEq):
                    return True, a != b
                if isinstance(op, ast.Lt):
                    return True, a < b
                if isinstance(op, ast.LtE):
                    return True, a <= b
            except TypeError:
                pass
        return False, None

    def visit_BoolOp(self, n):
        self.generic_visit(n)
        vals = []
        for v in n.values:
            ok, c = self.const(v)
            if ok:
                if isinstance(n.op, ast.And):
                    if not c:
                        return ast.copy_location(ast.Constant(False), n)
                    continue
                if c:
                    return ast.copy_location(ast.Constant(True), n)
                continue
            vals.append(v)
        if not vals:
            return ast.copy_location(ast.Constant(
                isinstance(n.op, ast.And)), n)
        if len(vals) == 1:
            return vals[0]
        n.values = vals
        return n

    def visit_IfExp(self, n):
        self.generic_visit(n)
        ok, c = self.const(n.test)
        if ok:
            return n.body if c else n.orelse
        return n

    def visit_If(self, n):
        self.generic_visit(n)
        ok, c = self.const(n.test)
        if ok:
            return (n.body if c else n.orelse) or [
                ast.copy_location(ast.Pass(), n)]
        return n

    def visit_Assert(self, n):
        return n


def specialise_new_params(tree, ref):
    """A parameter that the reference function does not have and that has a
    constant default is an option the rest of the package does not use: the
    function is analysed for the default (the parameter is replaced by the
    constant, tests on it are folded).  Not done if the function re-binds
    the parameter or any call in the module passes it."""
    if ref is None:
        return tree
    def calls_passing(fn, pname, index):
        """Does a call of `fn` somewhere in the module hand over a value for
        the parameter (other than the function handing its own parameter on
        to itself in a recursion)?"""
        inside = {id(x) for x in ast.walk(fn)}
        for n in ast.walk(tree):
            if not isinstance(n, ast.Call):
                continue
            f = n.func
            nm = f.id if isinstance(f, ast.Name) else (
                f.attr if isinstance(f, ast.Attribute) else None)
            if nm != fn.name:
                continue
            vals = [k.value for k in n.keywords if k.arg == pname]
            if index is not None and len(n.args) > index:
                vals.append(n.args[index])
            if any(isinstance(a, ast.Starred) for a in n.args) or any(
                    k.arg is None for k in n.keywords):
                return True
            for v in vals:
                if id(n) in inside and isinstance(v, ast.Name) and \
                        v.id == pname:
                    continue
                return True
        return False
    for q, fn, cls in qualnames(tree):
        base = ref.get(q) or ref.get(q.split('#')[0])
        if base is None:
            continue
        a = fn.args
        pos = a.args[len(a.args) - len(a.defaults):]
        cands = [(p, d) for p, d in zip(pos, a.defaults)] + [
            (p, d) for p, d in zip(a.kwonlyargs, a.kw_defaults)
            if d is not None]
        # only TRAILING new positional parameters (no positional call of the
        # reference signature can reach them)
        npos = len(a.args)
        for p, d in cands:
            if p.arg in base or not isinstance(d, ast.Constant):
                continue
            idx = None
            if p in a.args:
                idx = a.args.index(p) - (1 if cls is not None and a.args and
                                         a.args[0].arg in ('self', 'cls')
                                         else 0)
            if calls_passing(fn, p.arg, idx):
                continue
            if p in a.args and any(x.arg in base for x in
                                   a.args[a.args.index(p):]):
                continue
            if any(isinstance(x, ast.Name) and x.id == p.arg and isinstance(
                    x.ctx, (ast.Store, ast.Del)) for x in ast.walk(fn)):
                continue
            fn.body = [_Subst({p.arg: d}).visit(st) for st in fn.body]
            # the recursion no longer hands the option on
            for n in ast.walk(fn):
                if isinstance(n, ast.Call):
                    f = n.func
                    nm = f.id if isinstance(f, ast.Name) else (
                        f.attr if isinstance(f, ast.Attribute) else None)
                    if nm == fn.name:
                        n.keywords = [k for k in n.keywords
                                      if k.arg != p.arg]
                        if idx is not None and len(n.args) == idx + 1:
                            n.args = n.args[:idx]
            new = []
            for st in fn.body:
                r = _Fold().visit(st)
                new.extend(r if isinstance(r, list) else [r])
            fn.body = new
    ast.fix_missing_locations(tree)
    return tree


def _scalar_const(e):
    """Arithmetic over number literals and numpy's scalar constants
    (`np.nan + 1j*np.nan`, `2*np.pi`): an immutable scalar."""
    if isinstance(e, ast.Constant):
        return isinstance(e.value, (int, float, complex)) and not isinstance(
            e.value, bool)
    if isinstance(e, ast.Attribute):
        return isinstance(e.value, ast.Name) and e.value.id in (
            'np', 'numpy', 'math') and e.attr in ('nan', 'inf', 'pi', 'e',
                                                  'NaN', 'Inf')
    if isinstance(e, ast.BinOp):
        return isinstance(e.op, (ast.Add, ast.Sub, ast.Mult, ast.Div,
                                 ast.Pow)) and _scalar_const(
            e.left) and _scalar_const(e.right)
    if isinstance(e, ast.UnaryOp):
        return isinstance(e.op, (ast.USub, ast.UAdd)) and _scalar_const(
            e.operand)
    return False


def fold_new_module_constants(tree, ref):
    """A module-level name that the reference module does not have, bound
    once to a constant (a switch such as `_DEBUG = False`), is replaced by
    the constant inside the functions, and tests on it are folded."""
    if ref is None or '<module>' not in ref:
        return tree
    consts, count = {}, {}
    for st in tree.body:
        if isinstance(st, ast.Assign) and len(st.targets) == 1 and \
                isinstance(st.targets[0], ast.Name):
            nm = st.targets[0].id
            count[nm] = count.get(nm, 0) + 1
            if _scalar_const(st.value):
                consts[nm] = st.value
            elif isinstance(st.value, ast.Constant) or (
                    isinstance(st.value, (ast.Tuple, ast.List, ast.Set,
                                          ast.Dict)) and all(
                        isinstance(x, (ast.Constant, ast.Tuple, ast.List,
                                       ast.Set, ast.Dict, ast.Load,
                                       ast.UnaryOp, ast.USub))
                        for x in ast.walk(st.value))):
                consts[nm] = st.value
    new = {k: v for k, v in consts.items()
           if k not in ref['<module>'] and count[k] == 1}
    for n in ast.walk(tree):
        if isinstance(n, ast.Global):
            for nm in n.names:
                new.pop(nm, None)
        # a container that is written to is state, not a constant
        if isinstance(n, ast.Subscript) and isinstance(
                n.ctx, (ast.Store, ast.Del)) and isinstance(
                    n.value, ast.Name):
            new.pop(n.value.id, None)
        if isinstance(n, ast.Call) and isinstance(n.func, ast.Attribute) \
                and n.func.attr in MUTATORS and isinstance(
                    n.func.value, ast.Name):
            new.pop(n.func.value.id, None)
        if isinstance(n, ast.AugAssign) and isinstance(n.target, ast.Name):
            new.pop(n.target.id, None)
    new = {k: v for k, v in new.items() if not (
        isinstance(v, (ast.List, ast.Set, ast.Dict, ast.Tuple)) and
        not (v.keys if isinstance(v, ast.Dict) else v.elts))}
    if not new:
        return tree
    for q, fn, cls in qualnames(tree):
        loc = local_names(fn)
        m = {k: v for k, v in new.items() if k not in loc}
        if not m or not any(isinstance(x, ast.Name) and x.id in m
                            for x in ast.walk(fn)):
            continue
        fn.body = [_Subst(m).visit(st) for st in fn.body]
        out = []
        for st in fn.body:
            r = _Fold().visit(st)
            out.extend(r if isinstance(r, list) else [r])
        fn.body = out
    ast.fix_missing_locations(tree)
    return tree


def merge_list_appends(tree, ref):
    """`t = [a, b]` directly followed by `t.append(c)` statements, t a new
    local: the literal is completed and the appends are dropped."""
    if ref is None:
        return tree

    def do(stmts, new):
        i = 0
        while i < len(stmts):
            st = stmts[i]
            for fld in ('body', 'orelse', 'finalbody'):
                v = getattr(st, fld, None)
                if isinstance(v, list) and v and isinstance(v[0], ast.stmt) \
                        and not isinstance(st, (ast.FunctionDef,
                                                ast.ClassDef)):
                    do(v, new)
            if isinstance(st, ast.Assign) and len(st.targets) == 1 and \
                    isinstance(st.targets[0], ast.Name) and \
                    st.targets[0].id in new and isinstance(st.value,
                                                           ast.List):
                t = st.targets[0].id
                while i + 1 < len(stmts):
                    nx = stmts[i + 1]
                    if isinstance(nx, ast.Expr) and isinstance(
                            nx.value, ast.Call) and isinstance(
                                nx.value.func, ast.Attribute) and \
                            nx.value.func.attr == 'append' and isinstance(
                                nx.value.func.value, ast.Name) and \
                            nx.value.func.value.id == t and len(
                                nx.value.args) == 1 and not any(
                                    isinstance(x, ast.Name) and x.id == t
                                    for x in ast.walk(nx.value.args[0])):
                        st.value.elts.append(nx.value.args[0])
                        del stmts[i + 1]
                    else:
                        break
            i += 1
    for q, fn, cls in qualnames(tree):
        base = ref.get(q) or ref.get(q.split('#')[0])
        if base is None:
            continue
        new = local_names(fn) - set(base)
        if new:
            do(fn.body, new)
    return tree


def fold_new_class_constants(tree, ref):
    """A class attribute that the reference class does not have, bound once
    in the class body to a literal (tuple / list of constants, a string, a
    number) and never stored to, is replaced by the literal where the
    methods read it as `self.X` / `cls.X` / `Class.X`."""
    if ref is None or '<attrs>' not in ref:
        return tree
    for c in tree.body:
        if not isinstance(c, ast.ClassDef):
            continue
        known_cls = set()
        for q in ref:
            if q.startswith(c.name + '.'):
                known_cls.add(q)
        if not known_cls:
            continue
        lits = {}
        for st in c.body:
            if isinstance(st, ast.Assign) and len(st.targets) == 1 and \
                    isinstance(st.targets[0], ast.Name) and all(
                        isinstance(x, (ast.Constant, ast.Tuple, ast.List,
                                       ast.Load, ast.Set, ast.Dict))
                        for x in ast.walk(st.value)):
                lits[st.targets[0].id] = st.value
        # reference class-level names are not listed separately: a name is
        # new if no method of the reference class knows it as an attribute
        # and it is private
        new = {k: v for k, v in lits.items() if k.startswith('_') and
               k not in set(ref['<attrs>'].get(c.name, [])) and
               k not in ref.get('<classattrs>', {}).get(c.name, [])}
        if not new:
            continue
        stored = set()
        for n in ast.walk(c):
            if isinstance(n, ast.Attribute) and isinstance(
                    n.ctx, (ast.Store, ast.Del)) and n.attr in new:
                stored.add(n.attr)
        new = {k: v for k, v in new.items() if k not in stored}

        class R(ast.NodeTransformer):
            def visit_Attribute(self, n):
                self.generic_visit(n)
                if isinstance(n.ctx, ast.Load) and n.attr in new and \
                        isinstance(n.value, ast.Name) and n.value.id in (
                            'self', 'cls', c.name):
                    return ast.copy_location(copy.deepcopy(new[n.attr]), n)
                return n
        for m in c.body:
            if isinstance(m, ast.FunctionDef):
                R().visit(m)
    ast.fix_missing_locations(tree)
    return tree


def inline_new_nested(tree, ref):
    """A function defined INSIDE a known function under a name that function
    did not have (a new local closure), simple enough to be inlined, is
    inlined at its statement-level call sites in that function."""
    if ref is None:
        return tree
    counter = [1000]
    for q, fn, cls in qualnames(tree):
        base = ref.get(q) or ref.get(q.split('#')[0])
        if base is None:
            continue
        nested = [n for n in fn.body if isinstance(n, ast.FunctionDef) and
                  n.name not in base and _inlinable(n, False)]
        if not nested:
            continue
        byname = {n.name: n for n in nested}
        loc = local_names(fn)

        def do_block(stmts):
            out = []
            for st in stmts:
                if isinstance(st, ast.FunctionDef):
                    out.append(st)
                    continue
                for fld in ('body', 'orelse', 'finalbody'):
                    v = getattr(st, fld, None)
                    if isinstance(v, list) and v and isinstance(
                            v[0], ast.stmt):
                        setattr(st, fld, do_block(v))
                for h in getattr(st, 'handlers', []) or []:
                    h.body = do_block(h.body)
                call = None
                if isinstance(st, ast.Expr) and isinstance(st.value,
                                                           ast.Call):
                    call = st.value
                elif isinstance(st, (ast.Assign, ast.Return)) and \
                        isinstance(st.value, ast.Call):
                    call = st.value
                if call is not None and isinstance(call.func, ast.Name) \
                        and call.func.id in byname:
                    ex = _expand(byname[call.func.id], call, False, loc,
                                 counter, st)
                    if ex is not None:
                        body, res = ex
                        if isinstance(st, ast.Expr):
                            out.extend(body)
                            continue
                        if res is not None:
                            out.extend(body)
                            out.extend(_after(_assign_result(st, res),
                                              call.lineno))
                            continue
                out.append(st)
            return out
        fn.body = do_block(fn.body)
    ast.fix_missing_locations(tree)
    return tree


def normalise(tree, rel):
    ref = known().get(rel)
    if ref is None:
        return tree
    fold_new_module_constants(tree, ref)
    fold_new_class_constants(tree, ref)
    specialise_new_params(tree, ref)
    inline_new_helpers(tree, ref)
    inline_new_nested(tree, ref)
    merge_list_appends(tree, ref)
    propagate_new_temps(tree, ref)
    return tree
