"""AST templates with metavariables (rename- and commutation-tolerant match).

A template is Python source in which names of the form `_x_` are
metavariables: each matches any expression, consistently within one match
(two occurrences must bind to the same source text).  `__` matches anything
without binding.  `+`, `*`, `&`, `|` and `and`/`or` are matched modulo
associativity and commutativity; keyword arguments modulo order; numeric
constants by value (2 == 2.0).  Used instead of comparing statement text, so
that renaming a local or swapping commutative operands does not fire a rule.
"""
import ast
import itertools

from .canon import canon, negate

AC_OPS = (ast.Add, ast.Mult, ast.BitAnd, ast.BitOr)


def is_meta(n):
    return isinstance(n, ast.Name) and len(n.id) >= 3 and \
        n.id.startswith('_') and n.id.endswith('_') and n.id != '__'


def is_any(n):
    return isinstance(n, ast.Name) and n.id == '__'


def parse(src):
    tree = canon(ast.parse(src.strip()))
    if len(tree.body) == 1 and isinstance(tree.body[0], ast.Expr):
        return tree.body[0].value
    if len(tree.body) == 1:
        return tree.body[0]
    return tree.body


def flatten(n, op):
    if isinstance(n, ast.BinOp) and isinstance(n.op, op):
        return flatten(n.left, op) + flatten(n.right, op)
    return [n]


def match(p, n, b):
    """Match pattern node p against node n; b: dict of bindings (mutated)."""
    if is_any(p):
        return True
    if is_meta(p):
        txt = ast.unparse(n) if isinstance(n, ast.AST) else repr(n)
        if p.id in b:
            return b[p.id] == txt
        b[p.id] = txt
        return True
    if isinstance(p, list):
        if not isinstance(n, list) or len(p) != len(n):
            return False
        return all(match(x, y, b) for x, y in zip(p, n))
    if isinstance(p, ast.Constant):
        if not isinstance(n, ast.Constant):
            return False
        if isinstance(p.value, (int, float)) and isinstance(
                n.value, (int, float)) and not isinstance(
                    p.value, bool) and not isinstance(n.value, bool):
            return p.value == n.value
        return p.value == n.value and type(p.value) is type(n.value)
    if type(p) is not type(n):
        return False
    if isinstance(p, ast.BinOp) and isinstance(p.op, AC_OPS):
        if type(p.op) is not type(n.op):
            return False
        ps, ns = flatten(p, type(p.op)), flatten(n, type(n.op))
        wild = [x for x in ps if is_any(x)]
        if wild:
            # `__` absorbs the operands not matched by the other patterns
            rest = [x for x in ps if not is_any(x)]
            if len(ns) < len(rest) + 1:
                return False
            for sel in itertools.permutations(range(len(ns)), len(rest)):
                bb = dict(b)
                if all(match(x, ns[i], bb) for x, i in zip(rest, sel)):
                    b.clear()
                    b.update(bb)
                    return True
            return False
        if len(ps) != len(ns):
            return False
        if len(ps) > 6:
            return all(match(x, y, b) for x, y in zip(ps, ns))
        for perm in itertools.permutations(ns):
            bb = dict(b)
            if all(match(x, y, bb) for x, y in zip(ps, perm)):
                b.clear()
                b.update(bb)
                return True
        return False
    if isinstance(p, ast.If) and not p.orelse and n.orelse and not (
            len(n.orelse) == 1 and isinstance(n.orelse[0], ast.If)):
        # template without else: `if T: A` also matches `if not T: .. else: A`
        bb = dict(b)
        if match(p.test, n.test, bb) and match(p.body, n.body, bb):
            b.clear()
            b.update(bb)
            return True
        bb = dict(b)
        if match(negate(p.test), n.test, bb) and match(p.body, n.orelse, bb):
            b.clear()
            b.update(bb)
            return True
        return False
    if isinstance(p, ast.Compare) and len(p.ops) == 1 and isinstance(
            p.ops[0], (ast.Eq, ast.NotEq)) and len(n.ops) == 1 and \
            type(p.ops[0]) is type(n.ops[0]):
        for x, y in ((n.left, n.comparators[0]), (n.comparators[0], n.left)):
            bb = dict(b)
            if match(p.left, x, bb) and match(p.comparators[0], y, bb):
                b.clear()
                b.update(bb)
                return True
        return False
    if isinstance(p, ast.BoolOp):
        if type(p.op) is not type(n.op) or len(p.values) != len(n.values):
            return False
        for perm in itertools.permutations(n.values):
            bb = dict(b)
            if all(match(x, y, bb) for x, y in zip(p.values, perm)):
                b.clear()
                b.update(bb)
                return True
        return False
    if isinstance(p, ast.Dict) and len(p.keys) == len(n.keys) and all(
            isinstance(k, ast.Constant) for k in p.keys) and all(
            isinstance(k, ast.Constant) for k in n.keys):
        # dictionary display with constant keys: modulo the order of entries
        pk = {k.value: v for k, v in zip(p.keys, p.values)}
        nk = {k.value: v for k, v in zip(n.keys, n.values)}
        if len(pk) != len(p.keys) or set(pk) != set(nk):
            return False
        return all(match(pk[k], nk[k], b) for k in pk)
    if isinstance(p, ast.Call):
        if not match(p.func, n.func, b) or len(p.args) != len(n.args):
            return False
        if not all(match(x, y, b) for x, y in zip(p.args, n.args)):
            return False
        pk = {k.arg: k.value for k in p.keywords}
        nk = {k.arg: k.value for k in n.keywords}
        if set(pk) != set(nk):
            return False
        return all(match(pk[k], nk[k], b) for k in pk)
    for f in p._fields:
        if f in ('ctx', 'type_comment', 'kind', 'lineno'):
            continue
        pv, nv = getattr(p, f, None), getattr(n, f, None)
        if isinstance(pv, list) and len(pv) == 1 and isinstance(
                pv[0], ast.Expr) and is_any(pv[0].value):
            continue                      # `__` as a whole block
        if isinstance(p, ast.If) and f == 'orelse' and not pv:
            continue                      # template without else: any else
        if isinstance(pv, ast.AST) or isinstance(pv, list):
            if isinstance(pv, list):
                if not isinstance(nv, list) or len(pv) != len(nv):
                    return False
                for x, y in zip(pv, nv):
                    if isinstance(x, ast.AST):
                        if not match(x, y, b):
                            return False
                    elif x != y:
                        return False
            elif not isinstance(nv, ast.AST) or not match(pv, nv, b):
                return False
        else:
            if isinstance(p, ast.Name) and f == 'id':
                if pv != nv:
                    return False
            elif pv != nv:
                return False
    return True


# discovery aid (tools/guard_audit.py): statements matched by templates
AUDIT = None


def _blocks(st):
    out = []
    for fld in ('body', 'orelse', 'finalbody'):
        v = getattr(st, fld, None)
        if isinstance(v, list) and v and isinstance(v[0], ast.stmt):
            out.append((st, fld))
    return out


def collapse(node):
    """Copy of a compound statement in which every temporary that is bound by
    a plain `t = E` and read exactly once, in the very next statement of the
    same block (and nowhere else in the statement), is replaced by E.  Applied
    to a template and to the code alike, it makes a multi-statement template
    independent of how many such temporaries the code uses."""
    from .astutil import clone
    node = clone(node)

    def reads(root, name):
        return [x for x in ast.walk(root) if isinstance(x, ast.Name) and
                x.id == name and isinstance(x.ctx, ast.Load)]

    def do(stmts, outer):
        changed = True
        while changed:
            changed = False
            for i, st in enumerate(stmts[:-1]):
                if not (isinstance(st, ast.Assign) and len(st.targets) == 1
                        and isinstance(st.targets[0], ast.Name)):
                    continue
                t = st.targets[0].id
                if t == '__':
                    continue
                nxt = stmts[i + 1]
                here = reads(nxt, t)
                total = sum(len(reads(s_, t)) for s_ in outer)
                if len(here) != 1 or total != 1:
                    continue
                if sum(1 for s_ in outer for x in ast.walk(s_)
                       if isinstance(x, ast.Name) and x.id == t and
                       isinstance(x.ctx, ast.Store)) != 1:
                    continue
                target = here[0]

                class R(ast.NodeTransformer):
                    def visit_Name(self, n):
                        if n is target:
                            return st.value
                        return n
                stmts[i + 1] = R().visit(nxt)
                del stmts[i]
                changed = True
                break
        for st in stmts:
            for owner, fld in _blocks(st):
                do(getattr(owner, fld), outer)

    for owner, fld in _blocks(node):
        do(getattr(owner, fld), [node])
    return node


_COLLAPSED = {}


def find(pattern, root, bindings=None):
    """All (node, binding) in `root` matching the template source."""
    p = parse(pattern) if isinstance(pattern, str) else pattern
    out = []
    nodes = list(ast.walk(root)) if isinstance(root, ast.AST) else \
        list(itertools.chain.from_iterable(ast.walk(r) for r in root))
    for n in nodes:
        if isinstance(p, ast.stmt) != isinstance(n, ast.stmt):
            continue
        b = dict(bindings or {})
        if match(p, n, b):
            out.append((n, b))
            if AUDIT is not None and isinstance(n, ast.stmt):
                AUDIT.append((pattern if isinstance(pattern, str) else '?',
                              n))
    if not out and isinstance(p, ast.stmt) and any(
            len(getattr(o, f)) > 1 for o, f in _blocks(p)):
        # multi-statement template: compare modulo single-use temporaries
        pc = collapse(p)
        for n in nodes:
            if type(n) is not type(p):
                continue
            if id(n) not in _COLLAPSED:
                _COLLAPSED[id(n)] = (n, collapse(n))
            b = dict(bindings or {})
            if match(pc, _COLLAPSED[id(n)][1], b):
                out.append((n, b))
                if AUDIT is not None:
                    AUDIT.append((pattern if isinstance(pattern, str)
                                  else '?', n))
    return out


def has(pattern, root, bindings=None):
    return bool(find(pattern, root, bindings))


def require(ctx, rule, construct, pattern, root, message, where=None,
            bindings=None, sample=None):
    """ctx.check that `root` contains a match of the template; returns the
    binding of the first match (or None)."""
    found = find(pattern, root, bindings)
    ctx.check(rule, construct, bool(found), message, where, sample=sample)
    return found[0][1] if found else None


def same(pattern, node, bindings=None):
    """Does `node` itself (not a sub-node) match the template?  Returns the
    binding or None."""
    p = parse(pattern) if isinstance(pattern, str) else pattern
    b = dict(bindings or {})
    return b if match(p, node, b) else None
