"""Reference finite-integration operator, built mechanically by the checker.

    A_ref = Curl^T  M_face(zeta)  Curl  -  M_edge(eta)

* Curl: forward differences on the staggered grid,
      B_a(q) = D_b E_c (q) - D_c E_b (q),   (a, b, c) cyclic,
      D_b f (q) = (f(q + e_b) - f(q)) / h_b(q_b)
* M_face_a(q) = 1/2 (zeta(q - e_a) + zeta(q))       two-cell face averaging
* M_edge_a(p) = 1/4 sum of eta_a over the four cells around the edge
* The transpose is NOT typed in: the row of edge (a, p) is assembled by
  scanning all faces of a neighbourhood and reading the coefficient of
  E_a(p) off the symbolic curl of that face.

Cells and atoms use the same keys as the interpreter, so rows can be compared
as polynomial identities.
"""
import itertools

from .alg import Aff, Lin, Rat, idx_key, Fr

HALF = Lin.num(Fr(1, 2))
QUART = Lin.num(Fr(1, 4))


class RefOp:
    def __init__(self, fields=('ex', 'ey', 'ez'), widths=('hx', 'hy', 'hz'),
                 etas=('eta_x', 'eta_y', 'eta_z'), zeta='zeta'):
        self.fields, self.widths, self.etas, self.zeta = \
            fields, widths, etas, zeta

    # -- atoms -----------------------------------------------------------------
    def h(self, a, j):
        return Lin.coef(Rat.atom((self.widths[a], idx_key((j,)))))

    def E(self, a, p):
        return Lin.cell((self.fields[a], idx_key(p)))

    def Z(self, p):
        return Lin.coef(Rat.atom((self.zeta, idx_key(p))))

    def eta(self, a, p):
        return Lin.coef(Rat.atom((self.etas[a], idx_key(p))))

    @staticmethod
    def sh(p, a, d):
        q = list(p)
        q[a] = q[a] + d
        return tuple(q)

    # -- operator ----------------------------------------------------------------
    def curl(self, a, q, E=None):
        E = E or self.E
        b, c = (a + 1) % 3, (a + 2) % 3
        return ((E(c, self.sh(q, b, 1)) - E(c, q)) / self.h(b, q[b])
                - (E(b, self.sh(q, c, 1)) - E(b, q)) / self.h(c, q[c]))

    def mface(self, a, q):
        return (self.Z(self.sh(q, a, -1)) + self.Z(q)) * HALF

    def medge(self, a, p):
        b, c = (a + 1) % 3, (a + 2) % 3
        pb, pc = self.sh(p, b, -1), self.sh(p, c, -1)
        return (self.eta(a, p) + self.eta(a, pb) + self.eta(a, pc)
                + self.eta(a, self.sh(pb, c, -1))) * QUART

    def curlcurl_row(self, a, p):
        """Row of Curl^T M_face Curl for edge (a, p): mechanical transpose."""
        me = (self.fields[a], idx_key(p))
        row = Lin()
        for b in range(3):
            for off in itertools.product((-1, 0, 1), repeat=3):
                q = tuple(p[i] + off[i] for i in range(3))
                B = self.curl(b, q)
                c = B.coef_of(me)
                if c.iszero():
                    continue
                row = row + B * self.mface(b, q) * Lin.coef(c)
        return row

    def row(self, a, p):
        return self.curlcurl_row(a, p) - self.E(a, p) * self.medge(a, p)

    # -- self checks of the oracle -------------------------------------------------
    def selfcheck(self, syms=('ix', 'iy', 'iz')):
        """Symmetry of A_ref and Curl(Grad) = 0 on a symbolic patch."""
        p0 = tuple(Aff.sym(s) for s in syms)
        problems = []
        # symmetry: coef of E_b(q) in row(a,p) == coef of E_a(p) in row(b,q)
        n = 0
        for a in range(3):
            ra = self.row(a, p0)
            for (fname, ik), c in ra.terms.items():
                b = self.fields.index(fname)
                q = tuple(Aff.from_key(k) for k in ik)
                rb = self.row(b, q)
                c2 = rb.coef_of((self.fields[a], idx_key(p0)))
                n += 1
                if not c == c2:
                    problems.append(f'A_ref not symmetric at {fname}{ik}')
        # curl grad = 0
        def gradE(a, p):
            phi = lambda pp: Lin.cell(('phi', idx_key(pp)))
            return (phi(self.sh(p, a, 1)) - phi(p)) / self.h(a, p[a])
        for a in range(3):
            if not self.curl(a, p0, gradE).iszero():
                problems.append(f'Curl(Grad) != 0 for component {a}')
        return n, problems
