"""Roles and shapes of the parameters of emg3d's jitted kernels (by position).

Shapes follow emg3d.fields.Field: an x-directed edge array has shape
(cells_x, nodes_y, nodes_z) etc.; cell arrays (cells_x, cells_y, cells_z);
widths (cells_a,).  nodes = cells + 1.  Names are taken from the signature of
the function as it is in /repo, so renaming parameters is harmless.
"""
from ..core.report import AnalysisError
from ..core.astutil import params
from .alg import Aff
from .interp import Interp

NX, NY, NZ = Aff.sym('nx'), Aff.sym('ny'), Aff.sym('nz')
EX = (NX, NY + 1, NZ + 1)
EY = (NX + 1, NY, NZ + 1)
EZ = (NX + 1, NY + 1, NZ)
CC = (NX, NY, NZ)
F, C = 'field', 'coef'

COMMON_TAIL = [(C, CC), (C, CC), (C, CC), (C, CC), (C, (NX,)), (C, (NY,)),
               (C, (NZ,))]

ROLES = {
    'amat_x': [(F, EX), (F, EY), (F, EZ), (F, EX), (F, EY), (F, EZ)]
    + COMMON_TAIL,
    'gauss_seidel': [(F, EX), (F, EY), (F, EZ), (F, EX), (F, EY), (F, EZ)]
    + COMMON_TAIL + [('scalar', Aff.sym('nu'))],
    '_edge_curl_factor': [(F, (NX + 1, NY, NZ)), (F, (NX, NY + 1, NZ)),
                          (F, (NX, NY, NZ + 1)), (F, EX), (F, EY), (F, EZ),
                          (C, (NX,)), (C, (NY,)), (C, (NZ,)), (C, CC)],
    'interp_edges_to_vol_averages': [(F, EX), (F, EY), (F, EZ), (C, CC),
                                     (F, CC), (F, CC), (F, CC)],
}
for _k in ('gauss_seidel_x', 'gauss_seidel_y', 'gauss_seidel_z'):
    ROLES[_k] = ROLES['gauss_seidel']

DIMS = {'nx': 2, 'ny': 2, 'nz': 2, 'nu': 1}


def kernel_params(fn, roles, ctx_name):
    names = params(fn)
    if len(names) != len(roles):
        raise AnalysisError(
            f'anchor vanished: {ctx_name} has {len(names)} parameters, the '
            f'role table expects {len(roles)}')
    return names, dict(zip(names, roles))


def interpret(mod, fname, roles=None, dims=None, opaque=('solve',),
              scalars=None):
    fn = mod.func(fname)
    names, pr = kernel_params(fn, roles or ROLES[fname], fname)
    it = Interp(mod.tree, fname, pr, dims or DIMS, scalars=scalars,
                opaque=opaque, relname=mod.rel)
    it.run()
    it.pnames = names
    return it
