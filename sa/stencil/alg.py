"""Exact algebra for the stencil interpreter.

Aff   integer-affine index expressions  c + sum k_s * s   (s: loop/dimension symbols)
Poly  multivariate polynomials with Fraction coefficients over hashable atoms
Rat   quotients of Poly (equality by cross-multiplication)
Lin   affine forms  sum coef[cell] * cell + c  with Rat coefficients
"""
from fractions import Fraction as Fr


# ---------------------------------------------------------------------------
class Aff:
    __slots__ = ('c', 't')

    def __init__(self, c=0, t=None):
        self.c = Fr(c)
        self.t = {k: Fr(v) for k, v in (t or {}).items() if v != 0}

    @staticmethod
    def sym(s):
        return Aff(0, {s: 1})

    @staticmethod
    def of(x):
        if isinstance(x, Aff):
            return x
        return Aff(x)

    def __add__(self, o):
        o = Aff.of(o)
        t = dict(self.t)
        for k, v in o.t.items():
            t[k] = t.get(k, 0) + v
        return Aff(self.c + o.c, t)
    __radd__ = __add__

    def __neg__(self):
        return Aff(-self.c, {k: -v for k, v in self.t.items()})

    def __sub__(self, o):
        return self + (-Aff.of(o))

    def __rsub__(self, o):
        return Aff.of(o) - self

    def __mul__(self, o):
        o = Aff.of(o)
        if not o.t:
            return Aff(self.c * o.c, {k: v * o.c for k, v in self.t.items()})
        if not self.t:
            return o * self
        raise ValueError('non-affine index product')
    __rmul__ = __mul__

    def is_const(self):
        return not self.t

    def const(self):
        if self.t:
            raise ValueError(f'index {self} is not constant')
        return self.c

    def int(self):
        c = self.const()
        if c.denominator != 1:
            raise ValueError(f'non-integer index {c}')
        return int(c)

    def subs(self, m):
        """Substitute symbols by Aff values (dict sym -> Aff)."""
        r = Aff(self.c)
        for k, v in self.t.items():
            r = r + (Aff.of(m[k]) * v if k in m else Aff(0, {k: v}))
        return r

    def syms(self):
        return set(self.t)

    def key(self):
        return (self.c, tuple(sorted(self.t.items())))

    @staticmethod
    def from_key(k):
        return Aff(k[0], dict(k[1]))

    def __eq__(self, o):
        o = Aff.of(o)
        return self.c == o.c and self.t == o.t

    def __hash__(self):
        return hash(self.key())

    def __repr__(self):
        parts = []
        for k, v in sorted(self.t.items()):
            parts.append(k if v == 1 else f'{v}*{k}')
        if self.c != 0 or not parts:
            parts.append(str(self.c))
        return '+'.join(parts).replace('+-', '-')


def idx_key(idx):
    """Canonical hashable key of a tuple of Aff."""
    return tuple(a.key() for a in idx)


def idx_from_key(k):
    return tuple(Aff.from_key(a) for a in k)


def fmt_idx(k):
    return '[' + ','.join(repr(Aff.from_key(a)) for a in k) + ']'


def fmt_atom(a):
    if isinstance(a, tuple) and len(a) == 2 and isinstance(a[1], tuple):
        try:
            return a[0] + fmt_idx(a[1])
        except Exception:
            pass
    return str(a)


# ---------------------------------------------------------------------------
class Poly:
    __slots__ = ('t',)

    def __init__(self, t=None):
        self.t = {k: v for k, v in (t or {}).items() if v != 0}

    @staticmethod
    def const(c):
        return Poly({(): Fr(c)})

    @staticmethod
    def atom(a):
        return Poly({((a, 1),): Fr(1)})

    def __add__(self, o):
        t = dict(self.t)
        for k, v in o.t.items():
            t[k] = t.get(k, 0) + v
        return Poly(t)

    def __neg__(self):
        return Poly({k: -v for k, v in self.t.items()})

    def __sub__(self, o):
        return self + (-o)

    def __mul__(self, o):
        t = {}
        for k1, v1 in self.t.items():
            for k2, v2 in o.t.items():
                if not k1:
                    k = k2
                elif not k2:
                    k = k1
                else:
                    d = dict(k1)
                    for a, e in k2:
                        d[a] = d.get(a, 0) + e
                    k = tuple(sorted(d.items()))
                t[k] = t.get(k, 0) + v1 * v2
        return Poly(t)

    def iszero(self):
        return not self.t

    def is_const(self):
        return all(not k for k in self.t)

    def constval(self):
        return self.t.get((), Fr(0))

    def atoms(self):
        return {a for k in self.t for a, _ in k}

    def __eq__(self, o):
        return self.t == o.t

    def __hash__(self):
        return hash(tuple(sorted(self.t.items())))

    def map_atoms(self, fn):
        """fn(atom) -> Poly; substitute every atom."""
        r = Poly()
        cache = {}
        for k, v in self.t.items():
            term = Poly.const(v)
            for a, e in k:
                if a not in cache:
                    cache[a] = fn(a)
                p = cache[a]
                for _ in range(e):
                    term = term * p
            r = r + term
        return r

    def rename(self, fn):
        """fn(atom) -> atom (cheap substitution)."""
        t = {}
        for k, v in self.t.items():
            d = {}
            for a, e in k:
                b = fn(a)
                d[b] = d.get(b, 0) + e
            kk = tuple(sorted(d.items()))
            t[kk] = t.get(kk, 0) + v
        return Poly(t)

    def diff(self, atom):
        t = {}
        for k, v in self.t.items():
            d = dict(k)
            e = d.get(atom, 0)
            if not e:
                continue
            if e == 1:
                del d[atom]
            else:
                d[atom] = e - 1
            kk = tuple(sorted(d.items()))
            t[kk] = t.get(kk, 0) + v * e
        return Poly(t)

    def __repr__(self):
        if not self.t:
            return '0'
        out = []
        for k, v in sorted(self.t.items(), key=lambda kv: repr(kv[0])):
            m = '*'.join(fmt_atom(a) + (f'^{e}' if e != 1 else '')
                         for a, e in k)
            out.append(f'{v}' + (f'*{m}' if m else ''))
        return ' + '.join(out)


ONE = Poly.const(1)


class Rat:
    __slots__ = ('n', 'd')

    def __init__(self, n, d=None):
        self.n = n
        self.d = d if d is not None else ONE
        if len(self.d.t) == 1 and () in self.d.t and self.d.t[()] != 1:
            c = self.d.t[()]
            self.n = Poly({k: v / c for k, v in self.n.t.items()})
            self.d = ONE

    @staticmethod
    def const(c):
        return Rat(Poly.const(c))

    @staticmethod
    def atom(a):
        return Rat(Poly.atom(a))

    def __add__(self, o):
        if self.d == o.d:
            return Rat(self.n + o.n, self.d)
        if self.n.iszero():
            return o
        if o.n.iszero():
            return self
        return Rat(self.n * o.d + o.n * self.d, self.d * o.d)

    def __neg__(self):
        return Rat(-self.n, self.d)

    def __sub__(self, o):
        return self + (-o)

    def __mul__(self, o):
        return Rat(self.n * o.n, self.d * o.d)

    def inv(self):
        if self.n.iszero():
            raise ZeroDivisionError('division by symbolic zero')
        return Rat(self.d, self.n)

    def __truediv__(self, o):
        return self * o.inv()

    def iszero(self):
        return self.n.iszero()

    def __eq__(self, o):
        if self.d == o.d:
            return self.n == o.n
        return (self.n * o.d - o.n * self.d).iszero()

    def __hash__(self):  # pragma: no cover
        raise TypeError('Rat is not hashable (no canonical form)')

    def atoms(self):
        return self.n.atoms() | self.d.atoms()

    def is_const(self):
        return self.n.is_const() and self.d.is_const()

    def rename(self, fn):
        return Rat(self.n.rename(fn), self.d.rename(fn))

    def map_atoms(self, fn):
        """fn(atom) -> Rat."""
        def sub(p):
            r = Rat.const(0)
            cache = {}
            for k, v in p.t.items():
                term = Rat.const(v)
                for a, e in k:
                    if a not in cache:
                        cache[a] = fn(a)
                    for _ in range(e):
                        term = term * cache[a]
                r = r + term
            return r
        return sub(self.n) / sub(self.d)

    def diff(self, atom):
        # (n/d)' = (n' d - n d') / d^2
        return Rat(self.n.diff(atom) * self.d - self.n * self.d.diff(atom),
                   self.d * self.d)

    def __repr__(self):
        if self.d == ONE:
            return f'({self.n})'
        return f'({self.n})/({self.d})'


ZERO = Rat.const(0)


class Lin:
    """Affine form  sum coef[cell]*cell + c  (cell = (array, idx_key))."""
    __slots__ = ('terms', 'c')

    def __init__(self, terms=None, c=None):
        self.terms = {k: v for k, v in (terms or {}).items()
                      if not v.iszero()}
        self.c = c if c is not None else ZERO

    @staticmethod
    def cell(x):
        return Lin({x: Rat.const(1)})

    @staticmethod
    def coef(r):
        return Lin({}, r)

    @staticmethod
    def num(c):
        return Lin({}, Rat.const(c))

    def ispure(self):
        return not self.terms

    def __add__(self, o):
        t = dict(self.terms)
        for k, v in o.terms.items():
            t[k] = t[k] + v if k in t else v
        return Lin(t, self.c + o.c)

    def __neg__(self):
        return Lin({k: -v for k, v in self.terms.items()}, -self.c)

    def __sub__(self, o):
        return self + (-o)

    def __mul__(self, o):
        if o.ispure():
            return Lin({k: v * o.c for k, v in self.terms.items()},
                       self.c * o.c)
        if self.ispure():
            return o * self
        raise NonLinear('product of two field-dependent values')

    def __truediv__(self, o):
        if not o.ispure():
            raise NonLinear('division by a field-dependent value')
        return self * Lin.coef(o.c.inv())

    def __eq__(self, o):
        ks = set(self.terms) | set(o.terms)
        return (all(self.terms.get(k, ZERO) == o.terms.get(k, ZERO)
                    for k in ks) and self.c == o.c)

    def __hash__(self):  # pragma: no cover
        raise TypeError

    def iszero(self):
        return not self.terms and self.c.iszero()

    def cells(self):
        return set(self.terms)

    def coef_of(self, cell):
        return self.terms.get(cell, ZERO)

    def map_cells(self, fn):
        t = {}
        for k, v in self.terms.items():
            kk = fn(k)
            t[kk] = t[kk] + v if kk in t else v
        return Lin(t, self.c)

    def map_coefs(self, fn):
        return Lin({k: fn(v) for k, v in self.terms.items()}, fn(self.c))

    def diff_first(self, other):
        """Cells where the two forms differ (for diagnostics)."""
        ks = set(self.terms) | set(other.terms)
        return sorted((k for k in ks if not
                       (self.terms.get(k, ZERO) == other.terms.get(k, ZERO))),
                      key=repr)

    def __repr__(self):
        parts = [f'{v}*{fmt_atom(k)}' for k, v in
                 sorted(self.terms.items(), key=lambda kv: repr(kv[0]))]
        if not self.c.iszero():
            parts.append(repr(self.c))
        return ' + '.join(parts) or '0'


class NonLinear(Exception):
    pass
