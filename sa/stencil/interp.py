"""Abstract interpreter for emg3d's numba stencil kernels (Engine B).

A kernel is interpreted *once per boundary situation*, never executed over a
grid: loop variables of symbolic-trip loops are symbols with intervals; when a
clamp (`max(0, i-1)`, `min(n-1, i+1)`) or an index guard cannot be decided on
the whole interval the loop is peeled into first / generic / last iteration
classes (on demand).  Values are affine forms over field cells with
rational-function coefficients (alg.Lin); indices are integer-affine
expressions (alg.Aff).  Everything outside the supported subset raises
Unsupported (=> ANALYSIS-ERROR, never a verdict).
"""
import ast
from fractions import Fraction as Fr

from ..core.report import AnalysisError
from .alg import Aff, Lin, Rat, NonLinear, idx_key


class Unsupported(AnalysisError):
    pass


class NeedSplit(Exception):
    def __init__(self, syms, why):
        self.syms, self.why = syms, why


class Flag:
    """Run-time scalar the analysis knows nothing about (e.g. `iback`)."""
    def __init__(self, name):
        self.name = name

    def __repr__(self):
        return f'Flag({self.name})'


class Poison:
    """Value that must not be used (destroyed by a call / unknown join)."""
    def __init__(self, why):
        self.why = why

    def __repr__(self):
        return f'Poison({self.why})'


class TupleVal:
    def __init__(self, items):
        self.items = list(items)


class ParamArr:
    """Array parameter: role 'field' (symbolic cells), 'coef' (atoms)."""
    def __init__(self, name, role, shape):
        self.name, self.role, self.shape = name, role, shape

    @property
    def ndim(self):
        return len(self.shape)


class LocalArr:
    """Small local array with a concrete length."""
    def __init__(self, name, n, init):
        self.name = name
        self.v = [init] * n


class Rule:
    def __init__(self, lo, hi, fn, label=''):
        self.lo, self.hi, self.fn, self.label = lo, hi, fn, label


class SymArr:
    """1-D array of symbolic length described by ordered store rules."""
    def __init__(self, name, length, rules=None):
        self.name, self.length = name, length
        self.rules = list(rules or [])
        self.pending = []       # in-loop stores of the current iteration

    def snapshot(self):
        s = SymArr(self.name, self.length, self.rules)
        s.pending = list(self.pending)
        return s


class Store:
    """A store to a parameter array recorded during interpretation."""
    def __init__(self, arr, idx, value, op, ctx, node):
        self.arr, self.idx, self.value, self.op = arr, idx, value, op
        self.ctx, self.node = ctx, node

    @property
    def key(self):
        return (self.arr, idx_key(self.idx))


class Call:
    def __init__(self, name, args, ctx, node):
        self.name, self.args, self.ctx, self.node = name, args, ctx, node


class Frame:
    """Loop frame used to detect loop-carried use of local arrays."""
    def __init__(self):
        self.written = set()
        self.early = set()


def _assigned_names(stmts):
    out = set()
    for st in stmts:
        for n in ast.walk(st):
            if isinstance(n, (ast.Assign,)):
                for t in n.targets:
                    for m in ast.walk(t):
                        if isinstance(m, ast.Name) and isinstance(
                                m.ctx, ast.Store):
                            out.add(m.id)
            elif isinstance(n, (ast.AugAssign, ast.AnnAssign)):
                if isinstance(n.target, ast.Name):
                    out.add(n.target.id)
            elif isinstance(n, ast.For):
                for m in ast.walk(n.target):
                    if isinstance(m, ast.Name):
                        out.add(m.id)
    return out


class Interp:
    """Interpret one function of `module` (ast.Module)."""

    def __init__(self, module_tree, fname, params, dims, scalars=None,
                 opaque=(), relname='?', max_inline=3):
        """
        params : dict  parameter name -> ('field'|'coef', shape tuple of Aff)
                 or ('scalar', value) ; keyed by *position* through `order`.
        dims   : dict  dimension symbol -> minimal value (int)
        scalars: dict  name -> Aff / int value for scalar parameters
        opaque : names of callees that are not inlined (recorded + havoc)
        """
        self.tree = module_tree
        self.relname = relname
        self.funcs = {n.name: n for n in module_tree.body
                      if isinstance(n, ast.FunctionDef)}
        if fname not in self.funcs:
            raise AnalysisError(f'anchor vanished: function {fname} '
                                f'in {relname}')
        self.fn = self.funcs[fname]
        self.params = params
        self.dims = dict(dims)
        self.scalars = scalars or {}
        self.opaque = set(opaque)
        self.max_inline = max_inline
        # state
        self.ivals = {}          # symbol -> (lo Aff, hi Aff)
        self.classes = {}        # loop symbol -> class label
        self.stores = []
        self.calls = []
        self.mem = {}            # (arr, idxkey) -> Lin  (field stores)
        self.frames = []
        self.retval = None
        self.depth = 0
        self.solcount = 0
        self.fresh = 0
        self.steps = 0
        self.dirty = set()       # field arrays stored by a completed loop
        self.oob = []            # (node, array, axis, index, shape)
        self.symreads = []       # (array name, index) reads in symbolic loops
        self.symstores = []      # (array name, index, value, ctx, node)

    # ------------------------------------------------------------------ util
    def err(self, node, msg):
        ln = getattr(node, 'lineno', '?')
        try:
            src = ast.unparse(node)
        except Exception:
            src = ''
        return Unsupported(f'{self.relname}:{ln}: unsupported in stencil '
                           f'kernel {self.fn.name}: {msg}: `{src[:80]}`')

    # -- bounds / decisions ----------------------------------------------------
    def _dimsign(self, a, want_min):
        """min (or max) of an Aff over dimension symbols >= their minima.
        Returns Fraction or None for unbounded."""
        val = a.c
        for s, k in a.t.items():
            if s not in self.dims:
                raise Unsupported(f'free symbol {s} in index bound {a}')
            if (k > 0) == want_min:
                val += k * self.dims[s]
            else:
                return None
        return val

    def bounds(self, a):
        """(min, max) of Aff `a` as Fractions/None under current intervals."""
        lo, hi = Aff(a.c), Aff(a.c)
        for s, k in a.t.items():
            if s in self.ivals:
                l, h = self.ivals[s]
                if k > 0:
                    lo, hi = lo + l * k, hi + h * k
                else:
                    lo, hi = lo + h * k, hi + l * k
            else:
                lo, hi = lo + Aff(0, {s: k}), hi + Aff(0, {s: k})
        # intervals may themselves mention loop symbols (not in kernels)
        for x in (lo, hi):
            for s in x.t:
                if s in self.ivals:
                    raise Unsupported(f'nested symbolic interval for {s}')
        return self._dimsign(lo, True), self._dimsign(hi, False)

    def bounds_in(self, a, ctx):
        """bounds of `a` under the intervals recorded in a store context."""
        saved = self.ivals
        self.ivals = ctx['ivals']
        try:
            return self.bounds(a)
        finally:
            self.ivals = saved

    def decide(self, op, a, b):
        """Three-valued comparison of two Aff."""
        d = a - b
        if d.is_const():
            c = d.c
            return {'==': c == 0, '!=': c != 0, '<': c < 0, '<=': c <= 0,
                    '>': c > 0, '>=': c >= 0}[op]
        mn, mx = self.bounds(d)
        if op in ('<', '>='):
            if mx is not None and mx < 0:
                r = True
            elif mn is not None and mn >= 0:
                r = False
            else:
                return None
            return r if op == '<' else not r
        if op in ('<=', '>'):
            if mx is not None and mx <= 0:
                r = True
            elif mn is not None and mn > 0:
                r = False
            else:
                return None
            return r if op == '<=' else not r
        # == / !=
        if (mn is not None and mn > 0) or (mx is not None and mx < 0):
            return op == '!='
        if mn is not None and mx is not None and mn == mx == 0:
            return op == '=='
        return None

    def undecided(self, node, a, b, what):
        syms = [s for s in (a - b).t if s in self.classes]
        if syms:
            raise NeedSplit(syms, what)
        raise self.err(node, f'cannot decide {what} under intervals')

    def surely_diff(self, i1, i2):
        for a, b in zip(i1, i2):
            if self.decide('!=', a, b) is True:
                return True
        return False

    def surely_same(self, i1, i2):
        return all((a - b).is_const() and (a - b).c == 0
                   for a, b in zip(i1, i2))

    # -- value helpers ---------------------------------------------------------
    def as_lin(self, v, node):
        if isinstance(v, Lin):
            return v
        if isinstance(v, Aff):
            if v.is_const():
                return Lin.num(v.c)
            raise self.err(node, f'index value {v} used as a number')
        if isinstance(v, Poison):
            raise self.err(node, f'use of a destroyed value ({v.why})')
        if isinstance(v, Flag):
            raise self.err(node, f'arithmetic on run-time flag {v.name}')
        raise self.err(node, f'value of kind {type(v).__name__} used as a number')

    def as_aff(self, v, node):
        if isinstance(v, Aff):
            return v
        if isinstance(v, Lin) and v.ispure() and v.c.is_const():
            c = v.c.n.constval() / v.c.d.constval()
            if c.denominator == 1:
                return Aff(c)
        raise self.err(node, 'not an integer index expression')

    def ctx(self):
        return {'classes': dict(self.classes),
                'ivals': dict(self.ivals)}

    # -- arrays: reads ----------------------------------------------------------
    def norm_index(self, a, length, node):
        """Negative constant indices count from the end."""
        if a.is_const() and a.c < 0:
            return a + length
        return a

    def read_local(self, arr, k, node):
        for fr in self.frames:
            if (arr.name, k) not in fr.written:
                fr.early.add((arr.name, k))
        if not 0 <= k < len(arr.v):
            raise self.err(node, f'index {k} out of range for local array '
                                 f'{arr.name}[{len(arr.v)}]')
        v = arr.v[k]
        if isinstance(v, Poison):
            raise self.err(node, f'read of destroyed element {arr.name}[{k}]')
        return v

    def read_sym(self, arr, j, node):
        j = self.norm_index(j, arr.length, node)
        if any(sy in self.ivals for sy in j.t):
            self.symreads.append((arr.name, j))
        try:
            mn, _ = self.bounds(j)
            _, mx = self.bounds(j - arr.length + 1)
        except Unsupported:
            mn = mx = None
        if (mn is not None and mn < 0) or (mx is not None and mx > 0):
            self.oob.append((node, arr.name, 0, j, arr.length, self.ctx()))
            return Lin.coef(Rat.atom(('@oob:' + arr.name, idx_key((j,)))))
        for sj, val in reversed(arr.pending):
            if (sj - j).is_const():
                if (sj - j).c == 0:
                    return val
                continue
            r = self.decide('==', sj, j)
            if r is None:
                self.undecided(node, sj, j, f'aliasing of {arr.name}[{j}]')
            if r:
                return val
        for rule in reversed(arr.rules):
            inside_lo = self.decide('>=', j, rule.lo)
            inside_hi = self.decide('<=', j, rule.hi)
            if inside_lo is True and inside_hi is True:
                return rule.fn(j)
            if inside_lo is False or inside_hi is False:
                continue
            self.undecided(node, j, rule.lo if inside_lo is None else rule.hi,
                           f'which store reaches {arr.name}[{j}]')
        raise self.err(node, f'read of unset element {arr.name}[{j}]')

    def read_param(self, arr, idx, node):
        if len(idx) != arr.ndim:
            raise self.err(node, f'{arr.name} subscripted with {len(idx)} of '
                                 f'{arr.ndim} indices')
        idx = tuple(self.norm_index(a, n, node)
                    for a, n in zip(idx, arr.shape))
        key = (arr.name, idx_key(idx))
        self.check_bounds(arr, idx, node)
        if arr.role == 'coef':
            return Lin.coef(Rat.atom(key))
        if arr.name in self.dirty and key not in self.mem:
            raise self.err(node, f'read of {arr.name} after a loop that '
                                 f'stored to it')
        if key in self.mem:
            return self.mem[key]
        for (an, ik), val in self.mem.items():
            if an != arr.name:
                continue
            other = tuple(Aff.from_key(k) for k in ik)
            if not self.surely_diff(idx, other):
                if self.surely_same(idx, other):
                    return val
                raise self.err(node, f'possible aliasing of {arr.name} '
                                     f'read with an earlier store')
        return Lin.cell(key)

    def check_bounds(self, arr, idx, node):
        for ax, (a, n) in enumerate(zip(idx, arr.shape)):
            try:
                mn, _ = self.bounds(a)
                _, mx = self.bounds(a - n + 1)
            except Unsupported:
                continue
            if (mn is not None and mn < 0) or (mx is not None and mx > 0):
                self.oob.append((node, arr.name, ax, a, n, self.ctx()))

    # -- arrays: writes -----------------------------------------------------------
    def write_local(self, arr, k, val, node):
        if not 0 <= k < len(arr.v):
            raise self.err(node, f'store index {k} out of range for '
                                 f'{arr.name}[{len(arr.v)}]')
        for fr in self.frames:
            fr.written.add((arr.name, k))
        arr.v = list(arr.v)
        arr.v[k] = val

    def write_sym(self, arr, j, val, node):
        j = self.norm_index(j, arr.length, node)
        self.symstores.append((arr.name, j, val, self.ctx(), node))
        if not any(sy in self.ivals for sy in j.t):
            arr.rules = arr.rules + [Rule(j, j, (lambda _j, v=val: v),
                                          'element')]
            return
        arr.pending = arr.pending + [(j, val)]

    def write_param(self, arr, idx, val, op, node):
        if arr.role != 'field':
            raise self.err(node, f'store to coefficient array {arr.name}')
        idx = tuple(self.norm_index(a, n, node)
                    for a, n in zip(idx, arr.shape))
        key = (arr.name, idx_key(idx))
        self.check_bounds(arr, idx, node)
        for (an, ik) in list(self.mem):
            if an == arr.name and ik != key[1]:
                other = tuple(Aff.from_key(k) for k in ik)
                if not self.surely_diff(idx, other):
                    raise self.err(node, f'possible aliasing of stores to '
                                         f'{arr.name}')
        self.mem[key] = val
        self.stores.append(Store(arr.name, idx, val, op, self.ctx(), node))

    # ------------------------------------------------------------- expressions
    def ev(self, n, env):
        self.steps += 1
        if isinstance(n, ast.Constant):
            v = n.value
            if isinstance(v, bool):
                return Aff(int(v))
            if isinstance(v, int):
                return Aff(v)
            if isinstance(v, float):
                return Lin.num(Fr(repr(v)))
            raise self.err(n, 'constant type')
        if isinstance(n, ast.Name):
            if n.id not in env:
                raise self.err(n, f'unknown name {n.id}')
            v = env[n.id]
            if isinstance(v, Poison):
                raise self.err(n, f'use of destroyed value {n.id} ({v.why})')
            return v
        if isinstance(n, ast.UnaryOp):
            v = self.ev(n.operand, env)
            if isinstance(n.op, ast.USub):
                return -v if isinstance(v, (Aff, Lin)) else \
                    self._elementwise1(n, v, lambda x: -x)
            if isinstance(n.op, ast.UAdd):
                return v
            raise self.err(n, 'unary operator')
        if isinstance(n, ast.BinOp):
            return self.binop(n, self.ev(n.left, env), self.ev(n.right, env))
        if isinstance(n, ast.Subscript):
            return self.subscript(n, env)
        if isinstance(n, ast.Call):
            return self.call(n, env)
        if isinstance(n, ast.Tuple):
            return TupleVal([self.ev(e, env) for e in n.elts])
        if isinstance(n, ast.Attribute):
            # x.shape / x.dtype
            base = self.ev(n.value, env) if isinstance(n.value, ast.Name) \
                else None
            if n.attr == 'shape' and isinstance(base, ParamArr):
                return TupleVal(list(base.shape))
            if n.attr == 'dtype':
                return Poison('dtype')
            raise self.err(n, 'attribute')
        raise self.err(n, f'expression kind {type(n).__name__}')

    def _elementwise1(self, n, v, f):
        if isinstance(v, list):
            return [f(self.as_lin(x, n)) for x in v]
        raise self.err(n, 'unary operator on this value')

    def binop(self, n, a, b):
        op = type(n.op)
        # whole-array (deferred) arithmetic
        if isinstance(a, (SymArr, ParamArr)) or isinstance(b, (SymArr, ParamArr)):
            return self.array_binop(n, a, b)
        if isinstance(a, list) or isinstance(b, list):
            if isinstance(a, list) and not isinstance(b, list):
                bb = self.as_lin(b, n)
                return [self.scalar_op(n, op, x, bb) for x in a]
            raise self.err(n, 'list arithmetic')
        if isinstance(a, Flag) or isinstance(b, Flag):
            return Flag('expr')
        if isinstance(a, Aff) and isinstance(b, Aff):
            try:
                if op is ast.Add:
                    return a + b
                if op is ast.Sub:
                    return a - b
                if op is ast.Mult:
                    return a * b
            except ValueError:
                raise self.err(n, 'non-affine index arithmetic')
            if op is ast.FloorDiv and b.is_const() and a.is_const():
                return Aff(a.c // b.c)
        return self.scalar_op(n, op, self.as_lin(a, n), self.as_lin(b, n))

    def scalar_op(self, n, op, a, b):
        a, b = self.as_lin(a, n), self.as_lin(b, n)
        try:
            if op is ast.Add:
                return a + b
            if op is ast.Sub:
                return a - b
            if op is ast.Mult:
                return a * b
            if op is ast.Div:
                return a / b
        except NonLinear as e:
            raise self.err(n, f'non-linear in the fields ({e})')
        except ZeroDivisionError:
            raise self.err(n, 'division by zero')
        raise self.err(n, f'operator {op.__name__}')

    def array_binop(self, n, a, b):
        """Lazy element-wise arithmetic on 1-D arrays -> SymArr."""
        op = type(n.op)

        def length(x):
            if isinstance(x, SymArr):
                return x.length
            if isinstance(x, ParamArr) and x.ndim == 1:
                return x.shape[0]
            return None
        la, lb = length(a), length(b)
        ln = la if la is not None else lb
        if ln is None or (la is not None and lb is not None and
                          not (la - lb).is_const()):
            raise self.err(n, 'whole-array arithmetic on these operands')
        sa = a.snapshot() if isinstance(a, SymArr) else a
        sb = b.snapshot() if isinstance(b, SymArr) else b

        def elem(x, j):
            if isinstance(x, SymArr):
                return self.read_sym(x, j, n)
            if isinstance(x, ParamArr):
                return self.read_param(x, (j,), n)
            return x

        def fn(j):
            return self.scalar_op(n, op, elem(sa, j), elem(sb, j))
        self.fresh += 1
        return SymArr(f'@tmp{self.fresh}', ln,
                      [Rule(Aff(0), ln - 1, fn, 'elementwise')])

    def index_tuple(self, sl, env):
        elts = sl.elts if isinstance(sl, ast.Tuple) else [sl]
        out = []
        for e in elts:
            if isinstance(e, ast.Slice):
                return None
            out.append(self.as_aff(self.ev(e, env), e))
        return tuple(out)

    def subscript(self, n, env):
        base = self.ev(n.value, env)
        if isinstance(base, TupleVal):
            k = self.as_aff(self.ev(n.slice, env), n).int()
            return base.items[k]
        if isinstance(base, list):
            k = self.as_aff(self.ev(n.slice, env), n).int()
            return base[k]
        if isinstance(n.slice, ast.Slice):
            return self.slice_of(n, base, env)
        idx = self.index_tuple(n.slice, env)
        if idx is None:
            raise self.err(n, 'slice inside index tuple')
        if isinstance(base, ParamArr):
            return self.read_param(base, idx, n)
        if isinstance(base, LocalArr):
            if len(idx) != 1:
                raise self.err(n, 'local array rank')
            a = idx[0]
            if not a.is_const():
                raise self.err(n, f'symbolic index into local array '
                                  f'{base.name}')
            k = a.int()
            if k < 0:
                k += len(base.v)
            return self.read_local(base, k, n)
        if isinstance(base, SymArr):
            if len(idx) != 1:
                raise self.err(n, 'array rank')
            return self.read_sym(base, idx[0], n)
        raise self.err(n, 'subscript of this value')

    def slice_of(self, n, base, env):
        s = n.slice
        if s.step is not None:
            raise self.err(n, 'slice step')
        if isinstance(base, ParamArr) and base.ndim == 1:
            ln = base.shape[0]
            src = base
        elif isinstance(base, SymArr):
            ln = base.length
            src = base.snapshot()
        else:
            raise self.err(n, 'slice of this value')
        lo = self.as_aff(self.ev(s.lower, env), n) if s.lower else Aff(0)
        hi = self.as_aff(self.ev(s.upper, env), n) if s.upper else ln
        lo = self.norm_index(lo, ln, n)
        hi = self.norm_index(hi, ln, n)

        def fn(j, lo=lo):
            if isinstance(src, SymArr):
                return self.read_sym(src, j + lo, n)
            return self.read_param(src, (j + lo,), n)
        self.fresh += 1
        return SymArr(f'@slice{self.fresh}', hi - lo,
                      [Rule(Aff(0), hi - lo - 1, fn, 'slice')])

    # -------------------------------------------------------------------- calls
    def call(self, n, env):
        f = ast.unparse(n.func)
        if f == 'len':
            v = self.ev(n.args[0], env)
            if isinstance(v, ParamArr):
                return v.shape[0]
            if isinstance(v, SymArr):
                return v.length
            if isinstance(v, LocalArr):
                return Aff(len(v.v))
            raise self.err(n, 'len of this value')
        if f in ('max', 'min') and len(n.args) == 2:
            a = self.as_aff(self.ev(n.args[0], env), n)
            b = self.as_aff(self.ev(n.args[1], env), n)
            ge = self.decide('>=', a, b)
            le = self.decide('<=', a, b)
            if ge is not True and le is not True:
                self.undecided(n, a, b, f'clamp {ast.unparse(n)}')
            if f == 'max':
                return a if ge is True else b
            return b if ge is True else a
        if f in ('np.zeros', 'np.empty', 'np.ones'):
            size = self.ev(n.args[0], env)
            init = {'np.zeros': Lin.num(0), 'np.ones': Lin.num(1),
                    'np.empty': Poison('np.empty')}[f]
            if isinstance(size, TupleVal):
                raise self.err(n, 'multi-dimensional local array')
            size = self.as_aff(size, n)
            self.fresh += 1
            if size.is_const():
                return LocalArr(f'@arr{self.fresh}', size.int(), init)
            if isinstance(init, Poison):
                return SymArr(f'@arr{self.fresh}', size, [])
            return SymArr(f'@arr{self.fresh}', size,
                          [Rule(Aff(0), size - 1, lambda j, v=init: v, f)])
        if f == 'np.array':
            if len(n.args) >= 1 and isinstance(n.args[0], ast.List):
                return [self.as_lin(self.ev(e, env), e)
                        for e in n.args[0].elts]
            raise self.err(n, 'np.array of a non-literal')
        if f == 'range':
            raise self.err(n, 'range outside a for statement')
        if isinstance(n.func, ast.Name) and f in self.funcs:
            return self.call_function(n, f, env)
        raise self.err(n, f'call to {f}')

    @staticmethod
    def _snap(a):
        if isinstance(a, LocalArr):
            return list(a.v)
        if isinstance(a, SymArr):
            return a.snapshot()
        if isinstance(a, list):
            return list(a)
        return a

    def call_function(self, n, f, env):
        args = [self.ev(a, env) for a in n.args]
        if n.keywords:
            raise self.err(n, 'keyword arguments in kernel call')
        if f in self.opaque:
            self.calls.append(Call(f, [self._snap(a) for a in args],
                                   self.ctx(), n))
            self.solcount += 1
            tag = f'@{f}{self.solcount}'
            # havoc: last array argument receives the result, others destroyed
            arrs = [(i, a) for i, a in enumerate(args)
                    if isinstance(a, (LocalArr, SymArr, list))]
            for pos, (i, a) in enumerate(arrs):
                last = pos == len(arrs) - 1
                if isinstance(a, list):
                    for k in range(len(a)):
                        a[k] = (Lin.cell((tag, idx_key((Aff(k),)))) if last
                                else Poison(f'destroyed by {f}'))
                elif isinstance(a, LocalArr):
                    for k in range(len(a.v)):
                        self.write_local(
                            a, k, Lin.cell((tag, idx_key((Aff(k),)))) if last
                            else Poison(f'destroyed by {f}'), n)
                else:
                    if last:
                        a.rules = [Rule(Aff(0), a.length - 1,
                                        lambda j, t=tag: Lin.cell(
                                            (t, idx_key((j,)))), 'result')]
                    else:
                        a.rules = []
                    a.pending = []
            return None
        if self.depth >= self.max_inline:
            raise self.err(n, 'inlining depth exceeded')
        fn = self.funcs[f]
        pnames = [a.arg for a in fn.args.args]
        if len(pnames) != len(args):
            raise self.err(n, f'arity of {f}')
        self.calls.append(Call(f, [self._snap(a) for a in args], self.ctx(), n))
        self.depth += 1
        saved_ret = self.retval
        self.retval = None
        try:
            self.block(fn.body, dict(zip(pnames, args)))
            r = self.retval
        finally:
            self.depth -= 1
            self.retval = saved_ret
        return r

    # --------------------------------------------------------------- conditions
    def test(self, t, env):
        """Three-valued: True / False / Flag (unknown run-time)."""
        if isinstance(t, ast.BoolOp):
            vals = []
            for v in t.values:
                try:
                    r = self.test(v, env)
                except NeedSplit as e:
                    r = e
                if isinstance(t.op, ast.Or) and r is True:
                    return True
                if isinstance(t.op, ast.And) and r is False:
                    return False
                vals.append(r)
            for r in vals:
                if isinstance(r, NeedSplit):
                    raise r
            if any(isinstance(r, Flag) for r in vals):
                return Flag('bool')
            return isinstance(t.op, ast.And)
        if isinstance(t, ast.UnaryOp) and isinstance(t.op, ast.Not):
            r = self.test(t.operand, env)
            return r if isinstance(r, Flag) else (not r)
        if isinstance(t, ast.Compare) and len(t.ops) == 1:
            a = self.ev(t.left, env)
            b = self.ev(t.comparators[0], env)
            if isinstance(a, Flag) or isinstance(b, Flag):
                return Flag('cmp')
            ops = {ast.Eq: '==', ast.NotEq: '!=', ast.Lt: '<', ast.LtE: '<=',
                   ast.Gt: '>', ast.GtE: '>='}
            if type(t.ops[0]) not in ops:
                raise self.err(t, 'comparison operator')
            a, b = self.as_aff(a, t), self.as_aff(b, t)
            r = self.decide(ops[type(t.ops[0])], a, b)
            if r is None:
                self.undecided(t, a, b, f'guard {ast.unparse(t)}')
            return r
        v = self.ev(t, env)
        if isinstance(v, Flag):
            return v
        if isinstance(v, Aff) and v.is_const():
            return v.c != 0
        raise self.err(t, 'condition')

    # ---------------------------------------------------------------- statements
    def block(self, stmts, env):
        for st in stmts:
            if self.retval is not None:
                return
            self.stmt(st, env)

    def assign_target(self, tg, val, env, node, op=None):
        if isinstance(tg, ast.Name):
            if op is not None:
                cur = self.ev(tg, env)
                if isinstance(cur, SymArr) or isinstance(val, SymArr):
                    raise self.err(node, 'augmented whole-array assignment')
                val = self.binop(ast.BinOp(tg, op, tg), cur, val) \
                    if not isinstance(cur, Lin) else \
                    self.scalar_op(node, type(op), cur, self.as_lin(val, node))
            if isinstance(val, LocalArr):
                val.name = tg.id
            elif isinstance(val, SymArr):
                val = val.snapshot()
                val.name = tg.id
            env[tg.id] = val
            return
        if isinstance(tg, ast.Tuple):
            if op is not None or not isinstance(val, TupleVal) or \
                    len(val.items) != len(tg.elts):
                raise self.err(node, 'tuple assignment')
            for t, v in zip(tg.elts, val.items):
                self.assign_target(t, v, env, node)
            return
        if isinstance(tg, ast.Subscript):
            base = self.ev(tg.value, env)
            if isinstance(tg.slice, ast.Slice):
                s = tg.slice
                if s.lower or s.upper or s.step or op is not None:
                    raise self.err(node, 'partial slice store')
                v = self.as_lin(val, node)
                if isinstance(base, LocalArr):
                    for k in range(len(base.v)):
                        self.write_local(base, k, v, node)
                elif isinstance(base, SymArr):
                    base.rules = [Rule(Aff(0), base.length - 1,
                                       lambda j, v=v: v, 'fill')]
                    base.pending = []
                else:
                    raise self.err(node, 'whole-array store to a parameter')
                return
            idx = self.index_tuple(tg.slice, env)
            if idx is None:
                raise self.err(node, 'slice store')
            if op is not None:
                cur = self.subscript(ast.Subscript(tg.value, tg.slice,
                                                   ast.Load()), env)
                val = self.scalar_op(node, type(op), self.as_lin(cur, node),
                                     self.as_lin(val, node))
            else:
                val = self.as_lin(val, node)
            if isinstance(base, ParamArr):
                o = '=' if op is None else \
                    {ast.Add: '+=', ast.Sub: '-=', ast.Mult: '*=',
                     ast.Div: '/='}.get(type(op), '?=')
                self.write_param(base, idx, val, o, node)
            elif isinstance(base, LocalArr):
                if not idx[0].is_const():
                    raise self.err(node, 'symbolic store index into local '
                                         f'array {base.name}')
                k = idx[0].int()
                if k < 0:
                    k += len(base.v)
                self.write_local(base, k, val, node)
            elif isinstance(base, SymArr):
                self.write_sym(base, idx[0], val, node)
            elif isinstance(base, list):
                base[idx[0].int()] = val
            else:
                raise self.err(node, 'store target')
            return
        raise self.err(node, 'assignment target')

    def stmt(self, st, env):
        if isinstance(st, ast.Assign):
            try:
                val = self.ev(st.value, env)
            except Unsupported:
                # a run-time flag (loop-carried scalar, only ever tested)
                # recomputed by an expression outside the kernel language:
                # it stays unknown, both arms of its tests are interpreted
                if len(st.targets) == 1 and isinstance(
                        st.targets[0], ast.Name) and isinstance(
                            env.get(st.targets[0].id), Flag):
                    val = Flag(st.targets[0].id)
                else:
                    raise
            for tg in st.targets:
                self.assign_target(tg, val, env, st)
        elif isinstance(st, ast.AugAssign):
            val = self.ev(st.value, env)
            self.assign_target(st.target, val, env, st, st.op)
        elif isinstance(st, ast.Expr):
            if isinstance(st.value, ast.Constant):
                return
            if isinstance(st.value, ast.Call):
                self.ev(st.value, env)
                return
            raise self.err(st, 'expression statement')
        elif isinstance(st, ast.Pass):
            return
        elif isinstance(st, ast.Return):
            self.retval = self.ev(st.value, env) if st.value else Poison('None')
        elif isinstance(st, ast.If):
            self.if_stmt(st, env)
        elif isinstance(st, ast.For):
            self.for_stmt(st, env)
        else:
            raise self.err(st, f'statement kind {type(st).__name__}')

    # -- if -----------------------------------------------------------------------
    def if_stmt(self, st, env):
        r = self.test(st.test, env)
        if r is True:
            self.block(st.body, env)
        elif r is False:
            self.block(st.orelse, env)
        else:
            # unknown run-time flag: interpret both arms, join
            nstores = len(self.stores)
            e1, e2 = dict(env), dict(env)
            self.block(st.body, e1)
            self.block(st.orelse, e2)
            if len(self.stores) != nstores:
                raise self.err(st, 'store under a run-time flag')
            for k in set(e1) | set(e2):
                v1, v2 = e1.get(k), e2.get(k)
                if v1 is v2:
                    env[k] = v1
                elif isinstance(v1, Aff) and isinstance(v2, Aff):
                    if v1 == v2:
                        env[k] = v1
                        continue
                    l1, h1 = self._affrange(v1)
                    l2, h2 = self._affrange(v2)
                    dl = self.decide('<=', l1, l2)
                    dh = self.decide('>=', h1, h2)
                    if dl is None or dh is None:
                        raise self.err(st, 'join of index ranges')
                    lo = l1 if dl else l2
                    hi = h1 if dh else h2
                    self.fresh += 1
                    s = f'{k}'
                    if s in self.ivals or s in self.dims:
                        s = f'{k}#{self.fresh}'
                    self.ivals[s] = (lo, hi)
                    env[k] = Aff.sym(s)
                elif isinstance(v1, Lin) and isinstance(v2, Lin) and v1 == v2:
                    env[k] = v1
                else:
                    env[k] = Poison(f'differs between the arms of '
                                    f'`if {ast.unparse(st.test)}`')

    def _affrange(self, a):
        lo, hi = Aff(a.c), Aff(a.c)
        for s, k in a.t.items():
            if s in self.ivals:
                l, h = self.ivals[s]
                lo, hi = (lo + l * k, hi + h * k) if k > 0 else \
                    (lo + h * k, hi + l * k)
            else:
                lo, hi = lo + Aff(0, {s: k}), hi + Aff(0, {s: k})
        return lo, hi

    # -- for -----------------------------------------------------------------------
    def for_stmt(self, st, env):
        it = st.iter
        # `for k, v in enumerate(<small local array>)`: unrolled
        if isinstance(it, ast.Call) and ast.unparse(it.func) == 'enumerate' \
                and len(it.args) == 1 and not it.keywords and isinstance(
                    st.target, ast.Tuple) and len(st.target.elts) == 2 and \
                all(isinstance(e, ast.Name) for e in st.target.elts) and \
                not st.orelse:
            arr = self.ev(it.args[0], env)
            vals = arr.v if isinstance(arr, LocalArr) else (
                arr if isinstance(arr, list) else None)
            if vals is not None:
                vals = list(vals)
                kn, vn = (e.id for e in st.target.elts)
                for k in range(len(vals)):
                    env[kn] = Aff(k)
                    env[vn] = vals[k]
                    self.block(st.body, env)
                return
        if not (isinstance(it, ast.Call) and ast.unparse(it.func) == 'range'
                and isinstance(st.target, ast.Name) and not st.orelse):
            raise self.err(st, 'loop form')
        args = [self.ev(a, env) for a in it.args]
        if any(isinstance(a, Flag) for a in args):
            raise self.err(st, 'loop bound')
        args = [self.as_aff(a, st) for a in args]
        if len(args) == 1:
            lo, hi = Aff(0), args[0]
        elif len(args) == 2:
            lo, hi = args
        else:
            raise self.err(st, 'range with a step')
        var = st.target.id
        if lo.is_const() and hi.is_const():
            for k in range(lo.int(), hi.int()):
                env[var] = Aff(k)
                self.block(st.body, env)
            return
        self.symbolic_loop(st, env, var, lo, hi - 1)

    PARTS = {
        0: lambda lo, hi: [('all', lo, hi)],
        1: lambda lo, hi: [('low', lo, lo), ('rest', lo + 1, hi)],
        2: lambda lo, hi: [('low', lo, lo), ('int', lo + 1, hi - 1),
                           ('high', hi, hi)],
    }

    def symbolic_loop(self, st, env, var, lo, hi):
        sym = var
        if sym in self.ivals or sym in self.dims or sym in self.classes:
            self.fresh += 1
            sym = f'{var}#{self.fresh}'
        assigned = _assigned_names(st.body)
        level = 0
        while True:
            snap = self.snapshot(env)
            try:
                self.run_partition(st, env, var, sym, lo, hi,
                                   self.PARTS[level](lo, hi), assigned)
                return
            except NeedSplit as e:
                if sym not in e.syms:
                    self.restore(snap, env)
                    raise
                self.restore(snap, env)
                level += 1
                if level > 2:
                    raise self.err(st, f'undecidable even after peeling '
                                       f'first/last iteration of {var}: '
                                       f'{e.why}')

    def snapshot(self, env):
        def cp(v):
            if isinstance(v, LocalArr):
                c = LocalArr(v.name, 0, None)
                c.v = list(v.v)
                return (v, c)
            if isinstance(v, SymArr):
                return (v, v.snapshot())
            if isinstance(v, list):
                return (v, list(v))
            return (v, None)
        return (dict(env), {k: cp(v) for k, v in env.items()},
                dict(self.ivals), dict(self.classes), len(self.stores),
                len(self.calls), dict(self.mem), dict(self.dims),
                [(set(f.written), set(f.early)) for f in self.frames],
                set(self.dirty), len(self.oob), len(self.symreads),
                len(self.symstores))

    def restore(self, snap, env):
        (e, objs, iv, cl, ns, nc, mem, dims, frs, dirty, noob, nsr,
         nss) = snap
        del self.symstores[nss:]
        self.dirty = dirty
        del self.oob[noob:]
        del self.symreads[nsr:]
        env.clear()
        env.update(e)
        for k, (obj, c) in objs.items():
            if isinstance(obj, LocalArr):
                obj.v = list(c.v)
            elif isinstance(obj, SymArr):
                obj.rules, obj.pending = list(c.rules), list(c.pending)
            elif isinstance(obj, list):
                obj[:] = c
        self.ivals, self.classes = iv, cl
        del self.stores[ns:]
        del self.calls[nc:]
        self.mem = mem
        self.dims = dims
        for f, (w, ea) in zip(self.frames, frs):
            f.written, f.early = w, ea
        del self.frames[len(frs):]

    def run_partition(self, st, env, var, sym, lo, hi, parts, assigned):
        stored = set()
        try:
            self._run_partition(st, env, var, sym, lo, hi, parts, assigned,
                                stored)
        finally:
            pass
        self.dirty = self.dirty | stored

    def _run_partition(self, st, env, var, sym, lo, hi, parts, assigned,
                       stored):
        for label, plo, phi in parts:
            saved_dims = dict(self.dims)
            # the class must be non-empty: refine dimension minima
            span = phi - plo
            if not span.is_const():
                if len(span.t) == 1:
                    (s, k), = span.t.items()
                    if s in self.dims and k > 0:
                        need = -span.c / k
                        need = -(-need.numerator // need.denominator)
                        self.dims[s] = max(self.dims[s], need)
                    else:
                        raise self.err(st, 'loop span')
                else:
                    raise self.err(st, 'loop span')
            elif span.c < 0:
                continue
            # loop-carried scalars: unknown at entry of a generic iteration
            for name in assigned:
                if name in env and name != var and not isinstance(
                        env[name], (LocalArr, SymArr, ParamArr)):
                    env[name] = Flag(name) if isinstance(
                        env[name], (Aff, Flag)) else Poison(
                            f'loop-carried value {name}')
            if (phi - plo).is_const() and (phi - plo).c == 0:
                env[var] = plo
                self.classes[sym] = label
                self.ivals.pop(sym, None)
            else:
                env[var] = Aff.sym(sym)
                self.ivals[sym] = (plo, phi)
                self.classes[sym] = label
            fr = Frame()
            self.frames.append(fr)
            mem_before = dict(self.mem)
            ivals_before = set(self.ivals)
            dirty_before = set(self.dirty)
            nstores = len(self.stores)
            nreads = len(self.symreads)
            syms_before = {k: (v, list(v.pending)) for k, v in env.items()
                           if isinstance(v, SymArr)}
            try:
                self.block(st.body, env)
            finally:
                self.frames.pop()
            if fr.early & fr.written:
                raise self.err(st, 'loop-carried use of local array '
                                   f'elements {sorted(fr.early & fr.written)[:3]}')
            # in-loop stores to symbolic arrays become rules
            for k, v in env.items():
                if isinstance(v, SymArr) and v.pending:
                    for rn, rj in self.symreads[nreads:]:
                        if rn != v.name:
                            continue
                        for sj, _ in v.pending:
                            d = rj - sj
                            if not (d.is_const() and d.c == 0) and \
                                    self.decide('!=', rj, sj) is not True:
                                raise self.err(
                                    st, f'loop-carried dependency through '
                                        f'{v.name}[{sj}] / [{rj}]')
                    self.flush_pending(st, v, sym, plo, phi)
            del self.symreads[nreads:]
            stored.update(s.arr for s in self.stores[nstores:])
            self.dirty = dirty_before
            for s_ in list(self.ivals):
                if s_ not in ivals_before:
                    del self.ivals[s_]
            # field stores of a generic iteration do not persist as exact
            # memory for code after the loop
            self.mem = mem_before
            self.ivals.pop(sym, None)
            self.classes.pop(sym, None)
            self.dims = saved_dims

    def flush_pending(self, st, arr, sym, plo, phi):
        for j, val in arr.pending:
            k = j.t.get(sym, 0)
            if k == 0 or any(s != sym and s in self.ivals for s in j.t):
                # store index independent of this loop: keep as element rule
                arr.rules = arr.rules + [Rule(j, j, lambda _j, v=val: v,
                                              'element')]
                continue
            rest = j - Aff(0, {sym: k})
            if k != 1:
                # strided store: keep a rule on the strided image; reads must
                # hit it exactly (same stride)  -> handled by fn below
                pass
            lo_i = plo * k + rest if k > 0 else phi * k + rest
            hi_i = phi * k + rest if k > 0 else plo * k + rest

            def fn(jj, val=val, k=k, rest=rest, sym=sym):
                i = (jj - rest) * Fr(1, 1) * (Fr(1) / k)
                return subst_lin(val, {sym: i})
            arr.rules = arr.rules + [Rule(lo_i, hi_i, fn, f'loop {sym}')]
        arr.pending = []

    # ------------------------------------------------------------------- driver
    def run(self):
        env = {}
        for a in self.fn.args.args:
            if a.arg not in self.params:
                raise AnalysisError(
                    f'anchor vanished: parameter {a.arg} of {self.fn.name} '
                    f'has no role')
            kind = self.params[a.arg]
            if kind[0] == 'scalar':
                v = kind[1]
                env[a.arg] = Aff.of(v) if not isinstance(
                    v, (Flag, Lin, TupleVal)) else v
            elif kind[0] == 'tuple':
                env[a.arg] = TupleVal([ParamArr(nm, role, tuple(shp))
                                       for nm, role, shp in kind[1]])
            else:
                env[a.arg] = ParamArr(a.arg, kind[0], tuple(kind[1]))
        self.block(self.fn.body, env)
        self.env = env
        return self


def subst_aff_key(k, m):
    return Aff.from_key(k).subs(m).key()


def subst_atom(atom, m):
    if isinstance(atom, tuple) and len(atom) == 2 and isinstance(atom[1], tuple):
        return (atom[0], tuple(subst_aff_key(k, m) for k in atom[1]))
    return atom


def subst_lin(lin, m):
    """Substitute index symbols (dict sym -> Aff) in all cells and atoms."""
    out = Lin()
    t = {}
    for cell, coef in lin.terms.items():
        c2 = subst_atom(cell, m)
        r2 = coef.rename(lambda a: subst_atom(a, m))
        t[c2] = t[c2] + r2 if c2 in t else r2
    out = Lin(t, lin.c.rename(lambda a: subst_atom(a, m)))
    return out
