"""C20 - time-domain helper partitions and fills frequencies consistently.

Rules (DESIGN.md 4/C20):
  F1  the three masks, evaluated exhaustively over the order regions of
      (f, fmin, fmax): extrapolate/interpolate disjoint, their complement is
      exactly f > fmax, compute and interpolate share the band predicate
  F2  mask / array pairing of the freq_* properties
  F3  interpolate() stores only through the two masks; pass-through branch;
      spline and PCHIP arguments
  F4  freq2time() hands the filled spectrum and its own settings to the
      reference transform
"""
import ast

from ..core import astutil as au
from ..core.report import AnalysisError
from ..core.tables import FiniteEval
from ..core.template import find, has, require

LEVEL = 'other'
TIME = 'emg3d/time.py'
FMIN, FMAX = 1.0, 3.0
REGIONS = {'f<fmin': 0.5, 'f=fmin': 1.0, 'fmin<f<fmax': 2.0, 'f=fmax': 3.0,
           'f>fmax': 4.0}


def getter(mod, name):
    g = [m for m in mod.methods('Fourier', name)
         if 'property' in au.decorator_names(m)]
    if len(g) != 1:
        raise AnalysisError(f'anchor vanished: Fourier.{name} getter')
    return g[0]


def mask_table(mod, name):
    """Truth table of a frequency mask over the five order regions.  With
    several returns, a guard that is not a function of (f, fmin, fmax) keeps
    both arms possible; a region on which the possible returns disagree, or
    return something that is not a comparison with the band, gets the entry
    'not decided by the band' (which equals no expected value)."""
    g = getter(mod, name)
    ret = sorted((n for n in ast.walk(g) if isinstance(n, ast.Return)),
                 key=lambda n: n.lineno)
    if not ret:
        raise AnalysisError(f'Fourier.{name}: no return')
    src = ' '.join(ast.unparse(r.value) for r in ret)
    arr = 'self.freq_coarse' if 'self.freq_coarse' in src else \
        'self.freq_required'
    out = {}
    for reg, x in REGIONS.items():
        fe = FiniteEval({'self.freq_required': x, 'self.freq_coarse': x,
                         'self.fmin': FMIN, 'self.fmax': FMAX,
                         'self._fmin': FMIN, 'self._fmax': FMAX}, where=TIME)
        vals = set()
        for r in ret:
            possible = True
            for t, pol in au.guards_of(r, g):
                try:
                    if bool(fe.ev(t)) != pol:
                        possible = False
                except AnalysisError:
                    pass            # not a function of the band: both arms
            if not possible:
                continue
            try:
                vals.add(bool(fe.ev(r.value)))
            except AnalysisError:
                vals.add('opaque')
        out[reg] = vals.pop() if len(vals) == 1 and 'opaque' not in vals \
            else 'not decided by the band'
    return out, arr, ret[-1]


# settings whose value cannot change the result (reason per entry)
F5_EXEMPT = {'verb': 'verbosity: only selects what is printed'}


def rule_F5(ctx, mod):
    """Cache coherence of class Fourier.  Attributes stored by a method M
    from values computed out of other settings (`_freq_req`, `_ft`, `_ftarg`
    in _check_time) are caches; every writer of a setting they were computed
    from must re-run M afterwards, with arguments under which every cached
    attribute is stored again.  Properties computed on access are always
    fresh and need nothing."""
    from ..core.cfg import CFG
    cls = mod.cls('Fourier')
    meths = [n for n in cls.body if isinstance(n, ast.FunctionDef)]
    # property name -> underlying attribute (getter `return self._x`)
    under = {}
    for m in meths:
        if 'property' in au.decorator_names(m):
            rets = [n for n in ast.walk(m) if isinstance(n, ast.Return)]
            if len(rets) == 1 and isinstance(rets[0].value, ast.Attribute) \
                    and ast.unparse(rets[0].value.value) == 'self':
                under[m.name] = rets[0].value.attr
    ctx.anchor({'time', 'signal', 'fmin', 'fmax', 'ft', 'ftarg'} <=
               set(under), 'Fourier getters of stored settings')

    def self_reads(e):
        out = set()
        for x in ast.walk(e):
            if isinstance(x, ast.Attribute) and isinstance(x.value, ast.Name) \
                    and x.value.id == 'self' and isinstance(x.ctx, ast.Load):
                out.add(under.get(x.attr, x.attr))
        return out

    # caches: stores `self._d = <value>` whose value (through locals of the
    # same method) reads other settings
    caches = {}      # (method name, attr) -> (store node, deps)
    for m in meths:
        if m.name == '__init__':
            continue
        env = {}
        for st in ast.walk(m):
            if isinstance(st, ast.Assign):
                deps = self_reads(st.value)
                for x in ast.walk(st.value):
                    if isinstance(x, ast.Name) and x.id in env:
                        deps |= env[x.id]
                for t in st.targets:
                    for y in (t.elts if isinstance(t, ast.Tuple) else [t]):
                        if isinstance(y, ast.Name):
                            env[y.id] = env.get(y.id, set()) | deps
        for st in ast.walk(m):
            if isinstance(st, ast.Assign) and len(st.targets) == 1 and \
                    isinstance(st.targets[0], ast.Attribute) and \
                    ast.unparse(st.targets[0].value) == 'self':
                d = st.targets[0].attr
                deps = self_reads(st.value)
                for x in ast.walk(st.value):
                    if isinstance(x, ast.Name) and x.id in env:
                        deps |= env[x.id]
                deps = {u for u in deps if u not in F5_EXEMPT and
                        u in set(under.values())}
                if deps - {d}:
                    caches[(m.name, d)] = (st, deps)
    ctx.anchor(len(caches) >= 3, 'cached attributes of Fourier '
               f'({sorted(caches)})')
    by_method = {}
    for (mn, d), (st, deps) in caches.items():
        by_method.setdefault(mn, []).append((d, st, deps))

    def executes(store, M, call):
        """Does `store` in M run for this call (constant arguments)?"""
        ps = au.params(M)[1:]
        bound = {}
        for i, a in enumerate(call.args):
            if i < len(ps) and isinstance(a, ast.Constant):
                bound[ps[i]] = a.value
        for k in call.keywords:
            if isinstance(k.value, ast.Constant):
                bound[k.arg] = k.value.value
        for t, pol in au.guards_of(store, M):
            if isinstance(t, ast.Name) and t.id in bound:
                if bool(bound[t.id]) != pol:
                    return False
            if isinstance(t, ast.UnaryOp) and isinstance(t.op, ast.Not) and \
                    isinstance(t.operand, ast.Name) and t.operand.id in bound:
                if (not bound[t.operand.id]) != pol:
                    return False
        return True

    n = 0
    for W in meths:
        for st in ast.walk(W):
            if not (isinstance(st, ast.Assign) and any(
                    isinstance(t, ast.Attribute) and
                    ast.unparse(t.value) == 'self' for t in st.targets)):
                continue
            for t in st.targets:
                if not (isinstance(t, ast.Attribute) and
                        ast.unparse(t.value) == 'self'):
                    continue
                u = t.attr
                for mn, items in by_method.items():
                    if mn == W.name:
                        continue
                    M = [m for m in meths if m.name == mn][0]
                    need = [(d, s_) for d, s_, deps in items if u in deps
                            and d != u or (u in deps and d == u and False)]
                    if not need:
                        continue
                    n += 1
                    cfg = CFG(W)
                    sn = cfg.node_of(st)
                    calls = [c for c in ast.walk(W) if isinstance(c, ast.Call)
                             and ast.unparse(c.func) == f'self.{mn}']
                    good = [c for c in calls if all(
                        executes(s_, M, c) for d, s_ in need)]
                    gnodes = [cfg.node_of(au.enclosing_stmt(c)) for c in good]
                    # every path from the store to the exit passes a good call
                    path = cfg.reachable_between(sn, cfg.exit, avoid=gnodes)
                    ok = cfg.exit not in path
                    who = W.name + ('.setter' if any(
                        d_.endswith('.setter')
                        for d_ in au.decorator_names(W)) else '')
                    ctx.check('C20.F5.coherent', f'Fourier.{who}: store of '
                              f'{u} refreshes {sorted(d for d, _ in need)}',
                              ok, f'`{au.stext(st)}` changes a setting that '
                              f'{mn}() used to compute '
                              f'{sorted(d for d, _ in need)}, but {mn}() is '
                              'not re-run (with all of them stored again) '
                              'afterwards: the cached values stay those of '
                              'the old setting', ctx.where(mod, st),
                              sample={'setting': u, 'recompute': mn})
    ctx.need(n >= 4, f'only {n} writers of cached-from settings')


def rule_F4_time(ctx, mod):
    """The time vector handed to the reference transform is the one the
    required frequencies were computed for: the vector that the reference
    check returns (float array, times below its minimum clamped) is kept, and
    what is stored is the instance's own array, not the caller's (a later
    in-place change of the caller's array would leave the cached frequencies
    behind)."""
    cls = mod.cls('Fourier')
    ct_ = mod.method('Fourier', '_check_time')
    un = [n for n in ast.walk(ct_) if isinstance(n, ast.Assign) and
          isinstance(n.targets[0], ast.Tuple) and 'check_time' in
          ast.unparse(n.value)]
    ctx.anchor(len(un) == 1 and len(un[0].targets[0].elts) == 4,
               'time, freq, ft, ftarg = check_time(...) in _check_time')
    first = ast.unparse(un[0].targets[0].elts[0])
    kept = first != '_' and has(f'self._time = {first}', ct_)
    ctx.check('C20.F4.handover', '_check_time keeps the checked time vector',
              bool(kept), 'the time vector returned by the reference check is '
              'discarded: freq_required belongs to the checked times (float '
              'array, t < 1e-20 s clamped) while freq2time hands the raw '
              '`time` to the transform (NaN / overflow at t = 0, lists fail)',
              ctx.where(mod, un[0]))
    # own copy: every store of `_time` outside _check_time is a copy, or
    # _check_time (which the cache-coherence rule F5 requires after every
    # such store) hands a copy to the reference check and keeps its result
    a0 = un[0].value.args[0] if isinstance(un[0].value, ast.Call) and \
        un[0].value.args else None
    copied_in = isinstance(a0, ast.Call) and ast.unparse(a0.func) in (
        'np.array', 'np.copy')
    kept = kept and copied_in
    n = 0
    for m in [x for x in cls.body if isinstance(x, ast.FunctionDef)]:
        if m is ct_:
            continue
        for st in ast.walk(m):
            if isinstance(st, ast.Assign) and any(
                    ast.unparse(t) == 'self._time' for t in st.targets):
                n += 1
                v = st.value
                copy = isinstance(v, ast.Call) and (
                    ast.unparse(v.func) in ('np.array', 'np.copy') or
                    (isinstance(v.func, ast.Attribute) and
                     v.func.attr == 'copy'))
                ctx.check('C20.F4.handover', f'Fourier.{m.name}: own copy of '
                          'the time vector', copy or kept,
                          f'`{au.stext(st)}` keeps the caller\'s array; '
                          'changing it in place later changes `time` but not '
                          'the cached required frequencies / FFTLog setup',
                          ctx.where(mod, st))
    ctx.need(n >= 2, 'stores of _time in __init__ and the setter not found')


MUT = {'update', 'append', 'extend', 'insert', 'pop', 'remove', 'clear',
       'sort', 'setdefault', 'popitem', 'fill', 'resize'}


def rule_F6_own(ctx, mod):
    """Settings handed to a Fourier instance (time vector, ftarg dictionary,
    input frequencies) stay the caller's objects; an instance keeps them by
    reference or replaces them, but never writes INTO them: a dictionary
    shared by several instances would carry the checked, instance-specific
    entries of the last one to all others, whose cached frequencies then
    belong to other transform arguments."""
    cls = mod.cls('Fourier')
    meths = [n for n in cls.body if isinstance(n, ast.FunctionDef)]
    # attributes that may hold a caller's object: bound to a parameter (also
    # under a test / through kwargs.pop)
    shared = set()
    for m in meths:
        ps = set(au.all_params(m)) - {'self'}
        for st in ast.walk(m):
            if isinstance(st, ast.Assign) and len(st.targets) == 1 and \
                    isinstance(st.targets[0], ast.Attribute) and \
                    ast.unparse(st.targets[0].value) == 'self':
                v = st.value
                names = {x.id for x in ast.walk(v) if isinstance(x, ast.Name)}
                direct = isinstance(v, ast.Name) and v.id in ps
                popped = isinstance(v, ast.Call) and ast.unparse(
                    v.func) == 'kwargs.pop'
                if direct or popped or (isinstance(v, ast.IfExp) and
                                        names & ps):
                    shared.add(st.targets[0].attr)
    # (after canonicalisation `x = a if c else p` is an if / else statement)
    ctx.anchor({'_ftarg', '_time'} <= shared or {'_ftarg'} <= shared,
               f'attributes bound to caller objects in Fourier ({shared})')
    props = {}
    for m in meths:
        if 'property' in au.decorator_names(m):
            r = [n for n in ast.walk(m) if isinstance(n, ast.Return)]
            if len(r) == 1 and isinstance(r[0].value, ast.Attribute) and \
                    ast.unparse(r[0].value.value) == 'self':
                props[m.name] = r[0].value.attr
    names = shared | {p for p, a in props.items() if a in shared}
    n = 0
    for m in meths:
        for st in ast.walk(m):
            bad = None
            if isinstance(st, ast.Call) and isinstance(
                    st.func, ast.Attribute) and st.func.attr in MUT and \
                    isinstance(st.func.value, ast.Attribute) and ast.unparse(
                        st.func.value.value) == 'self' and \
                    st.func.value.attr in names:
                bad = st
            tgs = st.targets if isinstance(st, ast.Assign) else (
                [st.target] if isinstance(st, ast.AugAssign) else (
                    st.targets if isinstance(st, ast.Delete) else []))
            for t in tgs:
                if isinstance(t, ast.Subscript) and isinstance(
                        t.value, ast.Attribute) and ast.unparse(
                            t.value.value) == 'self' and \
                        t.value.attr in names:
                    bad = st
                if isinstance(st, ast.AugAssign) and isinstance(
                        t, ast.Attribute) and ast.unparse(t.value) == \
                        'self' and t.attr in names:
                    bad = st
            if bad is not None:
                n += 1
                ctx.check('C20.F5.coherent', f'Fourier.{m.name} '
                          f'`{ast.unparse(bad)[:50]}`', False,
                          'writes into an object that may be the caller\'s '
                          '(given to __init__ / a setter and kept by '
                          'reference): instances created from the same '
                          'dictionary / array share it, and the checked '
                          'transform arguments of one instance replace '
                          'those of the others', ctx.where(mod, bad))
    ctx.ok('C20.F5.coherent', 'Fourier does not write into objects given by '
           f'the caller ({n} in-place writes found)',
           sample={'attributes': sorted(names), 'writes': n})


def run(ctx):
    ctx.explanation = (
        'The three frequency masks are lifted as predicates of one frequency '
        'and the two band limits and evaluated on the five order regions '
        '(f<fmin, f=fmin, between, f=fmax, f>fmax) - an exhaustive finite '
        'abstraction because the predicates only compare f with fmin and '
        'fmax; store targets of interpolate() and the hand-over of '
        'freq2time() are read off the AST.')
    ctx.exhaustive = True
    ctx.assumptions = ['spline / PCHIP values are not decided',
                       'empymod.model.tem is the reference transform']
    mod = ctx.repo.mod(TIME)
    rule_F5(ctx, mod)
    rule_F6_own(ctx, mod)
    rule_F4_time(ctx, mod)
    ext, a1, n1 = mask_table(mod, 'ifreq_extrapolate')
    itp, a2, n2 = mask_table(mod, 'ifreq_interpolate')
    cmp_, a3, n3 = mask_table(mod, 'ifreq_compute')
    for nm_, tb_, nd_ in (('ifreq_extrapolate', ext, n1),
                          ('ifreq_interpolate', itp, n2),
                          ('ifreq_compute', cmp_, n3)):
        und = [r_ for r_, v_ in tb_.items() if not isinstance(v_, bool)]
        ctx.check('C20.F1.band', f'Fourier.{nm_} is a function of the band',
                  not und, f'on {und} the mask depends on something else '
                  'than the position of the frequency relative to fmin and '
                  'fmax (another setting selects a different mask): '
                  'frequencies outside the requested band are computed / the '
                  'three groups are no partition', ctx.where(mod, nd_))
    for reg in REGIONS:
        ctx.check('C20.F1.partition', f'extrapolate/interpolate disjoint on '
                  f'{reg}', not (ext[reg] and itp[reg]),
                  'a required frequency is both extrapolated and '
                  'interpolated', ctx.where(mod, n1),
                  sample={'region': reg, 'extrapolate': ext[reg],
                          'interpolate': itp[reg]})
        ctx.check('C20.F1.partition', f'zero group is exactly f > fmax on '
                  f'{reg}', (not ext[reg] and not itp[reg]) ==
                  (reg == 'f>fmax'), 'the group of required frequencies that '
                  'is left zero is not exactly "above fmax"',
                  ctx.where(mod, n2))
        ctx.check('C20.F1.partition', f'extrapolated group is exactly '
                  f'f < fmin on {reg}', ext[reg] == (reg == 'f<fmin'),
                  'extrapolation mask is not "below fmin"',
                  ctx.where(mod, n1))
        ctx.check('C20.F1.band', f'compute and interpolate share the band '
                  f'on {reg}', cmp_[reg] == itp[reg],
                  'a frequency inside the band for one of compute / '
                  'interpolate is outside for the other: data computed at '
                  'required frequencies would not pass through',
                  ctx.where(mod, n3), sample={'region': reg,
                                              'compute': cmp_[reg]})
    ctx.floor('C20.F1.partition', 15)
    ctx.floor('C20.F1.band', 8)
    ctx.check('C20.F2.pairing', 'masks index their own vectors',
              (a1, a2, a3) == ('self.freq_required', 'self.freq_required',
                               'self.freq_coarse'),
              f'masks are built on ({a1}, {a2}, {a3}); extrapolate and '
              'interpolate act on the required, compute on the coarse '
              'frequencies', ctx.where(mod, n1))
    for name, want in (('freq_compute', 'self.freq_coarse[self.ifreq_compute]'),
                       ('freq_extrapolate',
                        'self.freq_required[self.ifreq_extrapolate]'),
                       ('freq_interpolate',
                        'self.freq_required[self.ifreq_interpolate]')):
        g = getter(mod, name)
        ret = [n for n in ast.walk(g) if isinstance(n, ast.Return)]
        ctx.check('C20.F2.pairing', f'Fourier.{name}',
                  len(ret) == 1 and ast.unparse(ret[0].value) == want,
                  f'{name} is `{ast.unparse(ret[0].value)}`, expected '
                  f'`{want}`', ctx.where(mod, g))
    # freq_coarse three-way choice
    g = getter(mod, 'freq_coarse')
    tab = {}
    REQ = (10, 11, 12, 13, 14, 15, 16)
    for ex in (None, 2, 3):
        for inp in (None, 'INP'):
            fe = FiniteEval({'self.every_x_freq': ex, 'self.input_freq': inp,
                             'self.freq_required': REQ}, where=TIME)
            tab[(ex, inp)] = fe.call(g)
    want = {(None, None): REQ, (None, 'INP'): 'INP', (2, None): REQ[::2],
            (2, 'INP'): REQ[::2], (3, None): REQ[::3], (3, 'INP'): REQ[::3]}
    ctx.check('C20.F2.pairing', 'Fourier.freq_coarse choice', tab == want,
              f'coarse frequencies are chosen as {tab}', ctx.where(mod, g),
              sample={'table': {str(k): v for k, v in tab.items()}})
    # F3 interpolate()
    fn = mod.method('Fourier', 'interpolate')
    ps = au.params(fn)
    init = find('_o_ = np.zeros(self.freq_required.size, '
                'dtype=np.complex128)', fn)
    ctx.check('C20.F3.stores', 'interpolate: zero spectrum of required size',
              len(init) == 1, 'output spectrum is not initialised as complex '
              'zeros over the required frequencies', ctx.where(mod, fn))
    out = init[0][1]['_o_'] if init else 'out'
    stores = [n for n in ast.walk(fn) if isinstance(n, (ast.Assign,
                                                        ast.AugAssign))
              and any(isinstance(t, ast.Subscript) and ast.unparse(t.value)
                      == out for t in (n.targets if isinstance(
                          n, ast.Assign) else [n.target]))]
    allowed = {f'{out}[self.ifreq_interpolate]',
               f'{out}[self.ifreq_extrapolate]'}
    for s_ in stores:
        t = ast.unparse(s_.targets[0] if isinstance(s_, ast.Assign)
                        else s_.target)
        ctx.check('C20.F3.stores', f'interpolate `{au.stext(s_)[:60]}`',
                  t in allowed and isinstance(s_, ast.Assign),
                  f'interpolate() writes `{t}`; the spectrum may only be '
                  'filled through the interpolation and extrapolation masks '
                  '(zero elsewhere)', ctx.where(mod, s_))
    ctx.floor('C20.F3.stores', 4)
    rets = [n for n in ast.walk(fn) if isinstance(n, ast.Return)]
    ctx.check('C20.F3.stores', 'interpolate returns the filled spectrum',
              len(rets) == 1 and ast.unparse(rets[0].value) == out,
              'interpolate() does not return the filled spectrum',
              ctx.where(mod, fn))
    # pass-through branch
    br = [n for n in fn.body if isinstance(n, ast.If)]
    ctx.anchor(len(br) == 1, 'pass-through / spline branch in interpolate()')
    # after canonicalisation the branch is written with its positive test
    FC, FR = 'self.freq_coarse', 'self.freq_required'
    ident = [f'np.array_equal({FC}, {FR})', f'np.array_equal({FR}, {FC})',
             f'np.all({FC} == {FR})', f'({FC} == {FR}).all()',
             f'{FC}.size == {FR}.size and np.all({FC} == {FR})',
             f'{FC}.size == {FR}.size and np.allclose({FC}, {FR})',
             f'{FC}.shape == {FR}.shape and np.all({FC} == {FR})']
    from ..core.template import same as same_t
    pos = any(same_t(t, br[0].test) is not None for t in ident)
    sizes = same_t(f'{FC}.size == {FR}.size', br[0].test) is not None
    same, diff = br[0].body, br[0].orelse
    ctx.check('C20.F3.passthrough', 'interpolate: verbatim fill only for '
              'identical frequency vectors', pos,
              f'the data are filled in verbatim under `{ast.unparse(br[0].test)}`'
              ': explicit input frequencies of the same number as the '
              'required ones (but other values) are written onto the '
              'required frequencies without interpolation',
              ctx.where(mod, br[0]))
    ok = len(same) == 1 and has(
        f'{out}[self.ifreq_interpolate] = {ps[1]}', same[0])
    ctx.check('C20.F3.passthrough', 'interpolate: identical frequencies pass '
              'data through unchanged', ok, 'data supplied at the required '
              'frequencies are not passed through unchanged',
              ctx.where(mod, br[0]))
    # the spline has its knots at the COMPUTED frequencies; it is evaluated at
    # all required frequencies of the band.  With a coarse-frequency option
    # the computed ones need not reach fmin / fmax, and required frequencies
    # between fmin and the first (the last and fmax) computed one are then
    # extrapolated by the cubic spline (default ext=0) instead of being
    # "taken or interpolated from the computed ones"
    spl = [c for c in au.calls(fn) if isinstance(c.func, ast.Name) and any(
        isinstance(a, ast.Call) and 'freq_compute' in ast.unparse(a)
        for a in c.args)]
    guarded = any('ext' in {k.arg for k in c.keywords} for c in spl) or any(
        'clip' in ast.unparse(n) or 'freq_compute[0]' in ast.unparse(n) or
        'freq_compute.min()' in ast.unparse(n) for n in ast.walk(fn))
    ctx.check('C20.F3.spline', 'interpolate: no extrapolation inside the band',
              guarded, 'the in-band spline is evaluated at every required '
              'frequency of [fmin, fmax] although its knots (freq_compute) '
              'may not reach fmin / fmax with every_x_freq / input_freq: '
              'values there are cubic extrapolations', ctx.where(mod, br[0]))
    parts = {}
    for part in ('real', 'imag'):
        f = find(f'_v_ = _S_(np.log(self.freq_compute), {ps[1]}.{part})'
                 '(np.log(self.freq_interpolate))', diff)
        ctx.check('C20.F3.spline', f'interpolate: spline of the {part} part',
                  len(f) == 1, f'{part} part is not splined from the '
                  'computed to the interpolated frequencies (log axis)',
                  ctx.where(mod, br[0]))
        parts[part] = f[0][1]['_v_'] if f else '?'
    ctx.check('C20.F3.spline', 'interpolate: real + 1j*imag',
              has(f'{out}[self.ifreq_interpolate] = {parts["real"]} + '
                  f'1j*{parts["imag"]}', diff),
              'interpolated spectrum is not real + i imag',
              ctx.where(mod, br[0]))
    fe_ = find('_f_ = np.r_[_eps_, self.freq_compute]', fn)
    de_ = find(f'_d_ = np.r_[{ps[1]}[0].real - _e_, {ps[1]}]', fn)
    ok = len(fe_) == 1 and len(de_) == 1
    if ok:
        try:
            eps = float(ast.literal_eval(fe_[0][1]['_eps_']))
            im = complex(ast.literal_eval(de_[0][1]['_e_']))
            ok = 0 < eps < 1e-20 and im.real == 0 and 0 < abs(im.imag) < 1e-20
        except Exception:
            ok = False
    ctx.check('C20.F3.extrapolate', 'extrapolation anchors', ok,
              'extrapolation is not anchored at (f->0: lowest real value, '
              'vanishing imaginary part) followed by the computed data',
              ctx.where(mod, fn))
    ext = {}
    if fe_ and de_:
        fx, dx = fe_[0][1]['_f_'], de_[0][1]['_d_']
        for part in ('real', 'imag'):
            f = find(f'_v_ = _P_({fx}, {dx}.{part})(self.freq_extrapolate)',
                     fn)
            ok = len(f) == 1
            if ok:
                pd = find(f'{f[0][1]["_P_"]} = '
                          'sp.interpolate.PchipInterpolator', fn)
                ok = len(pd) == 1
            ctx.check('C20.F3.extrapolate', f'PCHIP of the {part} part', ok,
                      f'{part} part is not extended monotonically (PCHIP) '
                      'to the extrapolated frequencies', ctx.where(mod, fn))
            ext[part] = f[0][1]['_v_'] if f else '?'
        ctx.check('C20.F3.extrapolate', 'extrapolated values stored',
                  has(f'{out}[self.ifreq_extrapolate] = {ext["real"]} + '
                      f'1j*{ext["imag"]}', fn),
                  'extrapolated spectrum is not real + i imag',
                  ctx.where(mod, fn))
    # F4 freq2time
    f2 = mod.method('Fourier', 'freq2time')
    p2 = au.params(f2)
    calls = [c for c in au.calls(f2) if ast.unparse(c.func) ==
             'empymod.model.tem']
    # (helpers of the class called from freq2time are looked into as well)
    if not calls:
        for c_ in au.calls(f2):
            if isinstance(c_.func, ast.Attribute) and isinstance(
                    c_.func.value, ast.Name) and c_.func.value.id == 'self':
                h_ = mod.method('Fourier', c_.func.attr, required=False)
                if h_ is not None:
                    calls += [x for x in au.calls(h_) if ast.unparse(
                        x.func) == 'empymod.model.tem']
    ctx.check('C20.F4.handover', 'freq2time: the reference transform does '
              'the transform', len(calls) == 1,
              'freq2time() does not hand the filled spectrum to the '
              'reference transform empymod.model.tem (it is re-implemented '
              'or by-passed): equality with the reference transform for '
              'every signal / ft / ftarg is not given by construction any '
              'more', ctx.where(mod, f2))
    if len(calls) != 1:
        return
    c = calls[0]
    kws = {k.arg: ast.unparse(k.value) for k in c.keywords}
    want = {'freq': 'self.freq_required', 'time': 'self.time',
            'signal': 'self.signal', 'ft': 'self.ft', 'ftarg': 'self.ftarg'}
    for k, w in want.items():
        ctx.check('C20.F4.handover', f'freq2time: {k}', kws.get(k) == w,
                  f'{k}={kws.get(k)} is handed to the transform, expected '
                  f'{w}', ctx.where(mod, c), sample={'kw': k,
                                                     'value': kws.get(k)})
    src = find(f'_d_ = self.interpolate({p2[1]})', f2)
    ok = len(src) == 1 and len(c.args) == 2 and has(
        f'{src[0][1]["_d_"]}[:, None]', c.args[0]) and has(
        f'np.array({p2[2]})', c.args[1])
    ctx.check('C20.F4.handover', 'freq2time: filled spectrum', ok,
              'the transform does not receive interpolate(fdata)',
              ctx.where(mod, c))
    ctx.floor('C20.F4.handover', 6)
