"""C18 - the CLI is equivalent to the Python API for every option.

Option routing (DESIGN.md 4/C18):
  Q1  every documented key of a section is parsed for that section
  Q2  every key the parser can emit is accepted downstream by the API
  Q3  argparse destinations == keys popped from the argument dictionary
  Q4  terminal values are tested before configuration-file values
  Q5  unknown keys of every section raise
  Q6  documented types match the extraction applied by the parser
"""
import ast
import re

from ..core import astutil as au
from ..core.report import AnalysisError
from ..core.template import find, has
from ..core.tables import FiniteEval

LEVEL = 'other'
PARSER = 'emg3d/cli/parser.py'
MAIN = 'emg3d/cli/main.py'
RUN = 'emg3d/cli/run.py'
DOCS = 'docs/manual/cli.rst'
SECTIONS = ('files', 'simulation', 'solver_opts', 'gridding_opts',
            'noise_opts', 'data', 'layered')
TYPE_WORDS = [('list of lists', 'listlist'), ('list', 'list'),
              ('bool', 'bool'), ('int', 'int'), ('float', 'float'),
              ('string', 'str'), ('str', 'str')]


EXAMPLES = {}


def parse_docs(text):
    sec = None
    keys, types = {}, {}
    EXAMPLES.clear()
    for line in text.splitlines():
        m = re.match(r'^\s+\[(\w+)\]\s*$', line)
        if m:
            sec = m.group(1)
            keys.setdefault(sec, [])
            continue
        if not line.startswith('  '):
            if line.strip() and sec and not line.startswith(' '):
                sec = None
            continue
        m = re.match(r'^\s+# (\w+) =([^#]*)(#\s*(.*))?$', line)
        if m and sec:
            k = m.group(1)
            keys[sec].append(k)
            ann = (m.group(4) or '').strip().lower()
            ex = m.group(2).strip()
            eg = re.search(r'e\.g\.?[:,]\s*(.*)$', (m.group(4) or ''))
            if not ex and eg:
                ex = eg.group(1).strip()
            if ex:
                EXAMPLES[(sec, k)] = ex
            for word, t in TYPE_WORDS:
                if ann.startswith(word):
                    types[(sec, k)] = t
                    break
            else:
                example = m.group(2)
                if ';' in example:
                    types[(sec, k)] = 'listlist'
                elif ',' in example:
                    types[(sec, k)] = 'list'
    return keys, types


class ParserWalk:
    def __init__(self, fn):
        c = find('_c_ = configparser.ConfigParser(inline_comment_prefixes=__)',
                 fn) or find('_c_ = configparser.ConfigParser()', fn)
        if len(c) != 1:
            raise AnalysisError('anchor vanished: ConfigParser instance in '
                                'parse_config_file')
        self.cfg = c[0][1]['_c_']
        self.args = au.params(fn)[0]
        t = find(f'_t_[_k_] = {self.args}.pop(_k_)', fn)
        if not t:
            raise AnalysisError('anchor vanished: terminal dict in '
                                'parse_config_file')
        self.term = t[0][1]['_t_']
        self.bind = {}
        self.dicts = {}
        self.sections = {}
        self.keys = {}          # section -> set
        self.types = {}         # (section, key) -> type
        self.none_ok = {}       # (section, key) -> 'None' text mapped to None
        self.remainders = {}    # all_x -> section
        self.raises = set()     # all_x tested + raise
        self.term_first = {}    # key -> bool
        self.walk(fn.body)

    def vals(self, n):
        if isinstance(n, ast.Constant):
            return [n.value]
        if isinstance(n, ast.Name):
            return self.bind.get(n.id, [])
        return []

    def record(self, sec, n):
        for k in self.vals(n):
            self.keys.setdefault(sec, set()).add(k)

    def scan_calls(self, node):
        for c in ast.walk(node):
            if not isinstance(c, ast.Call):
                continue
            f = ast.unparse(c.func)
            if f == f'{self.cfg}.has_option' and len(c.args) == 2 and isinstance(
                    c.args[0], ast.Constant):
                self.record(c.args[0].value, c.args[1])
            elif f.endswith('.pop') and isinstance(c.func.value, ast.Name) \
                    and c.func.value.id in self.sections and c.args:
                self.record(self.sections[c.func.value.id], c.args[0])

    def classify(self, body, sec, keynode):
        txt = ' '.join(ast.unparse(s) for s in body)
        if "split(';')" in txt:
            t = 'listlist'
        elif "split(',')" in txt:
            t = 'list'
        elif 'getboolean' in txt:
            t = 'bool'
        elif 'getint' in txt:
            t = 'int'
        elif 'getfloat' in txt or f'float({self.cfg}.get(' in txt:
            t = 'float'
        elif f'{self.cfg}.get(' in txt:
            t = 'str'
        else:
            return
        for k in self.vals(keynode):
            self.types[(sec, k)] = t
            if "'None'" in txt:
                self.none_ok[(sec, k)] = True

    def walk(self, stmts):
        for st in stmts:
            if isinstance(st, ast.Assign) and len(st.targets) == 1 and \
                    isinstance(st.targets[0], ast.Name):
                name = st.targets[0].id
                v = st.value
                if isinstance(v, ast.Constant) and isinstance(v.value, str):
                    self.bind[name] = [v.value]
                elif au.const_list(v) is not None:
                    self.bind[name] = au.const_list(v)
                elif isinstance(v, ast.Dict) and all(isinstance(
                        k, ast.Constant) for k in v.keys):
                    self.dicts[name] = [k.value for k in v.keys]
                elif isinstance(v, ast.Call) and ast.unparse(v.func) == \
                        'dict' and v.args and isinstance(
                            v.args[0], ast.Call) and ast.unparse(
                                v.args[0].func) == f'{self.cfg}.items':
                    self.sections[name] = v.args[0].args[0].value
                    self.remainders[name] = v.args[0].args[0].value
                self.scan_calls(st)
                # `value = all_data.pop(key, False)` followed by a split
                continue
            if isinstance(st, ast.For):
                tg = st.target
                if isinstance(tg, ast.Name):
                    vals = au.const_list(st.iter)
                    if vals is None and isinstance(st.iter, ast.Name):
                        vals = self.bind.get(st.iter.id)
                    if vals is not None:
                        self.bind[tg.id] = vals
                elif isinstance(tg, ast.Tuple) and isinstance(
                        st.iter, ast.Call) and isinstance(
                            st.iter.func, ast.Attribute) and \
                        st.iter.func.attr == 'items' and isinstance(
                            st.iter.func.value, ast.Name) and \
                        st.iter.func.value.id in self.dicts:
                    self.bind[tg.elts[0].id] = self.dicts[
                        st.iter.func.value.id]
                # data-style: value = all_x.pop(key, False); if value: split
                pops = [c for c in ast.walk(st) if isinstance(c, ast.Call) and
                        ast.unparse(c.func).endswith('.pop') and isinstance(
                            c.func.value, ast.Name) and c.func.value.id in
                        self.sections and c.args and isinstance(
                            c.args[0], ast.Name)]
                if pops and "split(',')" in ast.unparse(st):
                    for c in pops:
                        for k in self.vals(c.args[0]):
                            self.types[(self.sections[c.func.value.id], k)] \
                                = 'list'
                self.walk(st.body)
                continue
            if isinstance(st, ast.If):
                self.scan_calls(st.test)
                t = st.test
                ttxt = ast.unparse(t)
                if isinstance(t, ast.Call) and ast.unparse(t.func) == \
                        f'{self.cfg}.has_option' and isinstance(
                            t.args[0], ast.Constant):
                    self.classify(st.body, t.args[0].value, t.args[1])
                if isinstance(t, ast.Name) and t.id in self.remainders and \
                        any(isinstance(b, ast.Raise) for b in st.body):
                    self.raises.add(t.id)
                # precedence: `if term[X] is not None` first, config in elif
                if f"{self.term}[" in ttxt and 'is not None' in ttxt:
                    els = st.orelse
                    if len(els) == 1 and isinstance(els[0], ast.If) and \
                            f'{self.cfg}.has_option' in ast.unparse(
                                els[0].test):
                        for k in self.vals(els[0].test.args[1]):
                            self.term_first[k] = True
                elif f'{self.cfg}.has_option' in ttxt:
                    for e in ast.walk(ast.Module(st.orelse, [])):
                        if isinstance(e, ast.If) and f'{self.term}[' in \
                                ast.unparse(e.test) and 'is not None' in \
                                ast.unparse(e.test):
                            for k in self.vals(t.args[1]):
                                self.term_first[k] = False
                self.walk(st.body)
                self.walk(st.orelse)
                continue
            self.scan_calls(st)
            if isinstance(st, (ast.With, ast.Try)):
                self.walk(getattr(st, 'body', []))


def accepted(ctx):
    """Keys accepted downstream, per parser section."""
    sol = ctx.repo.mod('emg3d/solver.py')
    sim = ctx.repo.mod('emg3d/simulations.py')
    mes = ctx.repo.mod('emg3d/meshes.py')
    sur = ctx.repo.mod('emg3d/surveys.py')
    mod = ctx.repo.mod('emg3d/models.py')
    mps = ctx.repo.mod('emg3d/maps.py')
    out = {}
    mg = sol.cls('MGParameters')
    fields = {s.target.id for s in mg.body if isinstance(s, ast.AnnAssign)}
    solve = sol.func('solve')
    pops = {c.args[0].value for c in au.calls(solve, 'kwargs.pop')
            if c.args and isinstance(c.args[0], ast.Constant)}
    out['solver_opts'] = (fields | set(au.params(solve)) | pops |
                          {'tol_gradient'}) - {'model', 'sfield', 'efield',
                                               'shape_cells', 'return_info'}
    eg = mes.func('estimate_gridding_opts')
    gk = set()
    p0 = au.params(eg)[0]
    for n in ast.walk(eg):
        if isinstance(n, ast.For) and isinstance(n.target, ast.Name) and \
                au.const_list(n.iter):
            for c in ast.walk(n):
                if isinstance(c, ast.Call) and ast.unparse(c.func) == \
                        f'{p0}.pop' and c.args and isinstance(
                            c.args[0], ast.Name) and c.args[0].id == \
                        n.target.id:
                    gk |= set(au.const_list(n.iter))
    for c in ast.walk(eg):
        if isinstance(c, ast.Call) and ast.unparse(c.func) == f'{p0}.pop' \
                and c.args and isinstance(c.args[0], ast.Constant):
            gk.add(c.args[0].value)
    ctx.anchor(len(gk) >= 10, 'keys consumed by estimate_gridding_opts')
    sm = sim.method('Simulation', '_set_model')
    gk |= {c.args[0].value for c in ast.walk(sm) if isinstance(c, ast.Call)
           and isinstance(c.func, ast.Attribute) and c.func.attr == 'pop' and
           ast.unparse(c.func.value) not in ('kwargs',) and c.args and
           isinstance(c.args[0], ast.Constant) and c.args[0].value ==
           'expand'}
    out['gridding_opts'] = gk
    from .c17 import Classes
    C = Classes(ctx)
    init = sim.method('Simulation', '__init__')
    out['simulation'] = (set(au.params(init)) | C.kwargs_pops('Simulation')) \
        - {'self'}
    an = sur.method('Survey', 'add_noise')
    rn = sur.func('random_noise')
    comp = sim.method('Simulation', 'compute')
    cp = {c.args[0].value for c in au.calls(comp, 'kwargs.pop')
          if c.args and isinstance(c.args[0], ast.Constant)}
    anp = {c.args[0].value for c in au.calls(an, 'kwargs.pop')
           if c.args and isinstance(c.args[0], ast.Constant)}
    out['noise_opts'] = (set(au.params(an)) | set(au.params(rn)) | cp | anp) \
        - {'self', 'standard_deviation', 'source', 'frequency'}
    out['data'] = set(au.params(sur.method('Survey', 'select'))) - {'self'}
    e1 = mod.method('Model', 'extract_1d')
    el = mps.func('ellipse_indices')
    out['layered'] = (set(au.params(e1)) | set(au.params(el))) - {
        'self', 'p0', 'p1', 'coo', 'return_imat'}
    return out


def lit_type(node):
    if isinstance(node, ast.Constant):
        v = node.value
        if isinstance(v, bool):
            return 'bool'
        if isinstance(v, int):
            return 'int'
        if isinstance(v, float):
            return 'float'
        if isinstance(v, str):
            return 'str'
        return None
    if ast.unparse(node) in ('np.inf', '-np.inf'):
        return 'float'
    return None


def api_default_types(ctx):
    """(section, key) -> type of the API default the CLI option replaces."""
    out = {}

    def from_sig(fn, sec, skip=()):
        a = fn.args
        pos = a.posonlyargs + a.args
        for arg, d in zip(pos[len(pos) - len(a.defaults):], a.defaults):
            t = lit_type(d)
            if t and arg.arg not in skip:
                out[(sec, arg.arg)] = t
        for arg, d in zip(a.kwonlyargs, a.kw_defaults):
            t = lit_type(d) if d is not None else None
            if t:
                out[(sec, arg.arg)] = t

    def from_pops(fn, sec, names=None):
        for c in ast.walk(fn):
            if isinstance(c, ast.Call) and ast.unparse(c.func) == \
                    'kwargs.pop' and len(c.args) == 2 and isinstance(
                        c.args[0], ast.Constant):
                t = lit_type(c.args[1])
                if t and (names is None or c.args[0].value in names):
                    out[(sec, c.args[0].value)] = t
    sur = ctx.repo.mod('emg3d/surveys.py')
    sim = ctx.repo.mod('emg3d/simulations.py')
    sol = ctx.repo.mod('emg3d/solver.py')
    from_sig(sur.method('Survey', 'add_noise'), 'noise_opts',
             skip=('min_amplitude', 'add_to'))
    from_pops(sur.method('Survey', 'add_noise'), 'noise_opts')
    from_sig(sur.func('random_noise'), 'noise_opts')
    from_pops(sim.method('Simulation', 'compute'), 'noise_opts',
              {'add_noise'})
    from_sig(sur.method('Survey', 'select'), 'data')
    from_sig(sim.method('Simulation', '__init__'), 'simulation')
    from_pops(sim.method('Simulation', '__init__'), 'simulation',
              {'layered', 'receiver_interpolation'})
    mg = sol.cls('MGParameters')
    for st in mg.body:
        if isinstance(st, ast.AnnAssign) and isinstance(
                st.annotation, ast.Name) and st.annotation.id in (
                    'int', 'float', 'bool', 'str'):
            out[('solver_opts', st.target.id)] = st.annotation.id
    return out


def run(ctx):
    ctx.explanation = (
        'Key sets are extracted from three sources - the documented '
        'configuration block of docs/manual/cli.rst, an abstract walk of '
        'cli.parser.parse_config_file (bindings of `key`, literal lists, '
        'cfg.has_option / pop calls, extraction idiom per key) and the '
        'parameter / kwargs.pop sets of the API entry points - and compared '
        'as sets per section; precedence, remainder checks and argparse '
        'destinations are read off the AST.')
    ctx.assumptions = ['effects of options at run time are not decided']
    doc_text = ctx.repo.text(DOCS)
    dkeys, dtypes = parse_docs(doc_text)
    for s in SECTIONS:
        ctx.anchor(s in dkeys and dkeys[s], f'documented section [{s}] in '
                   f'{DOCS}')
    pm = ctx.repo.mod(PARSER)
    fn = pm.func('parse_config_file')
    W = ParserWalk(fn)
    # Q6c: the syntax of the file.  The documented lists use ',' and ';' as
    # separators (the parser splits the values on them): none of them may be
    # a comment prefix or a key/value delimiter of the ConfigParser, else
    # `a, b ; c, d` is silently cut after the first list
    cps = [c for c in au.calls(fn) if ast.unparse(c.func).endswith(
        'ConfigParser')]
    ctx.anchor(len(cps) == 1, 'ConfigParser(...) in parse_config_file')
    special = {'comment_prefixes': {'#', ';'}, 'delimiters': {'=', ':'},
               'inline_comment_prefixes': set()}
    for k_ in cps[0].keywords:
        if k_.arg in special:
            try:
                v_ = ast.literal_eval(k_.value)
            except Exception:
                raise AnalysisError(f'ConfigParser({k_.arg}=...) is not a '
                                    'literal')
            special[k_.arg] = {v_} if isinstance(v_, str) else set(v_ or ())
    seps = set()
    for c in au.calls(fn):
        if isinstance(c.func, ast.Attribute) and c.func.attr == 'split' and \
                len(c.args) == 1 and isinstance(c.args[0], ast.Constant) and \
                isinstance(c.args[0].value, str):
            seps.add(c.args[0].value)
    ctx.anchor(seps >= {',', ';'}, "list separators ',' and ';' in the parser")
    clash = sorted((special['inline_comment_prefixes'] |
                    special['delimiters']) & seps)
    ctx.check('C18.Q6.types', 'list separators are not comment prefixes / '
              'delimiters of the configuration syntax', not clash,
              f'{clash} separate(s) list entries in option values and is '
              'also an inline-comment prefix / delimiter of the '
              'ConfigParser: a value written with a blank before it '
              '(`a, b ; c, d`) is cut there, so the documented list-of-lists '
              'options get other values than through the API',
              ctx.where(pm, cps[0]))
    # deprecated duplicates of the noise options inside [simulation]
    noise_in_sim = {'min_offset', 'max_offset', 'mean_noise', 'ntype'}
    # Q1
    for s in SECTIONS:
        for k in dkeys[s]:
            ctx.check('C18.Q1.documented', f'[{s}] {k}',
                      k in W.keys.get(s, set()),
                      f'documented option `{k}` of section [{s}] is not '
                      'read by the parser (rejected as unknown or ignored)',
                      ctx.where(pm, fn), sample={'section': s, 'key': k})
    ctx.floor('C18.Q1.documented', 55)
    # Q2 (with key translations applied by cli.run before the API call)
    rm = ctx.repo.mod(RUN)
    rs = rm.func('simulation')
    renames = {}
    for n in ast.walk(rs):
        if isinstance(n, ast.Assign) and isinstance(n.targets[0],
                                                    ast.Subscript) and \
                isinstance(n.targets[0].slice, ast.Constant) and isinstance(
                    n.value, ast.Call) and isinstance(
                        n.value.func, ast.Attribute) and \
                n.value.func.attr == 'pop' and n.value.args and isinstance(
                    n.value.args[0], ast.Constant) and ast.unparse(
                        n.value.func.value) == ast.unparse(
                            n.targets[0].value):
            renames[n.value.args[0].value] = n.targets[0].slice.value
    acc = accepted(ctx)
    for s in ('solver_opts', 'gridding_opts', 'simulation', 'noise_opts',
              'data', 'layered'):
        for k in sorted(W.keys.get(s, set())):
            if s == 'simulation' and k in noise_in_sim:
                target = acc['noise_opts']
            else:
                target = acc[s]
            kk = renames.get(k, k) if s == 'gridding_opts' else k
            ctx.check('C18.Q2.accepted', f'[{s}] {k}', kk in target,
                      f'option `{k}` of section [{s}] is parsed and handed '
                      f'on{" as `" + kk + "`" if kk != k else ""}, but the '
                      'API does not accept that name '
                      f'(accepted: {sorted(target)[:12]}...)',
                      ctx.where(pm, fn), sample={'section': s, 'key': k})
    ctx.floor('C18.Q2.accepted', 55)
    # the parsed sections reach the API entry points
    pc = find('_cfg_, _term_ = parser.parse_config_file(__)', rs)
    ctx.anchor(len(pc) == 1, 'parse_config_file call in cli.run')
    CFG = pc[0][1]['_cfg_']
    dsel = find(f"_d_ = {CFG}['data']", rs)
    D = dsel[0][1]['_d_'] if dsel else 'data'
    routes = [
        ('Simulation(**options)', f"simulations.Simulation(survey=__, "
         f"model=__, verb=__, **{CFG}['simulation_options'])"),
        ('compute(**noise options)',
         f"_s_.compute(observed=True, **{CFG}['noise_kwargs'])"),
        ('survey.select(...)',
         f"_s_.select(sources={D}.get('sources', None), "
         f"receivers={D}.get('receivers', None), "
         f"frequencies={D}.get('frequencies', None), "
         f"remove_empty={D}.get('remove_empty', False))")]
    for what, pat in routes:
        ctx.check('C18.Q2.routing', f'cli.run: {what}', has(pat, rs),
                  f'the parsed options are not passed on to {what}',
                  ctx.where(rm, rs))
    # --clean: the loaded simulation is reset before the model is replaced;
    # the reset must be one under which Simulation.clean drops the computed
    # flag and the cached misfit / gradient (else the new model reports the
    # old model's results)
    sims = ctx.repo.mod('emg3d/simulations.py')
    cl = sims.method('Simulation', 'clean')
    cpar = au.params(cl)[1]
    resets = set()
    dom_ = set()
    for n in ast.walk(cl):
        if isinstance(n, ast.Compare) and isinstance(n.left, ast.Name) and \
                n.left.id == cpar and au.const_list(n.comparators[0]):
            dom_ |= set(au.const_list(n.comparators[0]))
    for w in sorted(dom_):
        fe = FiniteEval({cpar: w}, where=sims.rel)
        for st in ast.walk(cl):
            if isinstance(st, ast.Assign) and ast.unparse(st.targets[0]) == \
                    'self._computed' and ast.unparse(st.value) == 'False':
                if all(bool(fe.ev(t)) == pol
                       for t, pol in au.guards_of(st, cl)):
                    resets.add(w)
    ctx.anchor(resets, 'Simulation.clean(what) resets _computed for some what')
    cc = [c for c in au.calls(rs) if isinstance(c.func, ast.Attribute) and
          c.func.attr == 'clean' and c.args and
          isinstance(c.args[0], ast.Constant)]
    repl = find('_s_.model = _m_[\'model\']', rs)
    ok = len(cc) >= 1 and len(repl) >= 1 and all(
        c.args[0].value in resets for c in cc) and \
        min(c.lineno for c in cc) < min(n.lineno for n, _ in repl)
    ctx.check('C18.Q2.routing', 'cli.run --clean: computed state reset before '
              'the model is replaced', ok,
              f'--clean calls clean({[c.args[0].value for c in cc]}); only '
              f'{sorted(resets)} reset the computed flag and the cached '
              'misfit/gradient, so the replaced model would report the old '
              'results', ctx.where(rm, cc[0] if cc else rs))
    ctx.floor('C18.Q2.routing', 4)
    # what a real run writes, decided over the three functions: `forward`
    # writes the data that compute(observed=True) produced (with the
    # requested noise), misfit / gradient write the synthetic data, the
    # misfit and the gradient of the same simulation object
    fsel = find("_f_, __ = _t_['function'], __", rs) or \
        find("_f_ = _t_['function']", rs)
    osel = find("_o_ = {'configuration': __}", rs)
    dry = find("_d_ = _t_['dry_run']", rs) or find(
        "_d_ = _t_.get('dry_run', __)", rs)
    simv = find('_s_ = simulations.Simulation(__)', rs) or find(
        '_s_ = simulations.Simulation(survey=__, model=__, verb=__, **__)',
        rs)
    ctx.anchor(fsel and osel and simv, 'function / output / simulation '
               'locals of cli.run')
    F, O, S = fsel[0][1]['_f_'], osel[0][1]['_o_'], simv[0][1]['_s_']
    dnames = {b['_d_'] for _, b in dry} | {'dry_run'}
    want = {'forward': {'data': f'{S}.data.observed'},
            'misfit': {'data': f'{S}.data.synthetic',
                       'misfit': f'{S}.misfit',
                       'n_observations': f'{S}.survey.count'},
            'gradient': {'data': f'{S}.data.synthetic',
                         'misfit': f'{S}.misfit',
                         'n_observations': f'{S}.survey.count',
                         'gradient': f'{S}.gradient'}}
    for fv, exp in want.items():
        env = {F: fv}
        env.update({d: False for d in dnames})
        fe = FiniteEval(env, where=rm.rel)
        got = {}
        for st in sorted((n for n in ast.walk(rs) if isinstance(
                n, ast.Assign)), key=lambda n: n.lineno):
            t = st.targets[0]
            if not (isinstance(t, ast.Subscript) and ast.unparse(t.value)
                    == O and isinstance(t.slice, ast.Constant)):
                continue
            try:
                on = all(bool(fe.ev(g)) == pol
                         for g, pol in au.guards_of(st, rs))
            except AnalysisError:
                on = True
            if on:
                got[t.slice.value] = ast.unparse(st.value)
        ctx.check('C18.Q2.output', f'cli.run {fv}: written items', got == exp,
                  f'a real `{fv}` run writes {got}; the API equivalent is '
                  f'{exp}', ctx.where(rm, rs), sample={'function': fv,
                                                       'output': got})
    ctx.floor('C18.Q2.output', 3)
    # a dry run writes a placeholder gradient of the shape of the real one:
    # one leading entry per inverted property (none for isotropic, 2 for HTI
    # / VTI, 3 for triaxial -- the anisotropy table of Model.__init__)
    dz = [n for n in ast.walk(rs) if isinstance(n, ast.Assign) and
          isinstance(n.targets[0], ast.Subscript) and ast.unparse(
              n.targets[0].value) == O and isinstance(
                  n.targets[0].slice, ast.Constant) and
          n.targets[0].slice.value == 'gradient' and 'np.zeros' in
          ast.unparse(n.value)]
    ctx.anchor(len(dz) == 1 and isinstance(dz[0].value, ast.Call) and
               dz[0].value.args, 'placeholder gradient of the dry run')
    shp = dz[0].value.args[0]
    arm = au.enclosing(dz[0], ast.If)
    for case, lead in (('isotropic', []), ('HTI', [2]), ('VTI', [2]),
                       ('triaxial', [3])):
        env = {f'{S}.model.case': case, F: 'gradient'}
        env.update({d: True for d in dnames})
        got = None
        if isinstance(shp, ast.Name):
            cur = 'BASE'
            for st in sorted((n for n in ast.walk(arm) if isinstance(
                    n, ast.Assign) and isinstance(n.targets[0], ast.Name)),
                    key=lambda n: n.lineno):
                if st.lineno > dz[0].lineno:
                    continue
                fe = FiniteEval(env, where=rm.rel)
                try:
                    on = all(bool(fe.ev(g)) == pol for g, pol in
                             au.guards_of(st, arm))
                except AnalysisError:
                    on = None
                if not on:
                    if on is None and st.targets[0].id == shp.id:
                        cur = '?'
                    continue
                nm = st.targets[0].id
                if nm != shp.id:
                    try:
                        env[nm] = fe.ev(st.value)
                    except AnalysisError:
                        pass
                    continue
                v = st.value
                if isinstance(v, ast.Tuple) and v.elts and isinstance(
                        v.elts[-1], ast.Starred) and ast.unparse(
                            v.elts[-1].value) == shp.id and cur != '?':
                    try:
                        cur = [fe.ev(e) for e in v.elts[:-1]] + (
                            [] if cur == 'BASE' else cur)
                    except AnalysisError:
                        cur = '?'
                elif ast.unparse(v) == f'{S}.model.shape':
                    cur = 'BASE'
                else:
                    cur = '?'
            got = [] if cur == 'BASE' else cur
        ctx.check('C18.Q2.output', f'dry run: gradient shape for a {case} '
                  'model', got == lead, f'the placeholder gradient of a dry '
                  f'run has the leading dimensions {got} for a {case} model; '
                  f'the real run / Simulation.gradient gives {lead}',
                  ctx.where(rm, dz[0]), sample={'case': case, 'lead': got})
    # default of receiver_interpolation per function: the API default
    # (absent) for forward and misfit, 'linear' only for the gradient (as the
    # documentation of the configuration file says)
    for fct, want in (('forward', None), ('misfit', None),
                      ('gradient', 'linear')):
        ifs_ = [n for n in ast.walk(fn) if isinstance(n, ast.If) and has(
            "_c_.has_option('simulation', _k_)", n.test) and any(
                "'linear'" in ast.unparse(x) for x in ast.walk(n))]
        ctx.anchor(len(ifs_) == 1, 'receiver_interpolation default in the '
                   'parser')
        node = ifs_[0]
        got = 'unset'
        # walk the elif chain with has_option False
        cur = node.orelse
        got = None
        while cur:
            if len(cur) == 1 and isinstance(cur[0], ast.If):
                fe = FiniteEval({f"{W.term}['function']": fct},
                                where=pm.rel)
                if bool(fe.ev(cur[0].test)):
                    vals = [x.value.value for x in cur[0].body if isinstance(
                        x, ast.Assign) and isinstance(x.value, ast.Constant)]
                    got = vals[0] if vals else 'other'
                    break
                cur = cur[0].orelse
            else:
                vals = [x.value.value for x in cur if isinstance(
                    x, ast.Assign) and isinstance(x.value, ast.Constant)]
                got = vals[0] if vals else None
                break
        ctx.check('C18.Q6.api_types', f'receiver_interpolation default for '
                  f'{fct}', got == want, f'without the key the parser sets '
                  f'{got!r} for a {fct} run; the API (and the documented) '
                  f'default is {want!r}', ctx.where(pm, node),
                  sample={'function': fct, 'default': got})
    # Q3
    mm = ctx.repo.mod(MAIN)
    mf = mm.func('main')
    dests = set()
    for c in ast.walk(mf):
        if isinstance(c, ast.Call) and isinstance(c.func, ast.Attribute) and \
                c.func.attr == 'add_argument':
            d = None
            for kw in c.keywords:
                if kw.arg == 'dest':
                    d = kw.value.value
            if d is None:
                longs = [a.value for a in c.args if isinstance(a, ast.Constant)
                         and a.value.startswith('--')]
                pos = [a.value for a in c.args if isinstance(a, ast.Constant)
                       and not a.value.startswith('-')]
                d = (longs[0][2:] if longs else pos[0]).replace('-', '_')
            dests.add(d)
    popped = set()
    for c in ast.walk(fn):
        if isinstance(c, ast.Call) and ast.unparse(c.func) == \
                f'{W.args}.pop' and isinstance(c.args[0], ast.Constant):
            popped.add(c.args[0].value)
    # keys popped inside literal loops
    for n in ast.walk(fn):
        if isinstance(n, ast.For) and au.const_list(n.iter) and any(
                isinstance(c, ast.Call) and ast.unparse(c.func) ==
                f'{W.args}.pop' for c in ast.walk(n)):
            popped |= set(au.const_list(n.iter))
    ad = find('_a_ = vars(_p_.parse_args(__))', mf)
    ctx.anchor(len(ad) == 1, 'argument dictionary in cli.main')
    for c in ast.walk(mf):
        if isinstance(c, ast.Call) and ast.unparse(c.func) == \
                f'{ad[0][1]["_a_"]}.pop' and isinstance(c.args[0],
                                                        ast.Constant):
            popped.add(c.args[0].value)
    ctx.check('C18.Q3.terminal', 'argparse destinations == popped keys',
              dests == popped, f'only in argparse: {sorted(dests - popped)}; '
              f'only popped: {sorted(popped - dests)}', ctx.where(mm, mf),
              sample={'dests': sorted(dests)})
    ctx.need(len(dests) >= 18, f'only {len(dests)} argparse destinations')
    # Q4
    for k in ('max_workers', 'layered'):
        ctx.check('C18.Q4.precedence', f'[{"simulation"}] {k}',
                  W.term_first.get(k) is True,
                  f'the terminal value of `{k}` is not tested before the '
                  'configuration-file value', ctx.where(pm, fn))
    T = W.term
    f1 = find(f'_f_ = {T}.pop(_k_)', fn)
    ctx.anchor(len(f1) >= 2, 'terminal file/path extraction in the parser')
    for n_, b_ in f1:
        F, K = b_['_f_'], b_['_k_']
        K = K if isinstance(K, str) else ast.unparse(K)
        ok = has(f'if {F} is None:\n    {F} = _all_.pop({K}, __)', fn)
        for n2, b2 in find(f'if {F} is None:\n    {F} = _d_', fn):
            if b2['_d_'].isidentifier() and has(
                    f"{b2['_d_']} = _all_.pop({K}, __)", fn):
                ok = True
        # ... or as a conditional expression `cfg if F is None else F`
        for ie in ast.walk(fn):
            if not isinstance(ie, ast.IfExp):
                continue
            t = ast.unparse(ie.test).replace(' ', '')
            if t == f'{F}isNone':
                cfgv, termv = ie.body, ie.orelse
            elif t == f'{F}isnotNone':
                cfgv, termv = ie.orelse, ie.body
            else:
                continue
            if ast.unparse(termv) != F:
                continue
            if isinstance(cfgv, ast.Name):
                cfgv_ok = has(f"{cfgv.id} = _all_.pop({K}, __)", fn)
            else:
                from ..core.template import same as _same
                cfgv_ok = _same(f'_all_.pop({K}, __)', cfgv) is not None
            ok = ok or cfgv_ok
        ctx.check('C18.Q4.precedence', f'[files] terminal value of {K}', ok,
                  f'the terminal value of {K} does not override the '
                  'configuration file (expected: use the configuration value '
                  'only if the terminal value is None)', ctx.where(pm, n_))
    # Q4c: an option given on the terminal must still consume its
    # configuration twin, else the twin is left in the section remainder and
    # the run is rejected as "unexpected parameter"
    tvars = {T}
    for n_, b_ in find(f'_v_ = {T}.pop(__)', fn) + find(f'_v_ = {T}[__]', fn):
        if b_['_v_'].isidentifier():
            tvars.add(b_['_v_'])
    nq4 = 0
    for c in ast.walk(fn):
        if not (isinstance(c, ast.Call) and isinstance(c.func, ast.Attribute)
                and c.func.attr == 'pop' and isinstance(c.func.value, ast.Name)
                and c.func.value.id in W.remainders and c.args):
            continue
        nq4 += 1
        bad = [ast.unparse(t) for t, _pol in au.guards_of(c, fn)
               if {x.id for x in ast.walk(t) if isinstance(x, ast.Name)}
               & tvars]
        ctx.check('C18.Q4.consumed',
                  f'[{W.remainders[c.func.value.id]}] '
                  f'{c.func.value.id}.pop({ast.unparse(c.args[0])})',
                  not bad, 'the configuration key is only consumed when '
                  f'`{bad[0] if bad else ""}`: given both in the file and on '
                  'the terminal it stays in the remainder and the run is '
                  'rejected instead of the terminal value taking precedence',
                  ctx.where(pm, c))
    ctx.need(nq4 >= 20, f'only {nq4} configuration-key extractions seen')
    # a parsed section is handed on whenever it has content: its hand-over
    # depends on the section itself only, never on OTHER options (the other
    # option may be stored in a loaded simulation, or be the API default)
    ret = [n for n in ast.walk(fn) if isinstance(n, ast.Return)]
    odicts = {x.id for r_ in ret for x in ast.walk(r_)
              if isinstance(x, ast.Name)}
    for a in ast.walk(fn):
        if isinstance(a, ast.Assign) and isinstance(a.value, ast.Dict) and \
                isinstance(a.targets[0], ast.Name) and \
                a.targets[0].id in odicts:
            odicts |= {v.id for v in a.value.values
                       if isinstance(v, ast.Name)}
    nho = 0
    for a in ast.walk(fn):
        if not (isinstance(a, ast.Assign) and isinstance(
                a.targets[0], ast.Subscript) and isinstance(
                    a.targets[0].value, ast.Name) and
                a.targets[0].value.id in odicts and isinstance(
                    a.targets[0].slice, ast.Constant) and
                isinstance(a.value, ast.Name) and
                str(a.targets[0].slice.value).endswith('_opts')):
            continue
        nho += 1
        other = [ast.unparse(t) for t, _p in au.guards_of(a, fn)
                 if {x.id for x in ast.walk(t) if isinstance(x, ast.Name)}
                 - {a.value.id, W.cfg} - set(dir(__import__('builtins')))]
        ctx.check('C18.Q2.handover', f'parser hands on '
                  f'`{a.targets[0].slice.value}`', not other,
                  f'the options of this section are only handed on if '
                  f'`{other[0] if other else ""}`: in every other case the '
                  'section is accepted and silently ignored',
                  ctx.where(pm, a))
    ctx.floor('C18.Q2.handover', 3)
    # Q5
    for var, sec in sorted(W.remainders.items()):
        ctx.check('C18.Q5.unknown', f'[{sec}] remainder `{var}` raises',
                  var in W.raises, f'unknown options of section [{sec}] are '
                  'silently ignored', ctx.where(pm, fn))
    ctx.floor('C18.Q5.unknown', 7)
    # Q6
    for (s, k), t in sorted(dtypes.items()):
        got = W.types.get((s, k))
        ctx.check('C18.Q6.types', f'[{s}] {k}: documented {t}', got == t,
                  f'documented as {t}, parser extracts {got}',
                  ctx.where(pm, fn), sample={'section': s, 'key': k,
                                             'documented': t, 'parsed': got})
    ctx.floor('C18.Q6.types', 30)
    # Q6b: the extraction agrees with the type of the API default the option
    # replaces (a string 'False' is truthy where the API expects a bool)
    api_types = api_default_types(ctx)
    nq = 0
    for (s_, k), want in sorted(api_types.items()):
        if k not in W.keys.get(s_, set()):
            continue
        got = W.types.get((s_, k))
        nq += 1
        ctx.check('C18.Q6.api_types', f'[{s_}] {k}: API expects {want}',
                  got == want, f'the API default of `{k}` is a {want}; the '
                  f'parser hands over a {got} (e.g. the string "False" is '
                  'truthy)', ctx.where(pm, fn),
                  sample={'section': s_, 'key': k, 'api': want,
                          'parsed': got})
    ctx.need(nq >= 12, f'only {nq} options with a typed API default')
    # Q2b: run.py may index the parsed options only with keys that the parser
    # sets on every path (an optional section such as [gridding_opts] is
    # absent from the dictionary when it was not given / empty)
    always = set()
    for st_ in fn.body:
        for n_, b_ in find("_s_[_k_] = __", st_):
            pass
    simname = None
    rd = [n_ for n_ in ast.walk(fn) if isinstance(n_, ast.Dict) and any(
        isinstance(k_, ast.Constant) and k_.value == 'simulation_options'
        for k_ in n_.keys)]
    ctx.anchor(len(rd) == 1, 'returned option dictionary of the parser')
    for k_, v_ in zip(rd[0].keys, rd[0].values):
        if isinstance(k_, ast.Constant) and k_.value == 'simulation_options':
            simname = ast.unparse(v_)
    for st_ in ast.walk(fn):
        if isinstance(st_, ast.Assign) and not au.guards_of(st_, fn):
            for t_ in st_.targets:
                if isinstance(t_, ast.Subscript) and ast.unparse(
                        t_.value) == simname and isinstance(
                            t_.slice, ast.Constant):
                    always.add(t_.slice.value)
    nsub = 0
    for n_ in ast.walk(rs):
        if isinstance(n_, ast.Subscript) and isinstance(n_.ctx, ast.Load) and \
                isinstance(n_.slice, ast.Constant) and ast.unparse(
                    n_.value).endswith("['simulation_options']"):
            nsub += 1
            ctx.check('C18.Q2.routing', f"cli.run `{ast.unparse(n_)}`",
                      n_.slice.value in always,
                      f"the parser sets '{n_.slice.value}' only when the "
                      'section / key was given; indexing it raises KeyError '
                      'for a configuration without it (use .get)',
                      ctx.where(rm, n_))
    # Q2c: a LOADED simulation is changed only by what was explicitly given:
    # `layered` stays as stored unless -l / [simulation] layered is present
    # (a default of False would turn a stored layered simulation into a 3D
    # one), and the [layered] section, which the documentation does not list
    # among the sections ignored with --load, reaches the loaded simulation
    from ..core.template import same as _same
    lb = [n_ for n_ in ast.walk(rs) if isinstance(n_, ast.If) and
          _same("_c_['files']['load']", n_.test) is not None]
    ctx.anchor(len(lb) == 1, "`if cfg['files']['load']:` branch in cli.run")
    lbody = lb[0].body
    CF = _same("_c_['files']['load']", lb[0].test)['_c_']
    lg_ = find(f"_l_ = {CF}['simulation_options'].get('layered', _d_)", lbody)
    okl = len(lg_) == 1 and lg_[0][1]['_d_'] == 'None'
    if okl:
        L_ = lg_[0][1]['_l_']
        sets_ = find(f'_s_.layered = {L_}', lbody)
        from ..core.canon import ct as _ct
        okl = len(sets_) >= 1 and all(any(
            _ct(f'{L_} is not None') in g_ for g_ in au.guard_texts(n_, rs))
            for n_, _b in sets_)
    ctx.check('C18.Q2.routing', 'cli.run --load: layered only changed when '
              'given', okl, 'the loaded simulation gets layered = '
              f'{lg_[0][1]["_d_"] if lg_ else "?"} when the option is absent: '
              'a simulation stored in layered mode is silently computed in '
              '3D (the documentation says [simulation] is ignored with '
              '--load)', ctx.where(rm, lg_[0][0] if lg_ else lb[0]))
    # `layered_opts` is a plain attribute; what the layered kernel needs
    # (default method, ellipse radius / factor / minor) is filled in by the
    # `layered` setter (Simulation._set_layered_opts).  The options of the
    # configuration therefore have to be stored BEFORE `layered` is set
    from ..core.cfg import CFG as _CFG
    sm_ = ctx.repo.mod('emg3d/simulations.py')
    setter_norm = any(
        'setter' in ' '.join(au.decorator_names(m_)) and au.calls(
            m_, 'self._set_layered_opts')
        for m_ in sm_.methods('Simulation', 'layered'))
    ctx.anchor(setter_norm, 'Simulation.layered setter normalises '
               'layered_opts')
    cfg_ = _CFG(rs)
    for n_, b_ in find('_s_.layered_opts = _x_', lbody):
        after = [cfg_.node_of(m_) for m_, _b in
                 find(f'{b_["_s_"]}.layered = __', lbody)]
        path = cfg_.reachable_between(cfg_.node_of(n_), cfg_.exit,
                                      avoid=after)
        ctx.check('C18.Q2.routing', 'cli.run --load: [layered] options '
                  'normalised', cfg_.exit not in path,
                  '`layered_opts` of the loaded simulation is stored after '
                  '/ without setting `layered`: the options reach the '
                  'layered kernel as written in the configuration file, '
                  'without the defaults the API fills in (ellipse factor, '
                  'minor, radius), so the run differs from '
                  'Simulation(layered=True, layered_opts=...)',
                  ctx.where(rm, n_))
    lo_ = any(isinstance(x_, ast.Constant) and x_.value == 'layered_opts'
              for st_ in lbody for x_ in ast.walk(st_))
    ctx.check('C18.Q2.routing', 'cli.run --load: [layered] options applied',
              lo_, 'the options of the [layered] section never reach a loaded '
              'simulation (only the flag is switched): it runs with its '
              'stored / default layered options', ctx.where(rm, lb[0]))
    # Q4d: `cache` is a shortcut for load + save; given in the configuration
    # file it must not win over --load / --save given on the terminal
    cs_ = find("_c_ = _f_.pop('cache')", fn)
    okc = len(cs_) == 1
    if okc:
        C_, Fd = cs_[0][1]['_c_'], cs_[0][1]['_f_']
        ov = find(f"{Fd}['load'] = {C_}", fn) + find(f"{Fd}['save'] = {C_}",
                                                    fn)
        for lp_, b_ in find(f"for _k_ in ['load', 'save']:\n    __", fn):
            for n_, _b in find(f"{Fd}[{b_['_k_']}] = {C_}", lp_):
                ov += [(n_, _b), (n_, _b)]
        okc = len(ov) == 2 and all(
            any({y.id for y in ast.walk(t_) if isinstance(y, ast.Name)} -
                {C_, Fd} for t_, _p in au.guards_of(n_, fn))
            for n_, _b in ov)
    ctx.check('C18.Q4.precedence', '[files] cache vs --load / --save', okc,
              'a `cache` entry of the configuration file replaces load and '
              'save unconditionally, also when --load / --save were given on '
              'the terminal', ctx.where(pm, cs_[0][0] if cs_ else fn))
    # Q5b: a section name the parser does not know is an unknown option too
    known_secs = set(W.remainders.values()) | {'files', 'simulation'}
    secvars = set()
    for st_ in ast.walk(fn):
        if isinstance(st_, ast.Assign) and '.sections()' in ast.unparse(
                st_.value):
            for t_ in st_.targets:
                if isinstance(t_, ast.Name):
                    secvars.add(t_.id)
    sec_check = []
    for n_ in ast.walk(fn):
        if not isinstance(n_, ast.Raise):
            continue
        for t_, pol_ in au.guards_of(n_, fn):
            names_ = {y.id for y in ast.walk(t_) if isinstance(y, ast.Name)}
            # (the per-section `if 'x' not in cfg.sections(): add_section`
            # tests do not raise)
            const_in = isinstance(t_, ast.Compare) and isinstance(
                t_.left, ast.Constant)
            if names_ & secvars or ('.sections()' in ast.unparse(t_) and
                                    not const_in):
                sec_check.append(n_)
    ctx.check('C18.Q5.unknown', 'unknown sections raise', bool(sec_check),
              'a section the parser does not know (e.g. a misspelt '
              '[solver] for [solver_opts]) is ignored with all its options '
              'instead of being rejected', ctx.where(pm, fn),
              sample={'known_sections': sorted(known_secs)})
    # Q6c: the example values printed in the documentation of the
    # configuration file are accepted by the extraction the parser uses for
    # that key, and mean for the API what they say (`None` read with a string
    # getter is the string 'None', not None)
    BOOL = {'1', 'yes', 'true', 'on', '0', 'no', 'false', 'off'}
    nex = 0
    for (s_, k), ex in sorted(EXAMPLES.items()):
        kind = W.types.get((s_, k))
        if kind not in ('float', 'int', 'bool', 'str'):
            continue
        nex += 1
        why = ''
        try:
            if kind == 'float':
                float(ex)
            elif kind == 'int':
                int(ex)
            elif kind == 'bool' and ex.lower() not in BOOL:
                why = 'not a configparser boolean'
            elif kind == 'str' and ex == 'None' and not W.none_ok.get(
                    (s_, k)):
                why = "read as the string 'None', the API expects None"
        except ValueError as e:
            why = str(e)
        ctx.check('C18.Q6.examples', f'[{s_}] {k} = {ex}', not why,
                  f'the documented example `{k} = {ex}` is extracted as '
                  f'{kind}: {why}', ctx.where(pm, fn),
                  sample={'section': s_, 'key': k, 'example': ex,
                          'extraction': kind})
    ctx.need(nex >= 12, f'only {nex} documented example values found')
    # Q4b: "not given on the terminal" must be distinguishable: options with
    # a configuration twin need default=None in argparse
    twins = {'nproc', 'layered', 'path', 'survey', 'model', 'output', 'save',
             'load', 'cache'}
    for c in ast.walk(mf):
        if isinstance(c, ast.Call) and isinstance(c.func, ast.Attribute) and \
                c.func.attr == 'add_argument':
            longs = [a.value for a in c.args if isinstance(a, ast.Constant)
                     and a.value.startswith('--')]
            if not longs:
                continue
            d = longs[0][2:].replace('-', '_')
            if d in twins:
                kws = {k.arg: ast.unparse(k.value) for k in c.keywords}
                ctx.check('C18.Q4.precedence', f'argparse --{d} default',
                          kws.get('default', 'None') == 'None',
                          f'--{d} has default {kws.get("default")}: the '
                          'parser cannot tell "not given" from a value, so '
                          'the configuration file is never consulted',
                          ctx.where(mm, c))
    ctx.floor('C18.Q4.precedence', 4 + 9)
