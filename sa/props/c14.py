"""C14 - physical model invariant under the property mapping; chain rule exact.

Rules (DESIGN.md 4/C14):
  M1  forward(backward(x)) == x and backward(forward(s)) == s  (six maps)
  M2  derivative_chain multiplies by d backward(x)/dx
  M3  every store of a model parameter passes the positivity/finiteness check
      (on the conductivity for property_*, on the raw value otherwise)
  M4  mapped values reach solver coefficients / skin depths / 1-D modeller
      only through map.backward
  M5  registry: 'Map' + name resolves for the six documented names
"""
import ast

import sympy as sp

from ..core import astutil as au
from ..core.template import has as _has
from ..core.cfg import CFG, solve_forward
from ..core.report import AnalysisError
from ..expr.lift import Lifter, equal

LEVEL = 'proof'
MAPS = 'emg3d/maps.py'
MODELS = 'emg3d/models.py'
NAMES = ['Conductivity', 'LgConductivity', 'LnConductivity', 'Resistivity',
         'LgResistivity', 'LnResistivity']
# d sigma / dx of the documented parametrisations (for the evidence)
DOC = {'Conductivity': lambda x: x, 'LgConductivity': lambda x: 10**x,
       'LnConductivity': lambda x: sp.exp(x), 'Resistivity': lambda x: 1 / x,
       'LgResistivity': lambda x: 10**(-x),
       'LnResistivity': lambda x: sp.exp(-x)}


def ret_expr(fn):
    r = [n for n in ast.walk(fn) if isinstance(n, ast.Return)]
    if len(r) != 1 or r[0].value is None:
        raise AnalysisError(f'{fn.name}: expected a single return expression')
    return r[0].value


def rule_maps(ctx):
    mod = ctx.repo.mod(MAPS)
    x = sp.Symbol('x', real=True)
    xp = sp.Symbol('xp', positive=True)
    sig = sp.Symbol('sigma', positive=True)
    found = []
    for cls in mod.classes():
        if not cls.name.startswith('Map'):
            continue
        name = cls.name[3:]
        found.append(name)
        m = {f.name: f for f in cls.body if isinstance(f, ast.FunctionDef)}
        ctx.anchor({'forward', 'backward', 'derivative_chain'} <= set(m),
                   f'{cls.name}: forward/backward/derivative_chain')
        # the three functions are pure functions of their arguments: no state
        # on the map object may be written or read (a remembered value of an
        # earlier call makes derivative_chain(g, x) depend on call history)
        impure = []
        for fn_ in (m['forward'], m['backward'], m['derivative_chain']):
            for n_ in ast.walk(fn_):
                if isinstance(n_, ast.Attribute) and isinstance(
                        n_.value, ast.Name) and n_.value.id == 'self' and \
                        n_.attr not in ('forward', 'backward',
                                        'derivative_chain'):
                    impure.append((fn_, n_))
                if isinstance(n_, ast.Call) and ast.unparse(n_.func) in (
                        'getattr', 'setattr', 'hasattr') and n_.args and \
                        ast.unparse(n_.args[0]) == 'self':
                    impure.append((fn_, n_))
                if isinstance(n_, (ast.Global, ast.Nonlocal)):
                    impure.append((fn_, n_))
        ctx.check('C14.M1.pure', f'{cls.name}: forward/backward/'
                  'derivative_chain use only their arguments', not impure,
                  f'`{ast.unparse(impure[0][1]) if impure else ""}` in '
                  f'{impure[0][0].name if impure else ""}: state kept on the '
                  'map object makes the result depend on earlier calls (the '
                  'chain rule is then taken at another point than `mapped`)',
                  ctx.where(mod, impure[0][1] if impure else cls))
        if impure:
            continue
        fpar = au.params(m['forward'])[1]
        bpar = au.params(m['backward'])[1]

        def fw(v):
            return Lifter({fpar: v}, {}, mod.rel, strict=True).lift(
                ret_expr(m['forward']))

        def bw(v):
            return Lifter({bpar: v}, {}, mod.rel, strict=True).lift(
                ret_expr(m['backward']))
        # resistivity-like maps are only defined for positive parameters
        arg = xp if name == 'Resistivity' else x
        if name == 'Conductivity':
            arg = xp
        ok1 = equal(fw(bw(arg)), arg)
        ok2 = equal(bw(fw(sig)), sig)
        okd = equal(bw(arg), DOC[name](arg)) if name in DOC else True
        where = ctx.where(mod, cls)
        ctx.check('C14.M1.inverse', f'{cls.name}: forward(backward(x)) = x',
                  ok1, f'forward(backward(x)) = {fw(bw(arg))} is not x', where,
                  obligation=True, sample={'map': cls.name,
                                           'backward': str(bw(arg)),
                                           'forward': str(fw(sig))})
        ctx.check('C14.M1.inverse', f'{cls.name}: backward(forward(s)) = s',
                  ok2, f'backward(forward(sigma)) = {bw(fw(sig))} is not '
                  'sigma', where, obligation=True)
        ctx.check('C14.M1.documented', f'{cls.name}: backward is the '
                  'documented parametrisation', okd,
                  f'backward(x) = {bw(arg)}; the map named {name} means '
                  f'sigma = {DOC.get(name, lambda v: "?")(arg)}', where,
                  obligation=True)
        # derivative chain
        dc = m['derivative_chain']
        dps = au.params(dc)
        body = au.body_nodoc(dc)
        factor = None
        if len(body) == 1 and isinstance(body[0], ast.Pass):
            factor = sp.Integer(1)
        elif len(body) == 1 and isinstance(body[0], ast.AugAssign) and \
                isinstance(body[0].op, ast.Mult) and \
                ast.unparse(body[0].target) == dps[1]:
            lf = Lifter({dps[2]: arg}, {'self.backward': bw}, mod.rel,
                        strict=True)
            factor = lf.lift(body[0].value)
        ok = factor is not None and equal(factor, sp.diff(bw(arg), arg))
        ctx.check('C14.M2.chain', f'{cls.name}: derivative_chain factor',
                  ok, f'gradient is multiplied by {factor}; the chain rule '
                  f'needs d backward/dx = {sp.diff(bw(arg), arg)} (and an '
                  'in-place `gradient *= factor`)', ctx.where(mod, dc),
                  obligation=True,
                  sample={'map': cls.name, 'factor': str(factor),
                          'd_backward': str(sp.diff(bw(arg), arg))})
    ctx.floor('C14.M1.inverse', 12)
    ctx.floor('C14.M2.chain', 6)
    for nme in NAMES:
        ctx.check('C14.M5.registry', f'Map{nme} exists', nme in found,
                  f'documented mapping `{nme}` has no class Map{nme}',
                  ctx.where(mod, mod.tree))
    bm = mod.cls('BaseMap')
    init = [f for f in bm.body if isinstance(f, ast.FunctionDef)
            and f.name == '__init__'][0]
    ctx.check('C14.M5.registry', 'BaseMap.name = class name without "Map"',
              'self.name = self.__class__.__name__[3:]' in ast.unparse(init),
              'map name is not derived from the class name (Model looks '
              "maps up as 'Map' + name)", ctx.where(mod, init))
    mm = ctx.repo.mod(MODELS)
    mi = mm.method('Model', '__init__')
    ctx.check('C14.M5.registry', "Model resolves 'Map' + mapping",
              _has("self.map = getattr(maps, 'Map' + mapping)()", mi),
              'Model does not select the map class by name',
              ctx.where(mm, mi))


def rule_validation(ctx):
    mm = ctx.repo.mod(MODELS)
    chk = mm.method('Model', '_check_positive_finite')
    cps = au.params(chk)
    txt = ast.unparse(chk)
    # which value is tested
    from ..core.template import find as _find, same
    mb = _find(f'_m_ = self.map.backward(np.asarray({cps[1]}))', chk)
    MV = mb[0][1]['_m_'] if mb else 'mapped'
    assigns = [n for n in ast.walk(chk) if isinstance(n, ast.Assign) and
               ast.unparse(n.targets[0]) == MV]
    ok = False
    if len(assigns) == 2:
        a = {ast.unparse(t): pol for n in assigns
             for t, pol in au.guards_of(n, chk)}
        by = {}
        for n in assigns:
            g = au.guards_of(n, chk)
            by[ast.unparse(n.value)] = (ast.unparse(g[-1][0]), g[-1][1])
        ok = by.get(f'self.map.backward(np.asarray({cps[1]}))') == (
            f"'property_' in {cps[2]}", True) and by.get(cps[1]) == (
            f"'property_' in {cps[2]}", False)
    ctx.check('C14.M3.check', '_check_positive_finite: tested quantity', ok,
              'property_* values are not validated on the conductivity '
              'map.backward(values) / other parameters on their raw values',
              ctx.where(mm, chk))
    tests = [n for n in ast.walk(chk) if isinstance(n, ast.If) and any(
        isinstance(b, ast.Raise) for b in n.body)]
    ttxt = [ast.unparse(t.test).replace(' ', '') for t in tests]
    ctx.check('C14.M3.check', '_check_positive_finite: strictly positive',
              any(same(f'not np.all(np.real({MV}) > 0.0)', t.test) is not None
                  or same(f'np.any(np.real({MV}) <= 0.0)', t.test) is not None
                  for t in tests),
              f'raising tests are {ttxt}: values must be rejected unless '
              'all > 0', ctx.where(mm, chk), sample={'tests': ttxt})
    ctx.check('C14.M3.check', '_check_positive_finite: finite',
              any(same(f'not np.all(np.isfinite({MV}))', t.test) is not None
                  for t in tests),
              f'raising tests are {ttxt}: non-finite values must be '
              'rejected', ctx.where(mm, chk))
    # setters and _init_parameter call it before storing
    n_set = 0
    for prop in ('property_x', 'property_y', 'property_z', 'mu_r',
                 'epsilon_r'):
        st = [m for m in mm.methods('Model', prop) if any(
            d.endswith('.setter') for d in au.decorator_names(m))]
        ctx.anchor(len(st) == 1, f'Model.{prop} setter')
        fn = st[0]
        p = au.params(fn)[1]
        cfg = CFG(fn)
        calls = [n for n in cfg.nodes if n.kind == 'stmt' and isinstance(
            n.ast, ast.Expr) and ast.unparse(n.ast.value).replace(' ', '') ==
            f"self._check_positive_finite({p},'{prop}')"]
        stores = [n for n in cfg.nodes if n.kind == 'stmt' and isinstance(
            n.ast, (ast.Assign, ast.AugAssign)) and
            f'self._{prop}' in ast.unparse(
                n.ast.targets[0] if isinstance(n.ast, ast.Assign)
                else n.ast.target)]
        dom = cfg.dominators()
        # ... and on EVERY normal path through the setter (an early return
        # ahead of it, e.g. for `m.prop *= x` where the new value is the
        # stored array itself, lets in-place updates through unchecked)
        ok = bool(calls) and bool(stores) and all(
            dom(calls[0], s) for s in stores) and dom(calls[0], cfg.exit)
        n_set += 1
        ctx.check('C14.M3.setters', f'Model.{prop} setter validates first',
                  ok, f'the setter of {prop} stores (or returns) without validating '
                  'the new values first (with the right parameter name)',
                  ctx.where(mm, fn), sample={'setter': prop})
        val = [ast.unparse(s.ast.value) for s in stores]
        ctx.check('C14.M3.setters', f'Model.{prop} setter stores its input',
                  all(p in v for v in val), f'setter stores {val}',
                  ctx.where(mm, fn))
    ip = mm.method('Model', '_init_parameter')
    ips = au.params(ip)
    cfg = CFG(ip)
    calls = [n for n in cfg.nodes if n.kind == 'stmt' and isinstance(
        n.ast, ast.Expr) and ast.unparse(n.ast.value).replace(' ', '') ==
        f'self._check_positive_finite({ips[1]},{ips[2]})']
    rets = [n for n in cfg.nodes if n.kind == 'return' and not (
        isinstance(n.ast.value, ast.Constant) and n.ast.value.value is None)]
    dom = cfg.dominators()
    ok = bool(calls) and bool(rets) and all(dom(calls[0], r) for r in rets)
    # the validated array is the one returned (no re-assignment in between)
    if ok:
        between = set()
        for r in rets:
            between |= cfg.reachable_between(calls[0], r)
        ok = not any(n.kind == 'stmt' and isinstance(n.ast, ast.Assign) and
                     ast.unparse(n.ast.targets[0]) == ips[1] for n in between)
    ctx.check('C14.M3.setters', 'Model._init_parameter validates before '
              'returning', ok, 'constructor values are returned without '
              'passing the positivity/finiteness check', ctx.where(mm, ip))
    init = mm.method('Model', '__init__')
    for prop in ('property_x', 'property_y', 'property_z', 'mu_r',
                 'epsilon_r'):
        ok = f"self._{prop} = self._init_parameter({prop}, '{prop}')" in \
            ast.unparse(init)
        ctx.check('C14.M3.setters', f'Model.__init__ routes {prop} through '
                  '_init_parameter', ok, f'{prop} is stored by the '
                  'constructor without _init_parameter', ctx.where(mm, init))
    ctx.floor('C14.M3.setters', 16)


def is_property_read(n):
    if isinstance(n, ast.Attribute) and n.attr in ('property_x', 'property_y',
                                                   'property_z'):
        return True
    if isinstance(n, ast.Call) and ast.unparse(n.func) == 'getattr' and \
            len(n.args) >= 2:
        if 'property_' in ast.unparse(n.args[1]):
            return True
        if isinstance(n.args[1], ast.Name):
            # getattr(model, name) with `for name in model._properties[...]`
            lp = au.enclosing(n, ast.For)
            while lp is not None:
                if isinstance(lp.target, ast.Name) and lp.target.id == \
                        n.args[1].id and '_properties' in ast.unparse(
                            lp.iter):
                    return True
                lp = au.enclosing(lp, ast.For)
    return False


def backward_aliases(fn):
    """Local names bound to a `<obj>.map.backward` method."""
    out = set()
    for n in ast.walk(fn):
        if isinstance(n, ast.Assign) and len(n.targets) == 1 and isinstance(
                n.targets[0], ast.Name) and isinstance(
                    n.value, ast.Attribute) and n.value.attr == 'backward':
            out.add(n.targets[0].id)
    return out


def inside_backward(node, stop):
    """Is `node` (an expression) inside the argument of a *.backward() call
    (or of a local alias of such a method) or the property argument of
    derivative_chain?"""
    aliases = backward_aliases(stop) if isinstance(
        stop, ast.FunctionDef) else set()
    p = au.parent(node)
    while p is not None and p is not stop:
        if isinstance(p, ast.Call):
            f = ast.unparse(p.func)
            if f.endswith('.backward') or f in aliases:
                return 'backward'
            if f.endswith('.derivative_chain'):
                if len(p.args) == 2 and any(node is x for x in
                                            ast.walk(p.args[1])):
                    return 'chain'
                return None
            if f in ('np.asarray', 'np.array', 'np.atleast_1d'):
                p = au.parent(p)
                continue
            return None
        p = au.parent(p)
    return None


def rule_taint(ctx):
    sinks = 0
    for rel in ('emg3d/models.py', 'emg3d/meshes.py', 'emg3d/simulations.py',
                'emg3d/_multiprocessing.py', 'emg3d/fields.py',
                'emg3d/solver.py', 'emg3d/cli/run.py'):
        mod = ctx.repo.mod(rel)
        for fn in [x for x in ast.walk(mod.tree)
                   if isinstance(x, ast.FunctionDef)]:
            qn = au.qualname(fn)
            if rel == 'emg3d/models.py' and qn.startswith('Model.'):
                continue      # the Model class itself lives in mapped space
            if qn == 'expand_grid_model.extend_property' or \
                    qn == 'expand_grid_model':
                continue      # builds a new Model from mapped values
            for n in au.walk_local(fn):
                if not is_property_read(n):
                    continue
                if isinstance(au.parent(n), ast.Attribute) and \
                        is_property_read(au.parent(n)):
                    continue
                kind = inside_backward(n, fn)
                cons = f'{qn} `{au.stext(au.enclosing_stmt(n))[:70]}`'
                if kind:
                    sinks += 1
                    ctx.ok('C14.M4.backward', cons,
                           sample={'site': qn, 'via': kind})
                    continue
                # assigned to a local whose every use goes into backward
                st = au.enclosing_stmt(n)
                ok = False
                # the local must hold the mapped values themselves (a view,
                # slice or array of them): a reduction or arithmetic in
                # mapped space (np.min, mean, +, ...) does not commute with
                # the map (min of a resistivity is the max conductivity)
                pure = True
                q_ = n
                while q_ is not st and q_ is not None:
                    par_ = au.parent(q_)
                    if isinstance(par_, ast.Call) and q_ is not par_.func:
                        fpar = ast.unparse(par_.func)
                        if fpar not in ('np.asarray', 'np.array', 'getattr',
                                        'np.atleast_1d'):
                            pure = False
                    if isinstance(par_, (ast.BinOp, ast.UnaryOp, ast.Compare,
                                         ast.BoolOp)):
                        pure = False
                    if isinstance(par_, ast.Call) and q_ is par_.func and \
                            isinstance(q_, ast.Attribute) and q_.attr not in (
                                'reshape', 'ravel', 'copy', 'view', 'squeeze',
                                'flatten', 'transpose'):
                        pure = False
                    q_ = par_
                if isinstance(st, ast.Assign) and len(st.targets) == 1 and \
                        isinstance(st.targets[0], ast.Name) and pure:
                    v = st.targets[0].id
                    cfg = CFG(fn)
                    dnode = cfg.node_of(st)

                    def transfer(nd, s_, lab, v=v):
                        a = nd.ast
                        if nd.kind in ('stmt', 'for') and a is not None:
                            tg = []
                            if isinstance(a, ast.Assign):
                                tg = a.targets
                            elif isinstance(a, (ast.AugAssign, ast.For)):
                                tg = [a.target]
                            for t_ in tg:
                                for e_ in ast.walk(t_):
                                    if isinstance(e_, ast.Name) and \
                                            e_.id == v and not isinstance(
                                                a, ast.AugAssign):
                                        return [nd.id]
                        return [s_]
                    inn = solve_forward(cfg, [-1], transfer)
                    uses = []
                    for u in au.walk_local(fn):
                        if isinstance(u, ast.Name) and u.id == v and \
                                isinstance(u.ctx, ast.Load):
                            un = None
                            q = u
                            while q is not None and id(q) not in cfg.by_ast:
                                q = au.parent(q)
                            un = cfg.by_ast.get(id(q)) if q is not None \
                                else None
                            if un is None or dnode.id in inn[un]:
                                uses.append(u)
                    ok = bool(uses)
                    for u in uses:
                        par = au.parent(u)
                        if isinstance(par, ast.Compare) and any(
                                isinstance(o, (ast.Is, ast.IsNot))
                                for o in par.ops):
                            continue
                        if inside_backward(u, fn):
                            continue
                        ok = False
                if ok:
                    sinks += 1
                ctx.check('C14.M4.backward', cons, ok,
                          'a mapped model parameter is used without going '
                          'through map.backward: the result depends on the '
                          'chosen parametrisation', ctx.where(mod, n))
    ctx.need(sinks >= 6, f'only {sinks} backward sinks found (expected the '
             'VolumeModel, gridding, layered and chain-rule sites)')
    ctx.floor('C14.M4.backward', 8)


def _active_props(mm, fn, lp, pv, u, st_):
    """({names for which the use `u` is active}, all names), or None if a
    condition cannot be evaluated over the property names alone."""
    from ..core.tables import FiniteEval
    from ..core.report import AnalysisError
    cls = mm.cls('Model')
    pl = [n for n in ast.walk(cls) if isinstance(n, ast.Assign) and
          ast.unparse(n.targets[0]) == 'self._properties']
    names = au.const_list(pl[0].value) if len(pl) == 1 else None
    if not names:
        return None
    active = set()
    # (the list of DEFINED properties differs from model to model: the
    # decision is evaluated for every anisotropy case with / without mu_r and
    # epsilon_r; a name counts as active if it is active for some model)
    variants = []
    for ani in (['property_x'], ['property_x', 'property_y'],
                ['property_x', 'property_z'],
                ['property_x', 'property_y', 'property_z']):
        for extra in ([], ['mu_r'], ['epsilon_r'], ['mu_r', 'epsilon_r']):
            variants.append(ani + extra)
    for p_, defs_ in [(p_, v_) for v_ in variants for p_ in v_]:
        env = {pv: p_, 'self._properties': list(names),
               'self._def_properties': list(defs_)}
        fe = FiniteEval(env, where=mm.rel)
        # locals of the loop body that are functions of the name alone
        for a in lp.body:
            if isinstance(a, ast.Assign) and len(a.targets) == 1 and \
                    isinstance(a.targets[0], ast.Name) and a is not st_:
                try:
                    fe.env[a.targets[0].id] = fe.ev(a.value)
                except (AnalysisError, Exception):
                    pass
        try:
            on = all(bool(fe.ev(t)) == pol for t, pol in au.guards_of(u, lp))
            q_, child = au.parent(u), u
            while on and q_ is not None and q_ is not st_:
                if isinstance(q_, ast.BoolOp) and isinstance(q_.op, ast.And):
                    on = all(bool(fe.ev(o)) for o in q_.values
                             if o is not child)
                elif isinstance(q_, ast.IfExp) and child is not q_.test:
                    on = bool(fe.ev(q_.test)) == (child is q_.body)
                child, q_ = q_, au.parent(q_)
        except AnalysisError:
            return None
        if on:
            active.add(p_)
    return active, names


def _overridden(fn, u):
    """`{**opts, 'log': x}`: the use of the mapping-dependent dict `opts`
    replaces every mapping-dependent entry by something else."""
    par = au.parent(u)
    if not (isinstance(u, ast.Name) and isinstance(par, ast.Dict)):
        return False
    pos = [i for i, (k, v) in enumerate(zip(par.keys, par.values))
           if k is None and v is u]
    defs = [a for a in ast.walk(fn) if isinstance(a, ast.Assign) and
            ast.unparse(a.targets[0]) == u.id and isinstance(a.value,
                                                             ast.Dict)]
    if not pos or len(defs) != 1:
        return False
    dep = {k.value for k, v in zip(defs[0].value.keys, defs[0].value.values)
           if isinstance(k, ast.Constant) and 'self.map' in ast.unparse(v)}
    if any(k is None and 'self.map' in ast.unparse(v)
           for k, v in zip(defs[0].value.keys, defs[0].value.values)):
        return False
    later = {k.value for k, v in list(zip(par.keys, par.values))[pos[0]+1:]
             if isinstance(k, ast.Constant) and
             'self.map' not in ast.unparse(v)}
    return bool(dep) and dep <= later


def rule_unmapped(ctx):
    """mu_r and epsilon_r are not mapped.  Where Model treats all defined
    properties in one loop, anything that depends on the mapping
    (`self.map...`) may only act on the mapped properties (property_x/y/z):
    otherwise the same physical model is averaged differently under another
    parametrisation."""
    mm = ctx.repo.mod('emg3d/models.py')
    n = 0
    for meth in ('interpolate_to_grid', 'extract_1d'):
        fn = mm.method('Model', meth)
        loops = [l for l in ast.walk(fn) if isinstance(l, ast.For) and
                 ast.unparse(l.iter) == 'self._def_properties' and
                 isinstance(l.target, ast.Name)]
        ctx.anchor(len(loops) == 1, f'property loop in Model.{meth}')
        lp = loops[0]
        pv = lp.target.id
        # locals (defined before the loop) that depend on the mapping
        mapdep = set()
        for st in ast.walk(fn):
            if isinstance(st, ast.Assign) and st.lineno < lp.lineno and \
                    'self.map' in ast.unparse(st.value):
                for t in st.targets:
                    if isinstance(t, ast.Name):
                        mapdep.add(t.id)
        uses = []
        for x in ast.walk(lp):
            if isinstance(x, ast.Attribute) and ast.unparse(x) == 'self.map':
                uses.append(x)
            if isinstance(x, ast.Name) and x.id in mapdep and isinstance(
                    x.ctx, ast.Load):
                uses.append(x)
        for u in uses:
            # guarded by a test on the loop variable (directly or through a
            # local bound from it inside the loop)
            pdep = {pv}
            for st in ast.walk(lp):
                if isinstance(st, ast.Assign) and any(
                        isinstance(y, ast.Name) and y.id in pdep
                        for y in ast.walk(st.value)) and \
                        'getattr' not in ast.unparse(st.value):
                    for t in st.targets:
                        if isinstance(t, ast.Name):
                            pdep.add(t.id)
            guarded = any({y.id for y in ast.walk(t) if isinstance(
                y, ast.Name)} & pdep for t, _p in au.guards_of(u, lp))
            st_ = au.enclosing_stmt(u)
            inline = False
            q_ = au.parent(u)
            while q_ is not None and q_ is not st_:
                if isinstance(q_, ast.BoolOp) and {
                        y.id for y in ast.walk(q_)
                        if isinstance(y, ast.Name)} & pdep:
                    inline = True
                if isinstance(q_, ast.IfExp) and {
                        y.id for y in ast.walk(q_.test)
                        if isinstance(y, ast.Name)} & pdep:
                    inline = True
                q_ = au.parent(q_)
            # ... decided over the finite set of property names: the
            # mapping-dependent treatment is active for EXACTLY the three
            # mapped properties
            act = _active_props(mm, fn, lp, pv, u, st_)
            if act is not None and not _overridden(fn, u):
                want = set(act[1][:3])
                ctx.check('C14.M5.unmapped', f'Model.{meth}: properties '
                          f'treated by the mapping at `{au.stext(st_)[:50]}`',
                          act[0] == want, 'the mapping-dependent treatment '
                          f'applies to {sorted(act[0])}; the mapped '
                          f'properties are {sorted(want)} (mu_r / epsilon_r '
                          'are never mapped, property_x/y/z always are)',
                          ctx.where(mm, st_),
                          sample={'method': meth, 'active': sorted(act[0])})
            n += 1
            ctx.check('C14.M5.unmapped', f'Model.{meth} `{au.stext(st_)[:60]}`',
                      guarded or inline, 'a mapping-dependent choice is '
                      f'applied to every defined property of the loop over '
                      f'`{pv}`, also to mu_r / epsilon_r, which are not '
                      'mapped: their average depends on the parametrisation '
                      'of the conductivity', ctx.where(mm, st_))
    ctx.need(n >= 2, 'no mapping-dependent treatment in the property loops')


def rule_own_copy(ctx):
    """A Model owns its parameter arrays: what _init_parameter returns (and
    __init__ stores, and the in-place setters later overwrite) must be a new
    array on every path, never the caller's object or a view of it.
    np.asfortranarray / np.asarray / reshape return the input itself when no
    conversion is needed."""
    mm = ctx.repo.mod('emg3d/models.py')
    fn = mm.method('Model', '_init_parameter')
    par = au.params(fn)[1]
    NOCOPY = ('np.asfortranarray', 'np.asarray', 'np.asanyarray',
              'np.ascontiguousarray', 'np.atleast_1d', 'np.squeeze',
              'np.ravel')
    COPY = ('np.array', 'np.copy', 'np.full', 'np.ones', 'np.zeros',
            'np.empty', 'np.require')

    def fresh(e, env):
        """Is the value of e a new array (not aliasing the parameter)?"""
        if isinstance(e, ast.Name):
            return env.get(e.id, e.id != par)
        if isinstance(e, ast.BinOp):
            return True                      # arithmetic allocates
        if isinstance(e, ast.Call):
            f = ast.unparse(e.func)
            if f in COPY:
                return not any(k.arg == 'copy' and ast.unparse(k.value) ==
                               'False' for k in e.keywords)
            if f in NOCOPY:
                return all(fresh(a, env) for a in e.args[:1])
            if isinstance(e.func, ast.Attribute):
                if e.func.attr == 'copy':
                    return True
                if e.func.attr in ('reshape', 'view', 'ravel', 'squeeze',
                                   'transpose', 'astype'):
                    if e.func.attr == 'astype' and not any(
                            k.arg == 'copy' for k in e.keywords):
                        return True
                    return fresh(e.func.value, env)
        if isinstance(e, ast.Constant):
            return True
        return False
    # flow-sensitive over the straight-line / if-else structure: at a join a
    # name is fresh only if it is fresh on both arms
    verdicts = []

    def walk(stmts, env):
        env = dict(env)
        for st in stmts:
            if isinstance(st, ast.Assign):
                v = fresh(st.value, env)
                for t in st.targets:
                    if isinstance(t, ast.Name):
                        env[t.id] = v
            elif isinstance(st, ast.If):
                e1 = walk(st.body, env)
                e2 = walk(st.orelse, env)
                for k in set(e1) | set(e2):
                    env[k] = e1.get(k, env.get(k, k != par)) and \
                        e2.get(k, env.get(k, k != par))
            elif isinstance(st, ast.Return) and st.value is not None and \
                    not (isinstance(st.value, ast.Constant) and
                         st.value.value is None):
                verdicts.append((st, fresh(st.value, env)))
        return env
    walk(au.body_nodoc(fn), {par: False})
    ctx.anchor(len(verdicts) >= 1, 'return of Model._init_parameter')
    for r, okr in verdicts:
        ctx.check('C14.M3.own', f'Model._init_parameter `{au.stext(r)}`',
                  okr, 'the stored parameter array can be '
                  'the caller\'s own array (or a view of it) when that is '
                  'already float64 and Fortran-contiguous: the in-place '
                  'setters then write into the caller\'s array and into '
                  'every other property built from it, and later changes of '
                  'that array reach the model unvalidated',
                  ctx.where(mm, r))


TOL_CALLS = ('np.isclose', 'np.allclose', 'np.round', 'np.around', 'round',
             'np.rint', 'np.trunc', 'np.floor', 'np.ceil', 'np.unique',
             'np.testing.assert_allclose')


def rule_invariant_decisions(ctx):
    """What is built from the stored parameters for the solver (the volume
    model, the model on another grid, the layered model) may not depend on
    the parametrisation.  Mapped values are on very different scales
    (1e-10 S/m is 1e10 Ohm m is -10 in log10): comparing them with an
    ABSOLUTE tolerance, rounding them or taking `unique` of them decides
    differently for the same physical model under different mappings.
    Identity of layers etc. is decided exactly.  (Expected count on the tree
    is zero; a built-in example keeps the matcher alive.)"""
    probe = ast.parse('def f(v):\n    return np.isclose(v[1:], v[:-1])')
    hits = [c for c in ast.walk(probe) if isinstance(c, ast.Call) and
            ast.unparse(c.func) in TOL_CALLS]
    ctx.anchor(len(hits) == 1, 'tolerance-call matcher')
    mm = ctx.repo.mod(MODELS)
    n = 0
    for cname, meth in (('Model', 'extract_1d'),
                        ('Model', 'interpolate_to_grid'),
                        ('VolumeModel', '__init__'),
                        ('Model', '_init_parameter'),
                        ('Model', '_check_positive_finite')):
        fn = mm.method(cname, meth)
        for c in ast.walk(fn):
            if isinstance(c, ast.Call) and ast.unparse(c.func) in TOL_CALLS:
                n += 1
                ctx.check('C14.M5.tolerance', f'{cname}.{meth} '
                          f'`{ast.unparse(c)[:50]}`', False,
                          'stored (mapped) parameter values are compared '
                          'with a tolerance / rounded: the outcome depends '
                          'on the mapping (e.g. distinct very resistive '
                          'layers differ by less than 1e-8 as conductivities '
                          'and are merged, as resistivities they are kept), '
                          'so the same physical model gives other solver '
                          'input', ctx.where(mm, c))
    ctx.ok('C14.M5.tolerance', 'model construction decides on stored values '
           f'exactly ({n} tolerance calls found)', sample={'found': n})
    # the gridding is estimated from the model in the MODEL's mapping: the
    # default of `mapping` in estimate_gridding_opts is the map of the model
    me = ctx.repo.mod('emg3d/meshes.py')
    eg = me.func('estimate_gridding_opts')
    pops = [c for c in au.calls(eg) if isinstance(c.func, ast.Attribute) and
            c.func.attr == 'pop' and c.args and isinstance(
                c.args[0], ast.Constant) and c.args[0].value == 'mapping']
    ctx.anchor(len(pops) == 1, "`.pop('mapping', ..)` in "
               'estimate_gridding_opts')
    mp_ = au.params(eg)[1]
    dflt = ast.unparse(pops[0].args[1]) if len(pops[0].args) > 1 else 'None'
    ctx.check('C14.M4.gridding', 'estimate_gridding_opts: properties are '
              'read in the mapping of the model', dflt in (
                  f'{mp_}.map', f'{mp_}.map.name'),
              f'the default of `mapping` is `{dflt}`, not the map of the '
              'model: user-given `properties` of a model in another mapping '
              'are read as something else (skin depth, cell widths and '
              'buffer, hence grid, fields and data differ between '
              'parametrisations of the same model)',
              ctx.where(me, pops[0]))


def run(ctx):
    ctx.explanation = (
        'forward/backward/derivative_chain of the six Map classes are lifted '
        'into sympy (real x, positive sigma) and the inverse and chain-rule '
        'identities are decided by normal form; validation is a '
        'must-pass-through check on the setters\' CFGs; reads of mapped '
        'parameters outside the Model class must flow into map.backward '
        '(or be the property argument of derivative_chain).')
    ctx.trusted = ['sympy simplification of log/exp/power identities on '
                   'real / positive symbols',
                   'numpy element-wise semantics of **, log, log10, exp']
    rule_maps(ctx)
    rule_validation(ctx)
    rule_taint(ctx)
    rule_unmapped(ctx)
    rule_own_copy(ctx)
    rule_invariant_decisions(ctx)
    # computing with a model must not change it (MapConductivity.backward
    # hands out the model's own array): shared with C02
    from . import c02
    from ..core.report import Renamed
    c02.model_aliasing(Renamed(ctx, lambda r: 'C14.M4.alias'))
