"""C16 - automatic gridding meets its post-conditions or fails loudly.

Partial claim: the numeric post-conditions of the search are not decided.
What is decided are structural clauses each of which is a NECESSARY condition
of a post-condition (DESIGN.md 4/C16):

  G1  `_stretch` (abstract interpretation over array LENGTHS and prefix sums,
      all if/else paths): the returned widths have exactly nx - remain
      entries (nx with use_up) -> "one of the permitted cell counts"; the
      provided centre widths sit unchanged in the middle, the left / right
      extension is a prefix of the widths stretched from the first / last
      centre cell, and the returned edges are the given edges moved by
      exactly the sums of those prefixes -> "nodes of a provided vector are
      nodes of the mesh", "centre on a node / cell centre"
  G2  `_stretch` reports success only if the extent reaches both ends of the
      domain it was given and no more than nx cells were used; failure is the
      sentinel the callers test
  G3  `origin_and_widths`: cell numbers tried are the permitted ones, both
      `_stretch` calls get that number, stretching factors are drawn from
      [1, stretching[0]] and [sa, stretching[1]], the first call fills the
      survey domain, the second the computation domain; origin and widths
      returned are those of the successful second call
  G4  no mesh -> error (here, or - for the three directions - in
      construct_mesh)
  G5  computation domain = survey domain + wavelength buffer capped by
      max_buffer; skin depth / wavelength / minimum width formulas
  G6  `_seasurface`: the warning test is on every path to the return and is
      made on the nodes of the returned edges / widths; a provided vector is
      kept; the extra stretching allowance is the documented one
  G7  construct_mesh: per-direction routing of centre, sea surface,
      properties and results
  G8  good_mg_cell_nr / vector cut / centre part
  G9  the survey domain: given > distance > vector, distance sign-agnostic
      (evaluated symbolically over 2-vectors); estimate_gridding_opts takes
      every receiver position for EVERY source (relative receivers), all
      source centres, and widens by 10 %
"""
import ast
import itertools

import sympy as sp

from ..core import astutil as au
from ..core.cfg import CFG
from ..core.report import AnalysisError
from ..core.template import find, has, same
from ..expr.lift import Lifter, equal

LEVEL = 'other'
MESH = 'emg3d/meshes.py'


# --------------------------------------------------------------------------
# abstract values for the length interpreter
# --------------------------------------------------------------------------
class Arr:
    """Array known by its length and by what it is made of: `parts` is a
    tuple of (tag, mode, count), mode in all / prefix / revprefix."""

    def __init__(self, n, parts):
        self.n, self.parts = n, tuple(parts)

    def __repr__(self):
        return f'Arr({self.n}, {self.parts})'


class BoolArr:
    pass


class Cmp:
    """`e <= 0` (strict False) or `e < 0` (strict True), e a sympy expr."""

    def __init__(self, e, strict):
        self.e, self.strict = sp.expand(e), strict

    def neg(self):
        return Cmp(-self.e, not self.strict)

    def key(self):
        return (sp.srepr(sp.expand(self.e)), self.strict)


class And:
    def __init__(self, items):
        self.items = items


class Opaque:
    def __init__(self, text):
        self.text = text


S = sp.Function('S')          # S(tag, n): sum of the first n entries of tag


class LenInterp:
    """Path-wise abstract interpretation of a small numpy function over
    integer / real scalars (sympy) and arrays known by length and make-up."""

    def __init__(self, fn, binding, where):
        self.fn, self.where = fn, where
        self.binding = binding
        self.fresh = itertools.count()
        self.tags = {}

    def err(self, n, msg):
        return AnalysisError(f'{self.where}:{getattr(n, "lineno", "?")}: '
                             f'length interpreter: {msg}: '
                             f'`{ast.unparse(n)[:70]}`')

    def tagsym(self, tag):
        if tag not in self.tags:
            self.tags[tag] = sp.Symbol(f'T{len(self.tags)}')
        return self.tags[tag]

    def count(self):
        return sp.Symbol(f'c{next(self.fresh)}', integer=True, nonnegative=True)

    # -- expressions -------------------------------------------------------
    def ev(self, n, env, conds):
        if isinstance(n, ast.Constant):
            v = n.value
            if isinstance(v, bool) or v is None:
                return v
            if isinstance(v, (int, float)):
                return sp.nsimplify(v, rational=True)
            raise self.err(n, 'constant')
        if isinstance(n, ast.Name):
            if n.id in env:
                return env[n.id]
            raise self.err(n, 'unknown name')
        if isinstance(n, (ast.List, ast.Tuple)):
            return [self.ev(e, env, conds) for e in n.elts]
        if isinstance(n, ast.Attribute):
            v = self.ev(n.value, env, conds)
            if n.attr == 'size' and isinstance(v, Arr):
                return v.n
            raise self.err(n, 'attribute')
        if isinstance(n, ast.UnaryOp):
            v = self.ev(n.operand, env, conds)
            if isinstance(n.op, ast.USub) and isinstance(v, sp.Expr):
                return -v
            if isinstance(n.op, ast.Not):
                if isinstance(v, bool):
                    return not v
                if isinstance(v, Cmp):
                    return v.neg()
                return Opaque(ast.unparse(n))
            raise self.err(n, 'unary operator')
        if isinstance(n, ast.Subscript):
            return self.subscript(n, env, conds)
        if isinstance(n, ast.BinOp):
            return self.binop(n, env, conds)
        if isinstance(n, ast.Compare):
            return self.compare(n, env, conds)
        if isinstance(n, ast.BoolOp):
            vs = [self.ev(v, env, conds) for v in n.values]
            if isinstance(n.op, ast.And):
                if any(v is False for v in vs):
                    return False
                vs = [v for v in vs if v is not True]
                if not vs:
                    return True
                flat = []
                for v in vs:
                    flat.extend(v.items if isinstance(v, And) else [v])
                return And(flat)
            return Opaque(ast.unparse(n))
        if isinstance(n, ast.Call):
            return self.call(n, env, conds)
        if isinstance(n, ast.IfExp):
            t = self.ev(n.test, env, conds)
            if isinstance(t, bool):
                return self.ev(n.body if t else n.orelse, env, conds)
            raise self.err(n, 'conditional expression on a non-constant')
        raise self.err(n, f'expression kind {type(n).__name__}')

    def subscript(self, n, env, conds):
        if ast.unparse(n.value) == 'np.r_':
            elts = n.slice.elts if isinstance(n.slice, ast.Tuple) else \
                [n.slice]
            tot, parts = sp.Integer(0), []
            for e in elts:
                v = self.ev(e, env, conds)
                if isinstance(v, Arr):
                    tot += v.n
                    parts.extend(v.parts)
                elif isinstance(v, sp.Expr):
                    tot += 1
                    parts.append((('scalar', sp.srepr(v)), 'all', 1))
                else:
                    raise self.err(e, 'np.r_ element')
            return Arr(tot, parts)
        v = self.ev(n.value, env, conds)
        sl = n.slice
        if isinstance(v, list):
            i = self.ev(sl, env, conds)
            if isinstance(i, sp.Integer) and -len(v) <= int(i) < len(v):
                return v[int(i)]
            raise self.err(n, 'list index')
        if isinstance(v, Arr):
            if isinstance(sl, ast.Slice):
                lo = None if sl.lower is None else self.ev(sl.lower, env,
                                                           conds)
                up = None if sl.upper is None else self.ev(sl.upper, env,
                                                           conds)
                st = None if sl.step is None else self.ev(sl.step, env,
                                                          conds)
                if lo is None and st is None and isinstance(up, sp.Expr) \
                        and len(v.parts) == 1 and v.parts[0][1] == 'all':
                    self.slices.append((up, v.n, n))
                    return Arr(up, [(v.parts[0][0], 'prefix', up)])
                if lo is None and up is None and st == -1 and \
                        len(v.parts) == 1:
                    t, m, c = v.parts[0]
                    flip = {'prefix': 'revprefix', 'revprefix': 'prefix',
                            'all': 'revall', 'revall': 'all'}
                    return Arr(v.n, [(t, flip[m], c)])
                raise self.err(n, 'slice form')
            i = self.ev(sl, env, conds)
            if i == 0 or i == -1:
                if len(v.parts) == 1 and v.parts[0][1] == 'all':
                    nm = v.parts[0][0]
                    return sp.Symbol(f'{nm}_{"first" if i == 0 else "last"}',
                                     positive=True)
            raise self.err(n, 'array index')
        raise self.err(n, 'subscript')

    def binop(self, n, env, conds):
        a = self.ev(n.left, env, conds)
        b = self.ev(n.right, env, conds)
        op = n.op
        if isinstance(a, sp.Expr) and isinstance(b, sp.Expr):
            if isinstance(op, ast.Add):
                return a + b
            if isinstance(op, ast.Sub):
                return a - b
            if isinstance(op, ast.Mult):
                return a * b
            if isinstance(op, ast.Div):
                return a / b
            if isinstance(op, ast.FloorDiv):
                return sp.floor(a / b)
            if isinstance(op, ast.Pow):
                return a ** b
            raise self.err(n, 'operator')
        if isinstance(op, ast.Pow) and isinstance(a, sp.Expr) and \
                isinstance(b, Arr) and len(b.parts) == 1 and \
                b.parts[0][0][0] == 'arange':
            return Arr(b.n, [(('geom', sp.srepr(a), b.parts[0][0][1]), 'all',
                              b.n)])
        if isinstance(op, ast.Mult):
            if isinstance(a, Arr) and isinstance(b, sp.Expr):
                a, b = b, a
            if isinstance(a, sp.Expr) and isinstance(b, Arr) and \
                    len(b.parts) == 1 and b.parts[0][1] == 'all':
                return Arr(b.n, [(('scaled', str(a), b.parts[0][0]), 'all',
                                  b.n)])
            if isinstance(a, Arr) and isinstance(b, Arr):
                # broadcasting of the one-entry centre part
                for x, y in ((a, b), (b, a)):
                    if x.parts == self.single.parts and self.is_single(conds) \
                            and len(y.parts) == 1 and y.parts[0][1] == 'all':
                        return Arr(y.n, [(('scaled', 'w_single',
                                           y.parts[0][0]), 'all', y.n)])
        if isinstance(op, (ast.Add, ast.Sub)) and (
                isinstance(a, Arr) or isinstance(b, Arr)):
            arr = a if isinstance(a, Arr) else b
            return Arr(arr.n, [(('shifted', next(self.fresh)), 'all', arr.n)])
        raise self.err(n, 'operands')

    def is_single(self, conds):
        """Is `widths.size > 1` false on this path?"""
        for c, pol in conds:
            if isinstance(c, Cmp) and not pol and \
                    c.key() == Cmp(1 - self.single.n, True).key():
                return True
            if isinstance(c, Cmp) and pol and \
                    c.key() == Cmp(self.single.n - 1, False).key():
                return True
        return False

    def compare(self, n, env, conds):
        if len(n.ops) != 1:
            raise self.err(n, 'chained comparison')
        a = self.ev(n.left, env, conds)
        b = self.ev(n.comparators[0], env, conds)
        op = n.ops[0]
        if isinstance(a, Arr) or isinstance(b, Arr):
            return BoolArr()
        if isinstance(op, (ast.Is, ast.IsNot)):
            if (a is False or a is None or a is True) and isinstance(
                    b, sp.Expr) or (b is False or b is None) and \
                    isinstance(a, sp.Expr):
                return isinstance(op, ast.IsNot)
            if (a is False or a is None or a is True) and (
                    b is False or b is None or b is True):
                return (a is b) == isinstance(op, ast.Is)
            raise self.err(n, 'identity test')
        if isinstance(a, sp.Expr) and isinstance(b, sp.Expr):
            if isinstance(op, ast.LtE):
                return Cmp(a - b, False)
            if isinstance(op, ast.Lt):
                return Cmp(a - b, True)
            if isinstance(op, ast.GtE):
                return Cmp(b - a, False)
            if isinstance(op, ast.Gt):
                return Cmp(b - a, True)
            if isinstance(op, (ast.Eq, ast.NotEq)):
                return Opaque(ast.unparse(n))
        raise self.err(n, 'comparison')

    def call(self, n, env, conds):
        f = ast.unparse(n.func)
        args = [self.ev(a, env, conds) for a in n.args]
        if f == 'np.arange' and all(isinstance(a, sp.Expr) for a in args):
            lo, hi = (sp.Integer(0), args[0]) if len(args) == 1 else args[:2]
            if len(args) <= 2:
                return Arr(hi - lo, [(('arange', sp.srepr(lo)), 'all',
                                      hi - lo)])
        if f in ('np.cumsum',) and len(args) == 1 and isinstance(args[0], Arr):
            return Arr(args[0].n, [(('cumsum', next(self.fresh)), 'all',
                                    args[0].n)])
        if f in ('np.sum', 'sum') and len(args) == 1:
            v = args[0]
            if isinstance(v, BoolArr):
                return self.count()
            if isinstance(v, Arr) and len(v.parts) == 1 and v.parts[0][1] in (
                    'prefix', 'revprefix'):
                if v.parts[0][2] == 0:
                    return sp.Integer(0)
                return S(self.tagsym(v.parts[0][0]), v.parts[0][2])
        if f in ('int', 'float', 'np.float64') and len(args) == 1 and \
                isinstance(args[0], sp.Expr):
            return args[0]
        if f in ('np.floor', 'math.floor') and len(args) == 1 and \
                isinstance(args[0], sp.Expr):
            return sp.floor(args[0])
        if f in ('np.ceil', 'math.ceil') and len(args) == 1 and \
                isinstance(args[0], sp.Expr):
            return sp.ceiling(args[0])
        if f == 'len' and len(args) == 1 and isinstance(args[0], Arr):
            return args[0].n
        if f in ('np.array', 'np.asarray', 'list') and len(args) == 1 and \
                isinstance(args[0], (list, Arr)):
            return args[0]
        if f in ('max', 'min') and len(args) == 2 and all(
                isinstance(a, sp.Expr) for a in args):
            return (sp.Max if f == 'max' else sp.Min)(*args)
        raise self.err(n, 'call')

    # -- statements ----------------------------------------------------------
    def run(self, env):
        """All paths: list of (conds, returned value)."""
        self.slices = []
        out = []
        self.block(au.body_nodoc(self.fn), dict(env), (), out)
        return out

    def block(self, stmts, env, conds, out):
        """Interpret; returns list of (env, conds) that fall through."""
        states = [(env, conds)]
        for st in stmts:
            nxt = []
            for env, conds in states:
                nxt.extend(self.stmt(st, env, conds, out))
            states = nxt
            if len(states) > 256:
                raise AnalysisError(f'{self.where}: too many paths')
        return states

    def stmt(self, st, env, conds, out):
        if isinstance(st, ast.Assign) and len(st.targets) == 1:
            v = self.ev(st.value, env, conds)
            env = dict(env)
            t = st.targets[0]
            if isinstance(t, ast.Name):
                env[t.id] = v
            elif isinstance(t, (ast.Tuple, ast.List)) and isinstance(
                    v, list) and len(v) == len(t.elts) and all(
                        isinstance(e, ast.Name) for e in t.elts):
                for e, x in zip(t.elts, v):
                    env[e.id] = x
            else:
                raise self.err(st, 'assignment target')
            return [(env, conds)]
        if isinstance(st, ast.AugAssign) and isinstance(st.target, ast.Name):
            v = self.ev(ast.BinOp(ast.Name(st.target.id, ast.Load()), st.op,
                                  st.value), env, conds)
            env = dict(env)
            env[st.target.id] = v
            return [(env, conds)]
        if isinstance(st, ast.If):
            t = self.ev(st.test, env, conds)
            if isinstance(t, bool):
                return self.block(st.body if t else st.orelse, env, conds,
                                  out)
            res = []
            res += self.block(st.body, env, conds + ((t, True),), out)
            res += self.block(st.orelse, env, conds + ((t, False),), out)
            return res
        if isinstance(st, ast.Return):
            out.append((conds, self.ev(st.value, env, conds)
                        if st.value is not None else None))
            return []
        if isinstance(st, (ast.Pass,)) or au.is_docstring(st):
            return [(env, conds)]
        raise self.err(st, 'statement kind')


def parity_zero(e):
    """Is the integer expression e identically 0?  floor / ceiling of halves
    are resolved by substituting every integer symbol by 2k and 2k+1."""
    e = sp.expand(e)
    if e == 0:
        return True
    if not e.atoms(sp.floor, sp.ceiling):
        return sp.simplify(e) == 0
    syms = sorted((s for s in e.free_symbols if s.is_integer),
                  key=lambda s: s.name)
    if len(syms) > 6:
        return False
    for par in itertools.product((0, 1), repeat=len(syms)):
        sub = {s: 2 * sp.Symbol(s.name + '_h', integer=True) + p
               for s, p in zip(syms, par)}
        if sp.simplify(e.subs(sub)) != 0:
            return False
    return True


def true_cmps(conds):
    """The comparisons (as `e <= 0` / `e < 0`) that hold on a path."""
    out = []
    for c, pol in conds:
        if isinstance(c, And):
            if pol:
                out += [i for i in c.items if isinstance(i, Cmp)]
        elif isinstance(c, Cmp):
            out.append(c if pol else c.neg())
    return out


def rule_stretch(ctx, mod):
    fn = mod.func('_stretch')
    ps = au.all_params(fn)
    ctx.anchor(len(ps) == 6, '_stretch(edges, widths, stretching, nx, domain,'
               ' use_up)')
    nx = sp.Symbol('nx', integer=True, positive=True)
    sz = sp.Symbol('sz', integer=True, positive=True)
    e0, e1, d0, d1 = sp.symbols('edges_0 edges_1 domain_0 domain_1',
                                real=True)
    alpha = sp.Symbol('alpha', positive=True)
    n_paths = n_ok = 0
    for use_up in (True, False):
        it = LenInterp(fn, None, MESH)
        it.single = Arr(sz, [('widths', 'all', sz)])
        env = {ps[0]: [e0, e1], ps[1]: it.single, ps[2]: alpha, ps[3]: nx,
               ps[4]: [d0, d1], ps[5]: use_up}
        paths = it.run(env)
        ctx.need(paths, '_stretch: no return path')
        for conds, ret in paths:
            n_paths += 1
            ctx.need(isinstance(ret, list) and len(ret) == 3,
                     '_stretch does not return (edges, widths, remain)')
            edges, widths, remain = ret
            tag = f'_stretch path {n_paths} (use_up={use_up})'
            if not isinstance(widths, Arr):
                ctx.check('C16.G2.failure', tag, remain is False and
                          widths is False, 'a path that returns no widths '
                          'does not return the sentinel `False` the callers '
                          'test (`remain is False`)', ctx.where(mod, fn))
                continue
            n_ok += 1
            where = ctx.where(mod, fn)
            ctx.check('C16.G2.failure', tag, isinstance(remain, sp.Expr),
                      'widths are returned together with the failure '
                      'sentinel', where)
            if not isinstance(remain, sp.Expr):
                continue
            # G1 count
            ctx.check('C16.G1.count', tag, parity_zero(widths.n + remain - nx),
                      f'the returned widths have {sp.simplify(widths.n)} '
                      f'entries and {remain} cells are reported as '
                      'remaining: together that is not the requested cell '
                      'number nx, so the mesh has a cell count that is not '
                      'one of the permitted numbers', where, sample={
                          'length': str(sp.simplify(widths.n)),
                          'remain': str(remain)}, obligation=True)
            if use_up:
                ctx.check('C16.G1.count', tag + ' uses all cells',
                          remain == 0, 'with use_up the remaining cells are '
                          f'reported as {remain}, not 0', where)
            # G1 make-up
            shape = [(p[1], ) for p in widths.parts]
            ok = len(widths.parts) == 3 and shape == [
                ('revprefix',), ('all',), ('prefix',)] and \
                widths.parts[1][0] == 'widths'
            ctx.check('C16.G1.centre', tag, ok, 'the returned widths are not '
                      '[left extension reversed, provided centre widths '
                      f'unchanged, right extension] but {widths.parts}: '
                      'nodes of a provided vector / the centre cell are not '
                      'kept', where)
            if not ok:
                continue
            (lt, _, ln), _, (rt, _, rn) = widths.parts

            def base(t):
                return (t[1] if t[0] == 'scaled' else None,
                        t[2] if t[0] == 'scaled' else None)
            lb, rb = base(lt), base(rt)
            okl = lb[0] in ('widths_first', 'w_single') and lb[1] and \
                lb[1][0] == 'geom'
            okr = rb[0] in ('widths_last', 'w_single') and rb[1] and \
                rb[1][0] == 'geom'
            ctx.check('C16.G1.centre', tag + ' extension widths', okl and okr,
                      'the left extension is not the FIRST provided width '
                      'times powers of the stretching factor, or the right '
                      f'one not the LAST ({lb[0]}, {rb[0]}): neighbouring '
                      'widths jump at the edge of the centre part', where)
            if okl and okr:
                expo = {lb[1][2], rb[1][2]}
                ctx.check('C16.G1.centre', tag + ' first exponent', expo == {
                    sp.srepr(sp.Integer(1))} and lb[1][1] == rb[1][1] ==
                    sp.srepr(alpha), 'the extension widths are not '
                    'w * stretching**k with k = 1, 2, ... on both sides',
                    where)
            # G1 origin
            want0 = e0 - (S(it.tagsym(lt), ln) if ln != 0 else 0)
            want1 = e1 + (S(it.tagsym(rt), rn) if rn != 0 else 0)
            ok = isinstance(edges, list) and len(edges) == 2 and all(
                isinstance(x, sp.Expr) for x in edges) and \
                sp.simplify(edges[0] - want0) == 0 and \
                sp.simplify(edges[1] - want1) == 0
            ctx.check('C16.G1.origin', tag, ok, 'the returned edges are not '
                      'the given edges moved outwards by the sums of the '
                      'extension widths that were added on that side '
                      f'(returned {edges}): origin and widths describe '
                      'different meshes, provided nodes are shifted', where,
                      sample={'edges': str(edges)}, obligation=True)
            # G2 guard: the comparisons that hold on this path
            tc = [c for c in true_cmps(conds) if not c.strict]
            # (a) no more than nx cells: nx - sz - <cells added> >= 0; with
            # use_up=False the tested number is the returned `remain`
            def cells_test(c):
                r = sp.simplify(-c.e - nx + sz)      # = -(cells added)
                return not (r.free_symbols & {nx, sz, e0, e1, d0, d1}) and \
                    (-r).is_nonnegative is True and not r.atoms(sp.Function)
            okg = any(cells_test(c) for c in tc)
            if not use_up:
                okg = okg and any(parity_zero(c.e + remain) for c in tc)
            ctx.check('C16.G2.guard', tag + ' remain >= 0', okg,
                      'widths are returned without the test that no more '
                      'than nx cells were used (remain >= 0)', where)
            lo = hi = False
            for c in tc:
                ss = [x for x in c.e.atoms(sp.Function) if x.func == S]
                if not ss:
                    if (use_up or ln == 0) and sp.simplify(
                            c.e - (e0 - d0)) == 0:
                        lo = True
                    if (use_up or rn == 0) and sp.simplify(
                            c.e - (d1 - e1)) == 0:
                        hi = True
                if len(ss) != 1:
                    continue
                tg, cnt = ss[0].args
                if tg == it.tagsym(lt) and (use_up or sp.simplify(
                        cnt - ln) == 0) and sp.simplify(
                        c.e - (e0 - ss[0] - d0)) == 0:
                    lo = True
                if tg == it.tagsym(rt) and (use_up or sp.simplify(
                        cnt - rn) == 0) and sp.simplify(
                        c.e - (d1 - e1 - ss[0])) == 0:
                    hi = True
            ctx.check('C16.G2.guard', tag + ' domain reached', lo and hi,
                      'widths are returned without the test that the '
                      'extended part reaches BOTH ends of the domain '
                      '(edges[0] - sum(left) <= domain[0] and edges[1] + '
                      'sum(right) >= domain[1], sums over the widths that '
                      'are added): the mesh need not cover the survey domain '
                      '/ the buffer', where)
        # slices are not truncated: a prefix of k entries of an array of
        # length L needs k <= L; k <= nx - 1 holds because all parts are
        # non-negative and add up to nx with at least one centre cell
        seen = set()
        for up, length, node in it.slices:
            if (node.lineno, node.col_offset, str(length)) in seen:
                continue
            seen.add((node.lineno, node.col_offset, str(length)))
            ctx.check('C16.G1.count', f'_stretch slice `{ast.unparse(node)}` '
                      f'of length {length} (use_up={use_up})',
                      sp.simplify(length - nx + 1).is_nonnegative is True,
                      f'the extension is cut out of an array of length '
                      f'{length}, which can be shorter than the nx - 1 '
                      'cells an extension may need: fewer cells than '
                      'counted are returned', ctx.where(mod, node))
    ctx.need(n_ok >= 4, f'_stretch: only {n_ok} successful paths analysed')
    ctx.floor('C16.G1.count', 8)
    ctx.floor('C16.G1.origin', 4)



# --------------------------------------------------------------------------
def bind_call(call, fn):
    """parameter name -> argument node of a call of `fn`."""
    ps = au.all_params(fn)
    out = dict(zip(ps, call.args))
    for k in call.keywords:
        if k.arg:
            out[k.arg] = k.value
    return out


def loop_of(name_node, fn):
    """Innermost enclosing `for` whose target is that name."""
    for p in au.ancestors(name_node, fn):
        if isinstance(p, ast.For) and isinstance(p.target, ast.Name) and \
                p.target.id == name_node.id:
            return p
    return None


def rule_search(ctx, mod):
    fn = mod.func('origin_and_widths')
    sfn = mod.func('_stretch')
    sp_ = au.all_params(sfn)
    calls = au.calls(fn, '_stretch')
    ctx.anchor(len(calls) == 2, 'two _stretch calls in origin_and_widths')
    where = ctx.where(mod, fn)
    # which call fills the survey domain (A) and which the buffer (B): B
    # extends what A returned
    unp = {}
    for c in calls:
        st = au.enclosing_stmt(c)
        ctx.anchor(isinstance(st, ast.Assign) and isinstance(
            st.targets[0], ast.Tuple) and len(st.targets[0].elts) == 3 and
            all(isinstance(e, ast.Name) for e in st.targets[0].elts),
            'edges, widths, remain = _stretch(...)')
        unp[id(c)] = [e.id for e in st.targets[0].elts]
    b0, b1 = bind_call(calls[0], sfn), bind_call(calls[1], sfn)
    if isinstance(b0[sp_[0]], ast.Name) and b0[sp_[0]].id == unp[id(
            calls[1])][0]:
        calls = calls[::-1]
        b0, b1 = b1, b0
    A, B = calls
    ok = isinstance(b1[sp_[0]], ast.Name) and isinstance(
        b1[sp_[1]], ast.Name) and [b1[sp_[0]].id, b1[sp_[1]].id] == unp[
            id(A)][:2]
    ctx.check('C16.G3.search', 'buffer cells extend the survey-domain part',
              ok, 'the second _stretch call does not start from the edges '
              'and widths the first one returned', ctx.where(mod, B))
    # permitted cell numbers
    cn = find("_c_ = kwargs.pop('cell_numbers', _d_)", fn)
    ctx.anchor(len(cn) == 1, "kwargs.pop('cell_numbers', ...)")
    C, dflt = cn[0][1]['_c_'], cn[0][1]['_d_']
    ctx.check('C16.G3.search', 'default cell numbers are the multigrid-'
              'friendly ones', dflt.replace(' ', '') in (
                  'good_mg_cell_nr()', 'good_mg_cell_nr(1024,5,3)'),
              f'default of cell_numbers is `{dflt}`', ctx.where(mod,
                                                               cn[0][0]))
    for nm, c, b in (('survey domain', A, b0), ('buffer', B, b1)):
        a = b.get(sp_[3])
        lp = loop_of(a, fn) if isinstance(a, ast.Name) else None
        ok = lp is not None and any(same(t, lp.iter) is not None for t in (
            f'np.unique({C})', f'sorted({C})', f'np.sort({C})', C,
            f'sorted(set({C}))'))
        ctx.check('C16.G3.search', f'{nm}: number of cells is one of the '
                  'permitted numbers', ok, f'_stretch gets nx=`'
                  f'{ast.unparse(a) if a is not None else None}`, which is '
                  'not the loop variable over the permitted cell numbers: '
                  'the mesh can come out with another cell count',
                  ctx.where(mod, c))
    # stretching factors drawn from the permitted ranges
    stq = find("_s_ = kwargs.pop('stretching', __)", fn)
    ctx.anchor(len(stq) == 1, "kwargs.pop('stretching', ...)")
    S_ = stq[0][1]['_s_']
    la = loop_of(b0[sp_[2]], fn) if isinstance(b0[sp_[2]], ast.Name) else None
    lb = loop_of(b1[sp_[2]], fn) if isinstance(b1[sp_[2]], ast.Name) else None
    oka = la is not None and same(f'np.linspace(1.0, {S_}[0], __)',
                                  la.iter) is not None
    okb = lb is not None and la is not None and same(
        f'np.linspace({la.target.id}, {S_}[1], __)', lb.iter) is not None
    ctx.check('C16.G3.search', 'stretching in the survey domain within '
              '[1, stretching[0]]', oka, 'the factor handed to _stretch for '
              'the survey domain is not drawn from np.linspace(1, '
              'stretching[0], n): widths can grow faster than permitted',
              ctx.where(mod, A))
    ctx.check('C16.G3.search', 'stretching in the buffer within '
              '[sa, stretching[1]]', okb, 'the factor handed to _stretch '
              'for the buffer is not drawn from np.linspace(sa, '
              'stretching[1], n)', ctx.where(mod, B))
    # domains
    dom_par = au.params(fn)[3]
    ok = isinstance(b0[sp_[4]], ast.Name) and b0[sp_[4]].id == dom_par
    ctx.check('C16.G3.search', 'first fill reaches the survey domain', ok,
              f'the survey-domain fill is tested against '
              f'`{ast.unparse(b0[sp_[4]])}`, not the survey domain',
              ctx.where(mod, A))
    cdn = b1[sp_[4]].id if isinstance(b1[sp_[4]], ast.Name) else None
    up = b1.get(sp_[5])
    ctx.check('C16.G3.search', 'buffer fill uses all remaining cells',
              isinstance(up, ast.Constant) and up.value is True,
              'the buffer is not built with use_up=True: the mesh has fewer '
              'cells than the permitted number that was tried',
              ctx.where(mod, B))
    # result: origin and widths of the successful buffer call
    eB, wB, rB = unp[id(B)]
    fin = [n for n in ast.walk(fn) if isinstance(n, ast.Assign) and
           isinstance(n.value, ast.Constant) and n.value.value is True and
           isinstance(n.targets[0], ast.Name)]
    flag = None
    for n in ast.walk(fn):
        if isinstance(n, ast.If) and any(isinstance(x, ast.Raise)
                                         for x in ast.walk(n)) and \
                'No suitable grid' in ast.unparse(n):
            t = n.test
            if isinstance(t, ast.UnaryOp) and isinstance(t.operand, ast.Name):
                flag = t.operand.id
            elif isinstance(t, ast.Name):
                flag = t.id
    ctx.anchor(flag, 'success flag tested before "No suitable grid found"')
    sets = [n for n in fin if n.targets[0].id == flag]
    from ..core.canon import ct
    ok = len(sets) >= 1 and all(any(
        g == ct(f'{rB} is not False') for g in au.guard_texts(n, fn))
        for n in sets)
    ctx.check('C16.G3.search', 'success only if the buffer fill succeeded',
              ok, f'`{flag} = True` is not under `{rB} is not False` (the '
              'sentinel of the buffer fill): a mesh that does not cover the '
              'computation domain / has too many cells is accepted', where)
    rets = [r for r in ast.walk(fn) if isinstance(r, ast.Return) and
            isinstance(r.value, ast.Tuple) and len(r.value.elts) >= 2]
    ctx.anchor(len(rets) >= 1, 'return x0, hx')
    for r in rets:
        x0, hx = r.value.elts[0], r.value.elts[1]
        vx = [ast.unparse(v) for v in au.values_of(x0, [fn], depth=1)]
        vh = [ast.unparse(v) for v in au.values_of(hx, [fn], depth=1)]
        okx = set(vx) <= {f'{eB}[0]', 'None'} and f'{eB}[0]' in vx
        okh = (isinstance(hx, ast.Name) and hx.id == wB) or set(vh) <= {
            wB, 'None'}
        ctx.check('C16.G3.search', f'returned origin / widths are those of '
                  f'the successful fill (`{ast.unparse(r)[:30]}`)',
                  okx and okh, f'origin is {vx}, widths are {vh}; expected '
                  f'`{eB}[0]` and `{wB}` of the buffer fill (or None on '
                  'failure)', ctx.where(mod, r))
    # failure is loud
    raises = [n for n in ast.walk(fn) if isinstance(n, ast.Raise) and
              'RuntimeError' in ast.unparse(n) and any(
                  g == ct(f'not {flag}') for g in au.guard_texts(n, fn))]
    rerr = find("_r_ = kwargs.pop('raise_error', True)", fn)
    ctx.anchor(len(rerr) == 1, "kwargs.pop('raise_error', True)")
    ok = len(raises) == 1 and set(au.guard_texts(raises[0], fn)) <= {
        ct(f'not {flag}'), rerr[0][1]['_r_']}
    ctx.check('C16.G4.failure', 'origin_and_widths: no mesh -> error', ok,
              'no RuntimeError is raised when no candidate fits',
              ctx.where(mod, raises[0] if raises else fn))
    cm = mod.func('construct_mesh')
    ow = au.calls(cm, 'origin_and_widths')
    ctx.anchor(len(ow) == 3, 'three origin_and_widths calls in '
               'construct_mesh')
    firsts = []
    for c in ow:
        st = au.enclosing_stmt(c)
        if isinstance(st, ast.Assign) and isinstance(st.targets[0],
                                                     ast.Tuple):
            firsts.append(st.targets[0].elts[0].id)
    rs = [n for n in ast.walk(cm) if isinstance(n, ast.Raise)]
    ok = False
    for r in rs:
        gt = au.guards_of(r, cm)
        if gt and all(f in ast.unparse(gt[-1][0]) for f in firsts) and \
                'is None' in ast.unparse(gt[-1][0]) and 'any' in ast.unparse(
                    gt[-1][0]):
            ok = True
    ctx.check('C16.G4.failure', 'construct_mesh: a direction without mesh '
              '-> error', ok and len(firsts) == 3, 'construct_mesh does not '
              'raise when one of the three directions returned None '
              f'(origins {firsts})', ctx.where(mod, cm))
    return fn, dom_par, cdn


def rule_domain(ctx, mod, fn, D, CD):
    """G5: computation domain = survey domain + buffer."""
    where = ctx.where(mod, fn)
    wl = find('_w_ = _lf_ * wavelength(_sk_[1:])', fn)
    ctx.check('C16.G5.domain', 'buffer length = lambda_factor * wavelength '
              'of the buffer properties', len(wl) == 1,
              'the length the buffer is derived from is not lambda_factor '
              'times the wavelength of the second / third property (e.g. '
              'capped or scaled before): the mesh need not cover the '
              'requested buffer min(lambda_factor * wavelength, max_buffer)',
              where)
    if len(wl) != 1:
        return
    W = wl[0][1]['_w_']
    lfp = find("_lf_ = kwargs.pop('lambda_factor', 1.0)", fn,
               {'_lf_': wl[0][1]['_lf_']})
    mb = find("_mb_ = kwargs.pop('max_buffer', __)", fn)
    ctx.anchor(len(mb) == 1 and len(lfp) == 1, 'max_buffer / lambda_factor')
    MB = mb[0][1]['_mb_']
    cen = au.params(fn)[2]
    plain = find(f'_b_ = np.min([{W}, np.ones(2) * {MB}], axis=0)', fn)
    okp = len(plain) == 1 and has(
        f'{CD} = np.array([{D}[0] - {plain[0][1]["_b_"]}[0], '
        f'{D}[1] + {plain[0][1]["_b_"]}[1]])', fn)
    ctx.check('C16.G5.domain', 'computation domain = survey domain + '
              'min(wavelength, max_buffer)', okp, 'the computation domain is '
              'not [domain[0] - b[0], domain[1] + b[1]] with b = '
              'min(lambda_factor * wavelength, max_buffer): the mesh need '
              'not cover the requested buffer', where)
    lfc = find(f'_i_ = abs({D} - {cen})', fn)
    okc = len(lfc) == 1
    if okc:
        I_ = lfc[0][1]['_i_']
        db = find(f'_d_ = np.max([np.zeros(2), (2 * {W} - {I_}) / 2], '
                  'axis=0)', fn)
        okc = len(db) == 1 and has(
            f'{CD} = np.array([{D}[0] - {db[0][1]["_d_"]}[0], '
            f'{D}[1] + {db[0][1]["_d_"]}[1]])', fn) and has(
            f'{CD}[0] = max({CD}[0], {cen} - {MB})', fn) and has(
            f'{CD}[1] = min({CD}[1], {cen} + {MB})', fn)
    ctx.check('C16.G5.domain', 'computation domain with lambda_from_center',
              okc, 'with lambda_from_center the buffer is not max(0, (2 '
              'lambda - distance to the centre)/2) per side, capped at '
              'centre -/+ max_buffer', where)
    # formulas
    lf = Lifter(where=MESH, sym_assume={'positive': True})
    sk = mod.func('skin_depth')
    f, sig, mur = (sp.Symbol(x, positive=True) for x in au.params(sk))
    rets = [r for r in ast.walk(sk) if isinstance(r, ast.Return)]
    body = [n for n in au.body_nodoc(sk)]
    try:
        from ..expr.lift import straight_paths
        lf2 = Lifter({au.params(sk)[0]: f, au.params(sk)[1]: sig,
                      au.params(sk)[2]: mur, 'sp.constants.mu_0':
                      sp.Symbol('mu0', positive=True)}, where=MESH)
        paths = straight_paths(body, lf2)
        vals = {}
        for p_ in paths:
            if p_.returned and p_.returned[0] == 'value':
                lap = p_.holds(f'{au.params(sk)[0]} < 0')
                vals[bool(lap)] = p_.returned[1]
        mu0 = sp.Symbol('mu0', positive=True)
        want = 1 / sp.sqrt(sp.pi * f * sig * mur * mu0)
        okf = False in vals and equal(vals[False], want) and True in vals \
            and equal(vals[True], want / sp.sqrt(2 * sp.pi))
    except AnalysisError:
        okf = False
    ctx.check('C16.G5.formulas', 'skin depth = 1/sqrt(pi |f| sigma mu) '
              '(Laplace: / sqrt(2 pi))', okf, 'skin_depth() is not the '
              'documented formula: minimum width and buffer are derived '
              'from another length', ctx.where(mod, sk))
    wv = mod.func('wavelength')
    rw = [r for r in ast.walk(wv) if isinstance(r, ast.Return)]
    okw = len(rw) == 1 and same(f'2 * np.pi * {au.params(wv)[0]}',
                                rw[0].value) is not None
    ctx.check('C16.G5.formulas', 'wavelength = 2 pi skin depth', okw,
              'wavelength() is not 2 pi delta', ctx.where(mod, wv))
    cw = mod.func('cell_width')
    cp = au.params(cw)
    okc = has(f'_c_ = {cp[0]} / {cp[1]}', cw) and (
        has(f'np.clip(_c_, *{cp[2]})', cw) or
        has(f'np.clip(_c_, {cp[2]}[0], {cp[2]}[1])', cw))
    if okc:
        # the clipped value is what is returned when two limits are given
        cl = [c for c in au.calls(cw, 'np.clip')]
        st_ = au.enclosing_stmt(cl[0])
        okc = isinstance(st_, ast.Return) or (
            isinstance(st_, ast.Assign) and any(
                isinstance(r_, ast.Return) and r_.value is not None and
                ast.unparse(r_.value) == ast.unparse(st_.targets[0])
                for r_ in ast.walk(cw)))
    ctx.check('C16.G5.formulas', 'cell width = skin depth / pps, clipped to '
              'the limits', okc, 'cell_width() is not delta/pps restricted '
              'to [min, max]', ctx.where(mod, cw))
    dm = find(f'_d_ = cell_width(_sk_[0], _pps_, _lim_)', fn)
    ctx.check('C16.G5.formulas', 'minimum width from the skin depth at the '
              'centre', len(dm) == 1, 'the minimum cell width is not '
              'cell_width(skin depth of the first property, pps, limits)',
              where)


def rule_seasurface(ctx, mod):
    fn = mod.func('_seasurface')
    ps = au.params(fn)
    E, Wd, SS, ST, VEC = ps[0], ps[1], ps[3], ps[4], ps[5]
    rets = [r for r in au.walk_local(fn) if isinstance(r, ast.Return)]
    ctx.anchor(len(rets) == 1 and same(f'({E}, {Wd})', rets[0].value)
               is not None, f'_seasurface returns ({E}, {Wd})')
    nv = find(f'_n_ = np.r_[{E}[0], {E}[0] + np.cumsum({Wd})]', fn)
    ok = len(nv) == 1
    if ok:
        ck = find(f'_c_ = min(abs({nv[0][1]["_n_"]} - {SS}))', fn)
        ok = len(ck) == 1
    warn = [n for n in ast.walk(fn) if isinstance(n, ast.Expr) and
            'warnings.warn' in ast.unparse(n)]
    if ok and len(warn) == 1:
        gt = au.guard_texts(warn[0], fn)
        from ..core.canon import ct
        c_ = ck[0][1]['_c_']
        ok = gt in ([ct(f'not np.isclose(0.0, {c_})')],
                    [ct(f'not np.isclose({c_}, 0.0)')])
        # on every path to the return, after the last change of the result
        cfg = CFG(fn)
        wn, rn = cfg.node_of(warn[0]), cfg.node_of(rets[0])
        tn = cfg.node_of(au.enclosing(warn[0], ast.If))
        dom = cfg.dominators()
        ok = ok and dom(tn, rn)
        later = [n for n in cfg.nodes if n.kind == 'stmt' and n.ast is not
                 None and isinstance(n.ast, (ast.Assign, ast.AugAssign)) and
                 any(ast.unparse(t).split('[')[0] in (E, Wd) for t in (
                     n.ast.targets if isinstance(n.ast, ast.Assign)
                     else [n.ast.target]))]
        nvn = cfg.node_of(nv[0][0])
        ok = ok and not any(x in cfg.reachable_between(nvn, rn)
                            for x in later)
    else:
        ok = False
    ctx.check('C16.G6.seasurface', 'sea surface is a node of the returned '
              'part, or a warning says it is not', ok, 'the test '
              '"seasurface is a node" (and its warning) is not made on the '
              'nodes of the RETURNED edges / widths on every path: the sea '
              'surface can silently end up inside a cell',
              ctx.where(mod, fn))
    # a provided vector is kept
    keep = find(f'{Wd} = np.r_[{Wd}, _h_]', fn)
    fr = [n for n in ast.walk(fn) if isinstance(n, ast.Assign) and
          ast.unparse(n.value).replace(' ', '') in ('[1.0]', '[1.0,]')]
    okv = len(keep) == 1 and any(
        f'{VEC} is not None' in g or f'{VEC}isnotNone' in g
        for n in fr for g in au.guard_texts(n, fn))
    ctx.check('C16.G6.seasurface', 'widths of a provided vector are kept',
              okv, 'with a provided vector the existing widths are not kept '
              'unchanged (only cells appended, no squeezing factors): nodes '
              'of the vector are lost', ctx.where(mod, fn))
    # extra stretching allowance
    acc = [n for n in ast.walk(fn) if isinstance(n, ast.If) and
           'alph' in ast.unparse(n.test) and isinstance(n.test, ast.Compare)]
    am = [ast.unparse(n.value).replace(' ', '') for n in ast.walk(fn)
          if isinstance(n, ast.Assign) and f'{ST}[0]' in ast.unparse(n.value)
          and '*' in ast.unparse(n.value)]
    oka = sorted(am) == sorted([f'1.1*{ST}[0]', f'1.25*{ST}[0]']) and any(
        f'{ST}[1]' in ast.unparse(n.test) and 'min' in ast.unparse(n.test)
        for n in acc)
    ctx.check('C16.G6.seasurface', 'sea-surface cells: documented stretching '
              'allowance', oka, 'the cells between centre and sea surface '
              'are accepted with another limit than min(1.1 / 1.25 x '
              f'stretching[0], stretching[1]) (found {am})',
              ctx.where(mod, fn))


def rule_routing(ctx, mod):
    cm = mod.func('construct_mesh')
    ps = au.params(cm)
    cen, sea = ps[2], ps[5] if len(ps) > 5 else 'seasurface'
    dicts = {}
    for i, ax in enumerate('xyz'):
        f = find(f"_p_ = {{'center': {cen}[{i}]}}", cm) + find(
            f"_p_ = {{'center': {cen}[{i}], 'seasurface': _s_}}", cm)
        ctx.check('C16.G7.routing', f'centre of direction {ax}',
                  len(f) == 1, f'the {ax} parameters do not get '
                  f'center[{i}]', ctx.where(mod, cm))
        if f:
            dicts[ax] = (f[0][1]['_p_'], f[0][1].get('_s_'))
    if len(dicts) == 3:
        ctx.check('C16.G7.routing', 'sea surface only in z',
                  dicts['x'][1] is None and dicts['y'][1] is None and
                  dicts['z'][1] is not None, 'seasurface is not routed to '
                  'the z direction only', ctx.where(mod, cm))
        calls = au.calls(cm, 'origin_and_widths')
        res = {}
        for c in calls:
            st = au.enclosing_stmt(c)
            kws = [ast.unparse(k.value) for k in c.keywords if k.arg is None]
            for ax in 'xyz':
                if dicts[ax][0] in kws and isinstance(st, ast.Assign):
                    res[ax] = [e.id for e in st.targets[0].elts[:2]]
        tm = [c for c in au.calls(cm) if ast.unparse(c.func) == 'TensorMesh']
        ok = len(res) == 3 and len(tm) == 1
        if ok:
            kw = {k.arg: ast.unparse(k.value).replace(' ', '')
                  for k in tm[0].keywords}
            ok = kw.get('h') == f"[{res['x'][1]},{res['y'][1]},{res['z'][1]}]" \
                and kw.get('origin') in (
                    f"np.array([{res['x'][0]},{res['y'][0]},{res['z'][0]}])",
                    f"[{res['x'][0]},{res['y'][0]},{res['z'][0]}]",
                    f"({res['x'][0]},{res['y'][0]},{res['z'][0]})")
        ctx.check('C16.G7.routing', 'mesh from the three directions in '
                  'order', ok, 'TensorMesh is not built from (hx, hy, hz) '
                  'and (x0, y0, z0) of the x, y and z searches',
                  ctx.where(mod, cm))
    # options given per direction as a dictionary are routed by their KEYS
    routed = find(f"_put_in_dicts([{dicts['x'][0]}, {dicts['y'][0]}, "
                  f"{dicts['z'][0]}], (_v_['x'], _v_['y'], _v_['z']), _n_)",
                  cm) if len(dicts) == 3 else []
    okd = len(routed) >= 2 and all(any(
        g.startswith('isinstance(') and g.endswith(',dict)')
        for g in au.guard_texts(n_, cm)) for n_, _b in routed)
    pos = [c for c in ast.walk(cm) if isinstance(c, ast.Call) and isinstance(
        c.func, ast.Attribute) and c.func.attr in ('values', 'items') and
        not c.args]
    ctx.check('C16.G7.routing', "per-direction dictionaries are read by "
              "their keys 'x', 'y', 'z'", okd and not pos,
              "a dictionary {'x': .., 'y': .., 'z': ..} of domain / vector / "
              'distance / stretching / ... is not split as value[\'x\'], '
              "value['y'], value['z'] (it is read in insertion order): keys "
              'given in another order send the options of one direction to '
              'another', ctx.where(mod, pos[0] if pos else cm))
    hp = [n for n in ast.walk(cm) if isinstance(n, ast.FunctionDef) and
          n is not cm]
    okh = len(hp) == 1 and has(
        'for _i_, _d_ in enumerate(_ds_):\n'
        '    if _v_[_i_] is not None:\n'
        '        _d_[_n_] = _v_[_i_]', hp[0])
    ctx.check('C16.G7.routing', 'positional hand-over to the x, y, z '
              'parameter sets', okh, 'the helper does not give the i-th '
              'value to the i-th parameter set', ctx.where(mod, cm))
    # properties per direction
    table = {3: (['0', '2', '2'], ['0', '2', '2'], ['0', '1', '2']),
             4: (['0', '1', '1'], ['0', '1', '1'], ['0', '2', '3']),
             7: (['0', '1', '2'], ['0', '3', '4'], ['0', '5', '6'])}
    P = ps[1]
    for n, rows in table.items():
        okn = True
        for ax, row in zip('xyz', rows):
            if ax not in dicts:
                okn = False
                continue
            want = '[' + ', '.join(f'{P}[{i}]' for i in row) + ']'
            hits = [m_ for m_, _b in find(
                f"{dicts[ax][0]}['properties'] = {want}", cm)
                if any(f'len({P})=={n}' in g for g in au.guard_texts(m_, cm))]
            okn = okn and len(hits) == 1
        ctx.check('C16.G7.routing', f'{n} properties: centre / negative / '
                  'positive side per direction', okn, f'with {n} properties '
                  'the directions do not get (centre, lower, upper) as '
                  'documented', ctx.where(mod, cm))


def rule_numbers(ctx, mod):
    fn = mod.func('good_mg_cell_nr')
    ps = au.params(fn)
    ok = has(f'_l_ = _l_[_l_ <= {ps[1]}]', fn) and has(
        f'_l_[:, None] * 2 ** np.arange({ps[2]}, __)', fn) and any(
        same(f'_n_[_n_ <= {ps[0]}]', r.value) is not None
        for r in ast.walk(fn) if isinstance(r, ast.Return))
    lows = find('_l_ = np.array(_v_, dtype=__)', fn)
    try:
        lo = ast.literal_eval(lows[0][1]['_v_']) if lows else []
    except Exception:
        lo = []
    ok = ok and lo and lo[0] == 2 and all(x % 2 == 1 for x in lo[1:])
    ctx.check('C16.G8.numbers', 'good_mg_cell_nr: p * 2**n, p = 2 or odd, '
              'p <= max_lowest, n >= min_div, <= max_nr', ok,
              'the permitted cell numbers are not {p 2^n} with the '
              'documented restrictions', ctx.where(mod, fn))
    ow = mod.func('origin_and_widths')
    V, CEN = au.params(ow)[4], au.params(ow)[2]
    dm = find('_d_ = cell_width(__, __, __)', ow)
    ctx.anchor(len(dm) == 1, 'minimum width in origin_and_widths')
    DM = dm[0][1]['_d_']
    okc = has(f'{V} = np.r_[{CEN} - {DM}, {CEN}, {CEN} + {DM}]', ow)
    okm = has(f'_e_ = np.r_[{CEN} - {DM} / 2, {CEN} + {DM} / 2]', ow)
    ctx.check('C16.G8.centre', 'centre on a node (center_on_edge)', okc,
              'with center_on_edge the centre part is not [c - d, c, c + d]',
              ctx.where(mod, ow))
    ctx.check('C16.G8.centre', 'centre at a cell centre', okm,
              'without center_on_edge the centre cell is not [c - d/2, '
              'c + d/2]', ctx.where(mod, ow))
    okv = has(f'_w_ = np.diff({V})', ow) and has(
        f'_e_ = np.r_[{V}[0], {V}[-1]]', ow)
    ctx.check('C16.G8.centre', 'a provided vector is the centre part', okv,
              'the nodes of a provided vector are not taken over as the '
              'centre part (widths = diff(vector), edges = its ends)',
              ctx.where(mod, ow))
    drop = [n for n in ast.walk(ow) if isinstance(n, ast.If) and any(
        same(f'{V} = None', st) is not None for st in n.body)]
    from ..core.canon import ct as _ct
    okdrop = len(drop) == 1 and ast.unparse(drop[0].test).replace(
        ' ', '') in (_ct(f'len({V}) < 3'), _ct(f'len({V}) <= 2'),
                     _ct(f'{V}.size < 3'), _ct(f'{V}.size <= 2'))
    ctx.check('C16.G8.centre', 'a vector is dropped only with fewer than '
              'three nodes in the domain', okdrop,
              f'the provided vector is set to None under '
              f'`{ast.unparse(drop[0].test) if drop else "?"}`: a vector '
              'with two cells in the domain is silently dropped and its '
              'nodes are not nodes of the mesh', ctx.where(
                  mod, drop[0] if drop else ow))
    cut = has(f'{V} = {V}[_a_[-1]:]', ow) and has(f'{V} = {V}[:_b_[1]]', ow)
    ctx.check('C16.G8.centre', 'vector cut to the domain keeps the nodes '
              'inside', cut, 'the provided vector is not cut at the last '
              'node <= domain[0] / the first node >= domain[1]: nodes '
              'inside the domain are dropped', ctx.where(mod, ow))


# --------------------------------------------------------------------------
# G9: the survey domain itself (origin_and_widths and estimate_gridding_opts)
# --------------------------------------------------------------------------
class _NoVec(Exception):
    pass


def _vec(node, env):
    """Evaluate an expression to a sympy scalar or a list of two scalars
    (numpy broadcasting of + - * / abs over lists built by np.array / lists
    / np.r_); names come from env."""
    def bc(a, b, f):
        if isinstance(a, list) and isinstance(b, list):
            if len(a) != len(b):
                raise _NoVec('shapes')
            return [f(x, y) for x, y in zip(a, b)]
        if isinstance(a, list):
            return [f(x, b) for x in a]
        if isinstance(b, list):
            return [f(a, y) for y in b]
        return f(a, b)
    if isinstance(node, ast.Constant) and isinstance(
            node.value, (int, float)) and not isinstance(node.value, bool):
        return sp.nsimplify(node.value)
    if isinstance(node, ast.Name):
        if node.id in env:
            return env[node.id]
        raise _NoVec(node.id)
    if isinstance(node, (ast.List, ast.Tuple)):
        out = [_vec(e, env) for e in node.elts]
        if any(isinstance(o, list) for o in out):
            raise _NoVec('nested')
        return out
    if isinstance(node, ast.UnaryOp) and isinstance(
            node.op, (ast.USub, ast.UAdd)):
        v = _vec(node.operand, env)
        if isinstance(node.op, ast.UAdd):
            return v
        return [-x for x in v] if isinstance(v, list) else -v
    if isinstance(node, ast.BinOp):
        ops = {ast.Add: lambda x, y: x + y, ast.Sub: lambda x, y: x - y,
               ast.Mult: lambda x, y: x * y, ast.Div: lambda x, y: x / y}
        if type(node.op) not in ops:
            raise _NoVec('op')
        return bc(_vec(node.left, env), _vec(node.right, env),
                  ops[type(node.op)])
    if isinstance(node, ast.Subscript):
        v = _vec(node.value, env)
        sl = node.slice
        if isinstance(sl, ast.UnaryOp) and isinstance(sl.op, ast.USub) and \
                isinstance(sl.operand, ast.Constant):
            idx = -sl.operand.value
        elif isinstance(sl, ast.Constant) and isinstance(sl.value, int):
            idx = sl.value
        else:
            raise _NoVec('slice')
        if not isinstance(v, list) or not -len(v) <= idx < len(v):
            raise _NoVec('index')
        return v[idx]
    if isinstance(node, ast.Call):
        f = ast.unparse(node.func)
        a = [_vec(x, env) for x in node.args]
        if f in ('abs', 'np.abs', 'np.absolute', 'np.fabs') and len(a) == 1:
            return [sp.Abs(x) for x in a[0]] if isinstance(a[0], list) \
                else sp.Abs(a[0])
        if f in ('np.array', 'np.asarray', 'np.atleast_1d', 'float',
                 'np.float64', 'list', 'tuple', 'np.asarray_chkfinite') \
                and len(a) == 1:
            return a[0]
        if f == 'np.r_':
            raise _NoVec('call')
        if f in ('np.negative',) and len(a) == 1:
            return [-x for x in a[0]] if isinstance(a[0], list) else -a[0]
        raise _NoVec(f)
    if isinstance(node, ast.Subscript) or isinstance(node, ast.Attribute):
        raise _NoVec('attr')
    raise _NoVec(type(node).__name__)


def _float_array(node):
    """Is the array expression float whatever the types of its inputs?
    (explicit float dtype, .astype(float), or numpy promotion with an array
    / scalar of float literals)."""
    FL = ('float', 'np.float64', 'np.float_', "'float'", "'float64'",
          "'f8'", 'np.double')
    if isinstance(node, ast.Call):
        f = ast.unparse(node.func)
        for kw in node.keywords:
            if kw.arg == 'dtype':
                return ast.unparse(kw.value) in FL
        if isinstance(node.func, ast.Attribute) and \
                node.func.attr == 'astype' and node.args:
            return ast.unparse(node.args[0]) in FL
        if f in ('np.array', 'np.asarray') and len(node.args) == 2:
            return ast.unparse(node.args[1]) in FL
        if f in ('np.array', 'np.asarray', 'np.r_') and node.args and \
                isinstance(node.args[0], (ast.List, ast.Tuple)):
            return any(_float_array(e) for e in node.args[0].elts)
        return False
    if isinstance(node, ast.Constant):
        return isinstance(node.value, float)
    if isinstance(node, ast.UnaryOp):
        return _float_array(node.operand)
    if isinstance(node, ast.BinOp):
        if isinstance(node.op, ast.Div):
            return True
        return _float_array(node.left) or _float_array(node.right)
    return False


def rule_survey_domain(ctx, mod, fn, D):
    """The survey domain of one direction: given > distance > vector, and the
    distance form is sign-agnostic [centre - |d0|, centre + |d1|]."""
    where = ctx.where(mod, fn)
    ps = au.all_params(fn)
    dp = find("_x_ = kwargs.pop('distance', None)", fn)
    ctx.anchor(len(dp) == 1 and 'vector' in ps and D in ps,
               'origin_and_widths(domain, distance, vector)')
    DI = dp[0][1]['_x_']
    cen = au.params(fn)[2]
    arms = {}
    for n in au.walk_local(fn):
        if isinstance(n, ast.Assign) and len(n.targets) == 1 and \
                ast.unparse(n.targets[0]) == D:
            g = au.guard_texts(n, fn)
            pos = [x for x in g if x.endswith('isnotNone')]
            if pos and pos[-1] == f'{DI}isnotNone':
                arms.setdefault('distance', []).append((n, g))
            elif pos and pos[-1] == 'vectorisnotNone':
                arms.setdefault('vector', []).append((n, g))
            elif pos and pos[-1] == f'{D}isnotNone':
                arms.setdefault('domain', []).append((n, g))
    ctx.anchor(all(len(arms.get(k, [])) == 1 for k in
                   ('distance', 'vector', 'domain')),
               'the three definitions of the survey domain')
    n, g = arms['distance'][0]
    c, d0, d1 = sp.symbols('c d0 d1', real=True)
    ok = f'{D}isNone' in g
    got = None
    if ok:
        try:
            try:
                got = _vec(n.value, {cen: c, DI: [d0, d1]})
            except _NoVec:
                got = _vec(au.value_of(n.value, fn), {cen: c, DI: [d0, d1]})
        except _NoVec as e:
            got = f'not evaluated ({e})'
        ok = isinstance(got, list) and len(got) == 2 and \
            sp.simplify(got[0] - (c - sp.Abs(d0))) == 0 and \
            sp.simplify(got[1] - (c + sp.Abs(d1))) == 0
    ctx.check('C16.G9.survey_domain', 'survey domain from distance = [centre '
              '- |d0|, centre + |d1|]', ok, 'the survey domain derived from '
              f'`distance` is {got} and not [centre - |distance[0]|, centre '
              '+ |distance[1]|] for distances of either sign, or it is not '
              'only used when no domain is given: the mesh covers another '
              'region than the requested one', ctx.where(mod, n))
    n, g = arms['vector'][0]
    okv = f'{D}isNone' in g and f'{DI}isNone' in g
    txt = ast.unparse(n.value).replace(' ', '')
    lo = ('vector.min()', 'np.min(vector)', 'min(vector)', 'vector[0]',
          'np.amin(vector)')
    hi = ('vector.max()', 'np.max(vector)', 'max(vector)', 'vector[-1]',
          'np.amax(vector)')
    okv = okv and any(f'[{a},{b}]' in txt for a in lo for b in hi)
    ctx.check('C16.G9.survey_domain', 'survey domain from vector = [min, '
              'max] of the vector', okv, 'without domain and distance the '
              'survey domain is not [vector.min(), vector.max()] '
              '(or the vector takes precedence over domain / distance): '
              'nodes of the provided vector fall outside the survey domain '
              'and are cut, or the requested domain is ignored', ctx.where(mod, n))
    for k in ('domain', 'distance', 'vector'):
        n = arms[k][0][0]
        ctx.check('C16.G9.survey_domain', f'survey domain from {k} is a '
                  'float array', _float_array(n.value), 'the survey domain '
                  f'built from `{k}` takes the integer type of its inputs: '
                  'the expansion to a fractional sea surface `domain[1] = '
                  'max(domain[1], seasurface)` is truncated and the mesh '
                  'falls short of survey domain + buffer (F40)',
                  ctx.where(mod, n))
    n, g = arms['domain'][0]
    txt = ast.unparse(n.value).replace(' ', '')
    okd = txt.startswith(('np.array(' + D, 'np.asarray(' + D,
                          'np.asarray_chkfinite(' + D)) and (
        'dtype=np.float64' in txt or 'dtype=float' in txt
        or "dtype='float" in txt or 'dtype=np.float_' in txt)
    ctx.check('C16.G9.survey_domain', 'a given domain is used as it is (as '
              'float array)', okd, 'a provided domain is not taken over '
              'unchanged as a float array (an integer array truncates the '
              'sea-surface expansion)', ctx.where(mod, n))


def _iter_binding(call_node, name, fn):
    """The iterable a name is bound by in an enclosing for / comprehension
    of call_node (text; a name bound once is resolved, list()/tuple() around
    it dropped), or None."""
    def txt(it):
        for _ in range(3):
            if isinstance(it, ast.Name):
                v = au.value_of(it, fn)
                if v is it:
                    break
                it = v
            elif isinstance(it, ast.Call) and ast.unparse(it.func) in (
                    'list', 'tuple') and len(it.args) == 1:
                it = it.args[0]
            else:
                break
        return ast.unparse(it).replace(' ', '')
    for a in au.ancestors(call_node, fn):
        if isinstance(a, (ast.ListComp, ast.GeneratorExp, ast.SetComp)):
            for gen in a.generators:
                if any(isinstance(t, ast.Name) and t.id == name
                       for t in ast.walk(gen.target)):
                    return txt(gen.iter), gen.target
        if isinstance(a, ast.For):
            if any(isinstance(t, ast.Name) and t.id == name
                   for t in ast.walk(a.target)):
                return txt(a.iter), a.target
    return None, None


def rule_estimate(ctx, mod):
    """estimate_gridding_opts: the default survey domain contains every
    source and every receiver FOR every source (relative receivers), plus
    10 %; a given distance is sign-agnostic."""
    fn = mod.func('estimate_gridding_opts')
    where = ctx.where(mod, fn)
    sv = au.params(fn)[2]
    inner = [n for n in ast.walk(fn) if isinstance(n, ast.FunctionDef)
             and n is not fn]
    calls = [n for n in ast.walk(fn) if isinstance(n, ast.Call) and
             isinstance(n.func, ast.Attribute) and
             n.func.attr == 'center_abs']
    ctx.anchor(len(calls) >= 1, 'receiver positions (center_abs) in '
               'estimate_gridding_opts')
    for cnode in calls:
        host = au.enclosing(cnode, (ast.FunctionDef,)) or fn
        ok = len(cnode.args) == 1 and isinstance(cnode.args[0], ast.Name) \
            and isinstance(cnode.func.value, ast.Name)
        why = 'is not called as receiver.center_abs(source)'
        if ok:
            sit, stgt = _iter_binding(cnode, cnode.args[0].id, host)
            rit, rtgt = _iter_binding(cnode, cnode.func.value.id, host)
            src_ok = sit in (f'{sv}.sources.values()',) and isinstance(
                stgt, ast.Name)
            if sit is None:
                # a name bound once to the iterable and looped over
                pass
            rec_ok = rit in (f'{sv}.receivers.values()',) and isinstance(
                rtgt, ast.Name)
            ok = src_ok and rec_ok
            why = (f'the source `{cnode.args[0].id}` ranges over '
                   f'{sit or "no loop at all"} and the receiver over '
                   f'{rit or "no loop at all"}')
        ctx.check('C16.G9.survey_default', 'default domain: every receiver '
                  'for EVERY source', ok, 'the receiver positions the '
                  f'default survey domain is made of: {why}; expected every '
                  f'receiver of {sv}.receivers for every source of '
                  f'{sv}.sources (relative receivers move with the source): '
                  'the domain, and the mesh built from it, need not contain '
                  'all receivers', ctx.where(mod, cnode))
    # sources' centres and the 10 % rim
    host = au.enclosing(calls[0], (ast.FunctionDef,)) or fn
    rim = find('_d_ = [min(_i_) - _f_ / 10, max(_i_) + _f_ / 10]', host)
    okr = len(rim) == 1
    if okr:
        I_, F_ = rim[0][1]['_i_'], rim[0][1]['_f_']
        okr = has(f'{F_} = np.diff([min({I_}), max({I_})])[0]', host) or (
            len(find(f'_x_ = [min({I_}), max({I_})]', host)) >= 1 and any(
                has(f'{F_} = np.diff({m[1]["_x_"]})[0]', host)
                for m in find(f'_x_ = [min({I_}), max({I_})]', host)))
        srcs = [n for n in ast.walk(host) if isinstance(n, ast.Attribute)
                and n.attr == 'center' and isinstance(n.value, ast.Name) and
                _iter_binding(n, n.value.id, host)[0] ==
                f'{sv}.sources.values()']
        okr = okr and len(srcs) >= 1
    ctx.check('C16.G9.survey_default', 'default domain = [min, max] of all '
              'positions -/+ 10 %', okr, 'the default survey domain is not '
              'the range of all source centres and receiver positions '
              'widened by a tenth of it on both sides', ctx.where(mod, host))
    # distance sign-agnostic
    dd = [n for n in ast.walk(host) if isinstance(n, ast.Assign) and
          'distance[' in ast.unparse(n.value)]
    okd = len(dd) == 1
    if okd:
        a, b = sp.symbols('a b', real=True)

        class _D(dict):
            pass
        try:
            txt = ast.unparse(dd[0].value)
            val = ast.parse(txt.replace('distance[i]', 'dist'),
                            mode='eval').body
            got = _vec(val, {'dist': [a, b]})
            okd = not isinstance(got, list) and sp.simplify(
                got - sp.Abs(a) - sp.Abs(b)) == 0
        except (_NoVec, SyntaxError):
            okd = False
    ctx.check('C16.G9.survey_default', 'extent of a given distance = |d0| + '
              '|d1|', okd, 'the extent derived from a given `distance` is '
              'not |distance[0]| + |distance[1]| (distances are '
              'sign-agnostic)', ctx.where(mod, dd[0] if dd else host))


def run(ctx):
    ctx.explanation = (
        '_stretch is interpreted abstractly over array LENGTHS and prefix '
        'sums on all if/else paths (count of returned cells, make-up of the '
        'returned widths, returned edges, success guard); the search of '
        'origin_and_widths, the failure paths, the buffer / skin-depth '
        'formulas, the sea-surface warning and the per-direction routing of '
        'construct_mesh are read off the AST / CFG.  The numeric outcome of '
        'the search is not decided.')
    ctx.assumptions = ['np.r_ concatenates, a[:k] has k entries for k <= '
                       'len(a), np.sum of a comparison counts its true '
                       'entries', 'numeric post-conditions of the search '
                       '(brentq, candidate enumeration) are not decided']
    mod = ctx.repo.mod(MESH)
    rule_stretch(ctx, mod)
    fn, D, CD = rule_search(ctx, mod)
    rule_domain(ctx, mod, fn, D, CD)
    rule_survey_domain(ctx, mod, fn, D)
    rule_estimate(ctx, mod)
    rule_seasurface(ctx, mod)
    rule_routing(ctx, mod)
    rule_numbers(ctx, mod)
