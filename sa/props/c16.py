"""C16 - automatic gridding meets its post-conditions or fails loudly.

Partial claim: the numeric post-conditions of the search are not decided.
What is decided are structural clauses each of which is a NECESSARY condition
of a post-condition (DESIGN.md 4/C16):

  G1  `_stretch` (abstract interpretation over array LENGTHS and prefix sums,
      all if/else paths): the returned widths have exactly nx - remain
      entries (nx with use_up) -> "one of the permitted cell counts"; the
      provided centre widths sit unchanged in the middle, the left / right
      extension is a prefix of the widths stretched from the first / last
      centre cell, and the returned edges are the given edges moved by
      exactly the sums of those prefixes -> "nodes of a provided vector are
      nodes of the mesh", "centre on a node / cell centre"
  G2  `_stretch` reports success only if the extent reaches both ends of the
      domain it was given and no more than nx cells were used; failure is the
      sentinel the callers test
  G3  `origin_and_widths`: cell numbers tried are the permitted ones, both
      `_stretch` calls get that number, stretching factors are drawn from
      [1, stretching[0]] and [sa, stretching[1]], the first call fills the
      survey domain, the second the computation domain; origin and widths
      returned are those of the successful second call
  G4  no mesh -> error (here, or - for the three directions - in
      construct_mesh)
  G5  computation domain = survey domain + wavelength buffer capped by
      max_buffer; skin depth / wavelength / minimum width formulas
  G6  `_seasurface`: the warning test is on every path to the return and is
      made on the nodes of the returned edges / widths; a provided vector is
      kept; the extra stretching allowance is the documented one
  G7  construct_mesh: per-direction routing of centre, sea surface,
      properties and results
  G8  good_mg_cell_nr / vector cut / centre part
"""
import ast
import itertools

import sympy as sp

from ..core import astutil as au
from ..core.cfg import CFG
from ..core.report import AnalysisError
from ..core.template import find, has, same
from ..expr.lift import Lifter, equal

LEVEL = 'other'
MESH = 'emg3d/meshes.py'


# --------------------------------------------------------------------------
# abstract values for the length interpreter
# --------------------------------------------------------------------------
class Arr:
    """Array known by its length and by what it is made of: `parts` is a
    tuple of (tag, mode, count), mode in all / prefix / revprefix."""

    def __init__(self, n, parts):
        self.n, self.parts = n, tuple(parts)

    def __repr__(self):
        return f'Arr({self.n}, {self.parts})'


class BoolArr:
    pass


class Cmp:
    """`e <= 0` (strict False) or `e < 0` (strict True), e a sympy expr."""

    def __init__(self, e, strict):
        self.e, self.strict = sp.simplify(e), strict

    def neg(self):
        return Cmp(-self.e, not self.strict)

    def key(self):
        return (sp.srepr(sp.expand(self.e)), self.strict)


class And:
    def __init__(self, items):
        self.items = items


class Opaque:
    def __init__(self, text):
        self.text = text


S = sp.Function('S')          # S(tag, n): sum of the first n entries of tag


class LenInterp:
    """Path-wise abstract interpretation of a small numpy function over
    integer / real scalars (sympy) and arrays known by length and make-up."""

    def __init__(self, fn, binding, where):
        self.fn, self.where = fn, where
        self.binding = binding
        self.fresh = itertools.count()
        self.tags = {}

    def err(self, n, msg):
        return AnalysisError(f'{self.where}:{getattr(n, "lineno", "?")}: '
                             f'length interpreter: {msg}: '
                             f'`{ast.unparse(n)[:70]}`')

    def tagsym(self, tag):
        if tag not in self.tags:
            self.tags[tag] = sp.Symbol(f'T{len(self.tags)}')
        return self.tags[tag]

    def count(self):
        return sp.Symbol(f'c{next(self.fresh)}', integer=True, nonnegative=True)

    # -- expressions -------------------------------------------------------
    def ev(self, n, env, conds):
        if isinstance(n, ast.Constant):
            v = n.value
            if isinstance(v, bool) or v is None:
                return v
            if isinstance(v, (int, float)):
                return sp.nsimplify(v, rational=True)
            raise self.err(n, 'constant')
        if isinstance(n, ast.Name):
            if n.id in env:
                return env[n.id]
            raise self.err(n, 'unknown name')
        if isinstance(n, (ast.List, ast.Tuple)):
            return [self.ev(e, env, conds) for e in n.elts]
        if isinstance(n, ast.Attribute):
            v = self.ev(n.value, env, conds)
            if n.attr == 'size' and isinstance(v, Arr):
                return v.n
            raise self.err(n, 'attribute')
        if isinstance(n, ast.UnaryOp):
            v = self.ev(n.operand, env, conds)
            if isinstance(n.op, ast.USub) and isinstance(v, sp.Expr):
                return -v
            if isinstance(n.op, ast.Not):
                if isinstance(v, bool):
                    return not v
                if isinstance(v, Cmp):
                    return v.neg()
                return Opaque(ast.unparse(n))
            raise self.err(n, 'unary operator')
        if isinstance(n, ast.Subscript):
            return self.subscript(n, env, conds)
        if isinstance(n, ast.BinOp):
            return self.binop(n, env, conds)
        if isinstance(n, ast.Compare):
            return self.compare(n, env, conds)
        if isinstance(n, ast.BoolOp):
            vs = [self.ev(v, env, conds) for v in n.values]
            if isinstance(n.op, ast.And):
                if any(v is False for v in vs):
                    return False
                vs = [v for v in vs if v is not True]
                if not vs:
                    return True
                flat = []
                for v in vs:
                    flat.extend(v.items if isinstance(v, And) else [v])
                return And(flat)
            return Opaque(ast.unparse(n))
        if isinstance(n, ast.Call):
            return self.call(n, env, conds)
        if isinstance(n, ast.IfExp):
            t = self.ev(n.test, env, conds)
            if isinstance(t, bool):
                return self.ev(n.body if t else n.orelse, env, conds)
            raise self.err(n, 'conditional expression on a non-constant')
        raise self.err(n, f'expression kind {type(n).__name__}')

    def subscript(self, n, env, conds):
        if ast.unparse(n.value) == 'np.r_':
            elts = n.slice.elts if isinstance(n.slice, ast.Tuple) else \
                [n.slice]
            tot, parts = sp.Integer(0), []
            for e in elts:
                v = self.ev(e, env, conds)
                if isinstance(v, Arr):
                    tot += v.n
                    parts.extend(v.parts)
                elif isinstance(v, sp.Expr):
                    tot += 1
                    parts.append((('scalar', sp.srepr(v)), 'all', 1))
                else:
                    raise self.err(e, 'np.r_ element')
            return Arr(tot, parts)
        v = self.ev(n.value, env, conds)
        sl = n.slice
        if isinstance(v, list):
            i = self.ev(sl, env, conds)
            if isinstance(i, sp.Integer) and -len(v) <= int(i) < len(v):
                return v[int(i)]
            raise self.err(n, 'list index')
        if isinstance(v, Arr):
            if isinstance(sl, ast.Slice):
                lo = None if sl.lower is None else self.ev(sl.lower, env,
                                                           conds)
                up = None if sl.upper is None else self.ev(sl.upper, env,
                                                           conds)
                st = None if sl.step is None else self.ev(sl.step, env,
                                                          conds)
                if lo is None and st is None and isinstance(up, sp.Expr) \
                        and len(v.parts) == 1 and v.parts[0][1] == 'all':
                    self.slices.append((up, v.n, n))
                    return Arr(up, [(v.parts[0][0], 'prefix', up)])
                if lo is None and up is None and st == -1 and \
                        len(v.parts) == 1:
                    t, m, c = v.parts[0]
                    flip = {'prefix': 'revprefix', 'revprefix': 'prefix',
                            'all': 'revall', 'revall': 'all'}
                    return Arr(v.n, [(t, flip[m], c)])
                raise self.err(n, 'slice form')
            i = self.ev(sl, env, conds)
            if i == 0 or i == -1:
                if len(v.parts) == 1 and v.parts[0][1] == 'all':
                    nm = v.parts[0][0]
                    return sp.Symbol(f'{nm}_{"first" if i == 0 else "last"}',
                                     positive=True)
            raise self.err(n, 'array index')
        raise self.err(n, 'subscript')

    def binop(self, n, env, conds):
        a = self.ev(n.left, env, conds)
        b = self.ev(n.right, env, conds)
        op = n.op
        if isinstance(a, sp.Expr) and isinstance(b, sp.Expr):
            if isinstance(op, ast.Add):
                return a + b
            if isinstance(op, ast.Sub):
                return a - b
            if isinstance(op, ast.Mult):
                return a * b
            if isinstance(op, ast.Div):
                return a / b
            if isinstance(op, ast.FloorDiv):
                return sp.floor(a / b)
            if isinstance(op, ast.Pow):
                return a ** b
            raise self.err(n, 'operator')
        if isinstance(op, ast.Pow) and isinstance(a, sp.Expr) and \
                isinstance(b, Arr) and len(b.parts) == 1 and \
                b.parts[0][0][0] == 'arange':
            return Arr(b.n, [(('geom', sp.srepr(a), b.parts[0][0][1]), 'all',
                              b.n)])
        if isinstance(op, ast.Mult):
            if isinstance(a, Arr) and isinstance(b, sp.Expr):
                a, b = b, a
            if isinstance(a, sp.Expr) and isinstance(b, Arr) and \
                    len(b.parts) == 1 and b.parts[0][1] == 'all':
                return Arr(b.n, [(('scaled', str(a), b.parts[0][0]), 'all',
                                  b.n)])
            if isinstance(a, Arr) and isinstance(b, Arr):
                # broadcasting of the one-entry centre part
                for x, y in ((a, b), (b, a)):
                    if x.parts == self.single.parts and self.is_single(conds) \
                            and len(y.parts) == 1 and y.parts[0][1] == 'all':
                        return Arr(y.n, [(('scaled', 'w_single',
                                           y.parts[0][0]), 'all', y.n)])
        if isinstance(op, (ast.Add, ast.Sub)) and (
                isinstance(a, Arr) or isinstance(b, Arr)):
            arr = a if isinstance(a, Arr) else b
            return Arr(arr.n, [(('shifted', next(self.fresh)), 'all', arr.n)])
        raise self.err(n, 'operands')

    def is_single(self, conds):
        """Is `widths.size > 1` false on this path?"""
        for c, pol in conds:
            if isinstance(c, Cmp) and not pol and \
                    c.key() == Cmp(1 - self.single.n, True).key():
                return True
            if isinstance(c, Cmp) and pol and \
                    c.key() == Cmp(self.single.n - 1, False).key():
                return True
        return False

    def compare(self, n, env, conds):
        if len(n.ops) != 1:
            raise self.err(n, 'chained comparison')
        a = self.ev(n.left, env, conds)
        b = self.ev(n.comparators[0], env, conds)
        op = n.ops[0]
        if isinstance(a, Arr) or isinstance(b, Arr):
            return BoolArr()
        if isinstance(op, (ast.Is, ast.IsNot)):
            if (a is False or a is None or a is True) and isinstance(
                    b, sp.Expr) or (b is False or b is None) and \
                    isinstance(a, sp.Expr):
                return isinstance(op, ast.IsNot)
            if (a is False or a is None or a is True) and (
                    b is False or b is None or b is True):
                return (a is b) == isinstance(op, ast.Is)
            raise self.err(n, 'identity test')
        if isinstance(a, sp.Expr) and isinstance(b, sp.Expr):
            if isinstance(op, ast.LtE):
                return Cmp(a - b, False)
            if isinstance(op, ast.Lt):
                return Cmp(a - b, True)
            if isinstance(op, ast.GtE):
                return Cmp(b - a, False)
            if isinstance(op, ast.Gt):
                return Cmp(b - a, True)
            if isinstance(op, (ast.Eq, ast.NotEq)):
                return Opaque(ast.unparse(n))
        raise self.err(n, 'comparison')

    def call(self, n, env, conds):
        f = ast.unparse(n.func)
        args = [self.ev(a, env, conds) for a in n.args]
        if f == 'np.arange' and all(isinstance(a, sp.Expr) for a in args):
            lo, hi = (sp.Integer(0), args[0]) if len(args) == 1 else args[:2]
            if len(args) <= 2:
                return Arr(hi - lo, [(('arange', sp.srepr(lo)), 'all',
                                      hi - lo)])
        if f in ('np.cumsum',) and len(args) == 1 and isinstance(args[0], Arr):
            return Arr(args[0].n, [(('cumsum', next(self.fresh)), 'all',
                                    args[0].n)])
        if f in ('np.sum', 'sum') and len(args) == 1:
            v = args[0]
            if isinstance(v, BoolArr):
                return self.count()
            if isinstance(v, Arr) and len(v.parts) == 1 and v.parts[0][1] in (
                    'prefix', 'revprefix'):
                if v.parts[0][2] == 0:
                    return sp.Integer(0)
                return S(self.tagsym(v.parts[0][0]), v.parts[0][2])
        if f in ('int', 'float', 'np.float64') and len(args) == 1 and \
                isinstance(args[0], sp.Expr):
            return args[0]
        if f in ('np.floor', 'math.floor') and len(args) == 1 and \
                isinstance(args[0], sp.Expr):
            return sp.floor(args[0])
        if f in ('np.ceil', 'math.ceil') and len(args) == 1 and \
                isinstance(args[0], sp.Expr):
            return sp.ceiling(args[0])
        if f == 'len' and len(args) == 1 and isinstance(args[0], Arr):
            return args[0].n
        if f in ('np.array', 'np.asarray', 'list') and len(args) == 1 and \
                isinstance(args[0], (list, Arr)):
            return args[0]
        if f in ('max', 'min') and len(args) == 2 and all(
                isinstance(a, sp.Expr) for a in args):
            return (sp.Max if f == 'max' else sp.Min)(*args)
        raise self.err(n, 'call')

    # -- statements ----------------------------------------------------------
    def run(self, env):
        """All paths: list of (conds, returned value)."""
        self.slices = []
        out = []
        self.block(au.body_nodoc(self.fn), dict(env), (), out)
        return out

    def block(self, stmts, env, conds, out):
        """Interpret; returns list of (env, conds) that fall through."""
        states = [(env, conds)]
        for st in stmts:
            nxt = []
            for env, conds in states:
                nxt.extend(self.stmt(st, env, conds, out))
            states = nxt
            if len(states) > 256:
                raise AnalysisError(f'{self.where}: too many paths')
        return states

    def stmt(self, st, env, conds, out):
        if isinstance(st, ast.Assign) and len(st.targets) == 1:
            v = self.ev(st.value, env, conds)
            env = dict(env)
            t = st.targets[0]
            if isinstance(t, ast.Name):
                env[t.id] = v
            elif isinstance(t, (ast.Tuple, ast.List)) and isinstance(
                    v, list) and len(v) == len(t.elts) and all(
                        isinstance(e, ast.Name) for e in t.elts):
                for e, x in zip(t.elts, v):
                    env[e.id] = x
            else:
                raise self.err(st, 'assignment target')
            return [(env, conds)]
        if isinstance(st, ast.AugAssign) and isinstance(st.target, ast.Name):
            v = self.ev(ast.BinOp(ast.Name(st.target.id, ast.Load()), st.op,
                                  st.value), env, conds)
            env = dict(env)
            env[st.target.id] = v
            return [(env, conds)]
        if isinstance(st, ast.If):
            t = self.ev(st.test, env, conds)
            if isinstance(t, bool):
                return self.block(st.body if t else st.orelse, env, conds,
                                  out)
            res = []
            res += self.block(st.body, env, conds + ((t, True),), out)
            res += self.block(st.orelse, env, conds + ((t, False),), out)
            return res
        if isinstance(st, ast.Return):
            out.append((conds, self.ev(st.value, env, conds)
                        if st.value is not None else None))
            return []
        if isinstance(st, (ast.Pass,)) or au.is_docstring(st):
            return [(env, conds)]
        raise self.err(st, 'statement kind')


def parity_zero(e):
    """Is the integer expression e identically 0?  floor / ceiling of halves
    are resolved by substituting every integer symbol by 2k and 2k+1."""
    e = sp.simplify(e)
    if e == 0:
        return True
    syms = sorted((s for s in e.free_symbols if s.is_integer),
                  key=lambda s: s.name)
    if len(syms) > 6:
        return False
    for par in itertools.product((0, 1), repeat=len(syms)):
        sub = {s: 2 * sp.Symbol(s.name + '_h', integer=True) + p
               for s, p in zip(syms, par)}
        if sp.simplify(e.subs(sub)) != 0:
            return False
    return True


def true_cmps(conds):
    """The comparisons (as `e <= 0` / `e < 0`) that hold on a path."""
    out = []
    for c, pol in conds:
        if isinstance(c, And):
            if pol:
                out += [i for i in c.items if isinstance(i, Cmp)]
        elif isinstance(c, Cmp):
            out.append(c if pol else c.neg())
    return out


def rule_stretch(ctx, mod):
    fn = mod.func('_stretch')
    ps = au.all_params(fn)
    ctx.anchor(len(ps) == 6, '_stretch(edges, widths, stretching, nx, domain,'
               ' use_up)')
    nx = sp.Symbol('nx', integer=True, positive=True)
    sz = sp.Symbol('sz', integer=True, positive=True)
    e0, e1, d0, d1 = sp.symbols('edges_0 edges_1 domain_0 domain_1',
                                real=True)
    alpha = sp.Symbol('alpha', positive=True)
    n_paths = n_ok = 0
    for use_up in (True, False):
        it = LenInterp(fn, None, MESH)
        it.single = Arr(sz, [('widths', 'all', sz)])
        env = {ps[0]: [e0, e1], ps[1]: it.single, ps[2]: alpha, ps[3]: nx,
               ps[4]: [d0, d1], ps[5]: use_up}
        paths = it.run(env)
        ctx.need(paths, '_stretch: no return path')
        for conds, ret in paths:
            n_paths += 1
            ctx.need(isinstance(ret, list) and len(ret) == 3,
                     '_stretch does not return (edges, widths, remain)')
            edges, widths, remain = ret
            tag = f'_stretch path {n_paths} (use_up={use_up})'
            if not isinstance(widths, Arr):
                ctx.check('C16.G2.failure', tag, remain is False and
                          widths is False, 'a path that returns no widths '
                          'does not return the sentinel `False` the callers '
                          'test (`remain is False`)', ctx.where(mod, fn))
                continue
            n_ok += 1
            where = ctx.where(mod, fn)
            ctx.check('C16.G2.failure', tag, isinstance(remain, sp.Expr),
                      'widths are returned together with the failure '
                      'sentinel', where)
            if not isinstance(remain, sp.Expr):
                continue
            # G1 count
            ctx.check('C16.G1.count', tag, parity_zero(widths.n + remain - nx),
                      f'the returned widths have {sp.simplify(widths.n)} '
                      f'entries and {remain} cells are reported as '
                      'remaining: together that is not the requested cell '
                      'number nx, so the mesh has a cell count that is not '
                      'one of the permitted numbers', where, sample={
                          'length': str(sp.simplify(widths.n)),
                          'remain': str(remain)}, obligation=True)
            if use_up:
                ctx.check('C16.G1.count', tag + ' uses all cells',
                          remain == 0, 'with use_up the remaining cells are '
                          f'reported as {remain}, not 0', where)
            # G1 make-up
            shape = [(p[1], ) for p in widths.parts]
            ok = len(widths.parts) == 3 and shape == [
                ('revprefix',), ('all',), ('prefix',)] and \
                widths.parts[1][0] == 'widths'
            ctx.check('C16.G1.centre', tag, ok, 'the returned widths are not '
                      '[left extension reversed, provided centre widths '
                      f'unchanged, right extension] but {widths.parts}: '
                      'nodes of a provided vector / the centre cell are not '
                      'kept', where)
            if not ok:
                continue
            (lt, _, ln), _, (rt, _, rn) = widths.parts

            def base(t):
                return (t[1] if t[0] == 'scaled' else None,
                        t[2] if t[0] == 'scaled' else None)
            lb, rb = base(lt), base(rt)
            okl = lb[0] in ('widths_first', 'w_single') and lb[1] and \
                lb[1][0] == 'geom'
            okr = rb[0] in ('widths_last', 'w_single') and rb[1] and \
                rb[1][0] == 'geom'
            ctx.check('C16.G1.centre', tag + ' extension widths', okl and okr,
                      'the left extension is not the FIRST provided width '
                      'times powers of the stretching factor, or the right '
                      f'one not the LAST ({lb[0]}, {rb[0]}): neighbouring '
                      'widths jump at the edge of the centre part', where)
            if okl and okr:
                expo = {lb[1][2], rb[1][2]}
                ctx.check('C16.G1.centre', tag + ' first exponent', expo == {
                    sp.srepr(sp.Integer(1))} and lb[1][1] == rb[1][1] ==
                    sp.srepr(alpha), 'the extension widths are not '
                    'w * stretching**k with k = 1, 2, ... on both sides',
                    where)
            # G1 origin
            want0 = e0 - (S(it.tagsym(lt), ln) if ln != 0 else 0)
            want1 = e1 + (S(it.tagsym(rt), rn) if rn != 0 else 0)
            ok = isinstance(edges, list) and len(edges) == 2 and all(
                isinstance(x, sp.Expr) for x in edges) and \
                sp.simplify(edges[0] - want0) == 0 and \
                sp.simplify(edges[1] - want1) == 0
            ctx.check('C16.G1.origin', tag, ok, 'the returned edges are not '
                      'the given edges moved outwards by the sums of the '
                      'extension widths that were added on that side '
                      f'(returned {edges}): origin and widths describe '
                      'different meshes, provided nodes are shifted', where,
                      sample={'edges': str(edges)}, obligation=True)
            # G2 guard: the comparisons that hold on this path
            tc = [c for c in true_cmps(conds) if not c.strict]
            # (a) no more than nx cells: nx - sz - <cells added> >= 0; with
            # use_up=False the tested number is the returned `remain`
            def cells_test(c):
                r = sp.simplify(-c.e - nx + sz)      # = -(cells added)
                return not (r.free_symbols & {nx, sz, e0, e1, d0, d1}) and \
                    (-r).is_nonnegative is True and not r.atoms(sp.Function)
            okg = any(cells_test(c) for c in tc)
            if not use_up:
                okg = okg and any(parity_zero(c.e + remain) for c in tc)
            ctx.check('C16.G2.guard', tag + ' remain >= 0', okg,
                      'widths are returned without the test that no more '
                      'than nx cells were used (remain >= 0)', where)
            lo = hi = False
            for c in tc:
                ss = [x for x in c.e.atoms(sp.Function) if x.func == S]
                if not ss:
                    if (use_up or ln == 0) and sp.simplify(
                            c.e - (e0 - d0)) == 0:
                        lo = True
                    if (use_up or rn == 0) and sp.simplify(
                            c.e - (d1 - e1)) == 0:
                        hi = True
                if len(ss) != 1:
                    continue
                tg, cnt = ss[0].args
                if tg == it.tagsym(lt) and (use_up or sp.simplify(
                        cnt - ln) == 0) and sp.simplify(
                        c.e - (e0 - ss[0] - d0)) == 0:
                    lo = True
                if tg == it.tagsym(rt) and (use_up or sp.simplify(
                        cnt - rn) == 0) and sp.simplify(
                        c.e - (d1 - e1 - ss[0])) == 0:
                    hi = True
            ctx.check('C16.G2.guard', tag + ' domain reached', lo and hi,
                      'widths are returned without the test that the '
                      'extended part reaches BOTH ends of the domain '
                      '(edges[0] - sum(left) <= domain[0] and edges[1] + '
                      'sum(right) >= domain[1], sums over the widths that '
                      'are added): the mesh need not cover the survey domain '
                      '/ the buffer', where)
        # slices are not truncated: a prefix of k entries of an array of
        # length L needs k <= L; k <= nx - 1 holds because all parts are
        # non-negative and add up to nx with at least one centre cell
        seen = set()
        for up, length, node in it.slices:
            if (node.lineno, node.col_offset, str(length)) in seen:
                continue
            seen.add((node.lineno, node.col_offset, str(length)))
            ctx.check('C16.G1.count', f'_stretch slice `{ast.unparse(node)}` '
                      f'of length {length} (use_up={use_up})',
                      sp.simplify(length - nx + 1).is_nonnegative is True,
                      f'the extension is cut out of an array of length '
                      f'{length}, which can be shorter than the nx - 1 '
                      'cells an extension may need: fewer cells than '
                      'counted are returned', ctx.where(mod, node))
    ctx.need(n_ok >= 4, f'_stretch: only {n_ok} successful paths analysed')
    ctx.floor('C16.G1.count', 8)
    ctx.floor('C16.G1.origin', 4)


def run(ctx):
    mod = ctx.repo.mod(MESH)
    rule_stretch(ctx, mod)
