"""C09 - receiver sampling and point sources are exact transposes
(structural clauses).

Rules (DESIGN.md 4/C09):
  PV  _point_vector: weight/index pairing of the 8 stores, linear weights,
      partition of unity, component vectors, rotation scaling
  RC  get_receiver: NaN mask covers the six sides with the second / second
      last node, applied after the accumulation; factor/component pairing
  RO  rotation == (cos az cos el, sin az cos el, sin el); shared by source
      and receiver
  EC  _edge_curl_factor: curl of the operator, width-weighted two-cell
      average of zeta, low-face guards; call-site roles
  AS  receivers map to their adjoint source class
"""
import ast

import sympy as sp

from ..core import astutil as au
from ..core.report import AnalysisError
from ..expr.lift import Lifter, equal
from ..stencil import kernels
from ..stencil.alg import Aff, Lin, Rat, idx_key, fmt_atom
from ..stencil.reference import RefOp
from ..core.template import find, has

LEVEL = 'other'
FIELDS = 'emg3d/fields.py'
ELEC = 'emg3d/electrodes.py'


def pairing_table(ctx, rule, mod, fn, stores, axes_info, label):
    """stores: Assign/AugAssign nodes `arr[i0, i1, i2] (+)= w0*w1*w2[*x]`.
    axes_info[a] = dict(lower=<index text>, upper=<index text>,
                        e=<lower weight name>, r=<upper weight name>)
    Every store must use, per axis, the upper index iff its factor on that
    axis is the upper weight.  Returns list of (index choice tuple, factors).
    """
    combos = []
    for st in stores:
        tg = st.targets[0] if isinstance(st, ast.Assign) else st.target
        idx = [ast.unparse(e).replace(' ', '') for e in tg.slice.elts]
        factors = set()

        def flat(n):
            if isinstance(n, ast.BinOp) and isinstance(n.op, ast.Mult):
                flat(n.left)
                flat(n.right)
            else:
                factors.add(ast.unparse(n))
        flat(st.value)
        choice = []
        ok = True
        why = []
        for a, info in axes_info.items():
            if idx[a] == info['upper']:
                up = True
            elif idx[a] == info['lower']:
                up = False
            else:
                ok = False
                why.append(f'axis {"xyz"[a]} index `{idx[a]}` unknown')
                continue
            has_r, has_e = info['r'] in factors, info['e'] in factors
            if has_r == has_e:
                ok = False
                why.append(f'axis {"xyz"[a]}: exactly one of '
                           f'{info["e"]}/{info["r"]} expected')
            elif has_r != up:
                ok = False
                why.append(f'axis {"xyz"[a]}: '
                           f'{"upper" if up else "lower"} index `{idx[a]}` '
                           f'weighted with '
                           f'{info["r"] if has_r else info["e"]}')
            choice.append(up)
        ctx.check(rule, f'{label} `{au.stext(st)[:60]}`', ok, '; '.join(why),
                  ctx.where(mod, st), sample={'store': au.stext(st)[:80]})
        combos.append((tuple(choice), factors))
    return combos


def index_lower_bound(e):
    """Greatest statically known lower bound of an integer index expression
    (None: unknown form)."""
    if isinstance(e, ast.Constant) and isinstance(e.value, (int, float)):
        return e.value
    if isinstance(e, ast.BinOp) and isinstance(e.op, (ast.Sub, ast.Add)):
        l, r = index_lower_bound(e.left), None
        if isinstance(e.right, ast.Constant):
            r = e.right.value
        if l is None or r is None:
            return None
        return l - r if isinstance(e.op, ast.Sub) else l + r
    if isinstance(e, ast.Call):
        f = ast.unparse(e.func)
        if f in ('max', 'np.maximum'):
            bs = [index_lower_bound(a) for a in e.args]
            known = [b for b in bs if b is not None]
            return max(known) if known else None
        if f in ('min', 'np.minimum'):
            bs = [index_lower_bound(a) for a in e.args]
            return None if any(b is None for b in bs) else min(bs)
        if f == 'np.clip' and len(e.args) >= 2 and isinstance(
                e.args[1], ast.Constant):
            return e.args[1].value
        if f == 'int' and e.args:
            return index_lower_bound(e.args[0])
        if f in ('np.searchsorted', 'np.argmax', 'np.argmin', 'np.digitize',
                 'np.count_nonzero', 'len') or f.endswith('.searchsorted'):
            return 0
    if isinstance(e, ast.Subscript):
        # np.where(...)[0][0] / x.nonzero()[0][0]: an element of an index set
        base = e
        while isinstance(base, ast.Subscript):
            base = base.value
        if isinstance(base, ast.Call) and (
                ast.unparse(base.func) in ('np.where', 'np.nonzero',
                                           'np.flatnonzero', 'np.argwhere')
                or ast.unparse(base.func).endswith('.nonzero')):
            return 0
    return None


def rule_PV(ctx, fm, P='C09.PV'):
    pv = fm.func('_point_vector')
    ps_fn = [n for n in pv.body if isinstance(n, ast.FunctionDef)]
    ctx.anchor(len(ps_fn) == 1, 'point_source helper in _point_vector')
    psf = ps_fn[0]
    pps = au.params(psf)
    arr = pps[4]
    unpacks = [n for n in psf.body if isinstance(n, ast.Assign) and
               isinstance(n.targets[0], ast.Tuple) and isinstance(
                   n.value, ast.Call) and ast.unparse(n.value.func) ==
               'get_index_and_strength']
    ctx.anchor(len(unpacks) == 3, 'three get_index_and_strength calls')
    axes = {}
    for a, u in enumerate(unpacks):
        r, e, up = [ast.unparse(x) for x in u.targets[0].elts]
        lower = ast.unparse(u.value.args[0])
        axes[a] = {'lower': lower, 'upper': up, 'e': e, 'r': r}
        shp = find(f'_n0_, _n1_, _n2_ = {arr}.shape', psf)
        nname = shp[0][1][f'_n{a}_'] if shp else None
        ok = ast.unparse(u.value.args[2]).replace(' ', '') == \
            f'{pps[3]}[{a}]' and ast.unparse(u.value.args[3]) == pps[a] and \
            ast.unparse(u.value.args[1]) == nname
        ctx.check(f'{P}.axes', f'point_source axis {"xyz"[a]} inputs', ok,
                  'coordinate / grid vector / array size of this axis are not '
                  'paired (the last-index special case would fire in the wrong '
                  'layer)',
                  ctx.where(fm, u))
    stores = [n for n in psf.body if isinstance(n, ast.Assign) and isinstance(
        n.targets[0], ast.Subscript) and ast.unparse(n.targets[0].value) ==
        arr]
    combos = pairing_table(ctx, f'{P}.pairing', fm, psf, stores, axes,
                           '_point_vector')
    ctx.floor(f'{P}.pairing', 8)
    ctx.check(f'{P}.unity', '_point_vector covers the 8 corners once',
              len({c for c, _ in combos}) == 8 and len(combos) == 8,
              'the 8 stores do not address the 8 corners of the cell once '
              'each', ctx.where(fm, psf))
    rs = [sp.Symbol(f'r{a}') for a in range(3)]
    total = 0
    for st in stores:
        env = {}
        for a in range(3):
            env[axes[a]['r']] = rs[a]
            env[axes[a]['e']] = 1 - rs[a]
        total = total + Lifter(env, {}, fm.rel, strict=True).lift(st.value)
    ctx.check(f'{P}.unity', '_point_vector weights sum to one',
              equal(total, 1), f'sum of the 8 weights is {sp.expand(total)}',
              ctx.where(fm, psf), sample={'sum': str(sp.simplify(total))})
    # linear weights
    gis = [n for n in psf.body if isinstance(n, ast.FunctionDef)]
    ctx.anchor(len(gis) == 1, 'get_index_and_strength helper')
    g = gis[0]
    gp = au.params(g)
    els = [n for n in ast.walk(g) if isinstance(n, ast.If)][0].orelse
    ret = [n for n in ast.walk(g) if isinstance(n, ast.Return)]
    ctx.anchor(len(ret) == 1 and isinstance(ret[0].value, ast.Tuple) and
               len(ret[0].value.elts) == 3 and all(
                   isinstance(e, ast.Name) for e in ret[0].value.elts),
               'get_index_and_strength returns (r, e, upper index)')
    rn, en, un = (e.id for e in ret[0].value.elts)
    env = {}
    c0, c1, x = sp.symbols('c0 c1 x')
    vals = {}
    for st in els:
        if isinstance(st, ast.Assign):
            t = ast.unparse(st.targets[0])
            if t == un:
                vals[t] = ast.unparse(st.value).replace(' ', '')
            else:
                lf = Lifter({gp[2]: x, f'{gp[3]}[{gp[0]}]': c0,
                             f'{gp[3]}[{un}]': c1, **env}, {}, fm.rel,
                            strict=True)
                env[t] = lf.lift(st.value)
    lin = (x - c0) / (c1 - c0)
    rgot = env.get(rn, 0)
    # the fraction itself, or the fraction clamped at zero (no extrapolation
    # below the first point)
    rform = lin if equal(rgot, lin) else sp.Max(0, lin)
    ok = vals.get(un) in (f'{gp[0]}+1', f'1+{gp[0]}') and \
        (rgot == rform or equal(rgot, rform) or
         str(rgot) == str(sp.Max(0, lin)) or str(rgot) == str(
             sp.Max(0.0, lin))) and \
        (equal(env.get(en, 0), 1 - rform) or
         equal(env.get(en, 0) - (1 - rgot), 0))
    ctx.check(f'{P}.linear', 'get_index_and_strength: linear weights', ok,
              f'weights are r={env.get(rn)}, e={env.get(en)}, upper '
              f'index {vals.get(un)}; trilinear interpolation needs '
              'r=(x-c[i])/(c[i+1]-c[i]), e=1-r, i+1', ctx.where(fm, g),
              sample={'r': str(env.get(rn)), 'e': str(env.get(en))})
    # the lower index is clamped to the first interval; a source below the
    # first centre then has a NEGATIVE linear fraction unless the fraction is
    # clamped too (the upper end is clamped by the `ic == nc-1` branch): the
    # weights must stay in [0, 1], else an edge the source does not touch
    # gets a negative contribution
    clamp_active = False
    for a in range(3):
        d_ = [n for n in psf.body if isinstance(n, ast.Assign) and
              ast.unparse(n.targets[0]) == axes[a]['lower']]
        if d_ and isinstance(d_[0].value, ast.Call) and ast.unparse(
                d_[0].value.func) in ('max', 'np.maximum', 'np.clip'):
            inner = [x for x in d_[0].value.args
                     if not isinstance(x, ast.Constant)]
            lb_in = index_lower_bound(inner[0]) if inner else None
            clamp_active = clamp_active or (lb_in is not None and lb_in < 0)
    # ... and the clamp keeps the first interval reachable: a lower bound
    # above 0 assigns points of the first interval to the second one
    # (negative fraction, clamped: nearest neighbour instead of linear)
    for a in range(3):
        d_ = [n for n in psf.body if isinstance(n, ast.Assign) and
              ast.unparse(n.targets[0]) == axes[a]['lower']]
        lb = index_lower_bound(d_[0].value) if len(d_) == 1 else None
        ctx.check(f'{P}.linear', f'_point_vector: cell index of axis '
                  f'{"xyz"[a]} starts at the first interval',
                  lb is None or lb == 0, f'the cell index '
                  f'`{au.stext(d_[0]) if d_ else "?"}` is at least {lb}: '
                  'points between the first two grid points are moved to '
                  'another interval (no linear weights there; sampling and '
                  'source are no longer transposes)',
                  ctx.where(fm, d_[0] if d_ else psf))
    rdef = [st for st in els if isinstance(st, ast.Assign) and
            ast.unparse(st.targets[0]) == rn]
    clamped = bool(rdef) and (
        has(f'{rn} = max(0.0, __)', rdef[0]) or
        has(f'{rn} = max(0, __)', rdef[0]) or
        has(f'{rn} = np.clip(__, 0, __)', rdef[0]) or
        has(f'{rn} = np.clip(__, 0.0, __)', rdef[0]) or
        has(f'{rn} = min(max(__, 0.0), 1.0)', rdef[0])) or any(
        isinstance(n, ast.If) and has(f'{gp[2]} < {gp[3]}[0]', n.test)
        for n in ast.walk(g)) or any(
        isinstance(n, ast.If) and has(f'{gp[2]} <= {gp[3]}[0]', n.test)
        for n in ast.walk(g))
    ctx.check(f'{P}.linear', 'get_index_and_strength: weights stay in [0, 1] '
              'below the first centre', clamped or not clamp_active,
              'the cell index is clamped to 0 for a source below the first '
              'cell centre, but the linear fraction is not: it becomes '
              'negative (weights e.g. 1.5 / -0.5), while the upper end is '
              'clamped', ctx.where(fm, g))
    # component vectors and scaling
    vf = find('_v_ = Field(_g_, dtype=float)', pv)
    ctx.anchor(len(vf) == 1, 'vector field in _point_vector')
    vn, gn = vf[0][1]['_v_'], vf[0][1]['_g_']
    cp = au.params(pv)[1]
    kinds = {0: ('cell_centers_x', 'nodes_y', 'nodes_z'),
             1: ('nodes_x', 'cell_centers_y', 'nodes_z'),
             2: ('nodes_x', 'nodes_y', 'cell_centers_z')}
    for a, comp in enumerate(('fx', 'fy', 'fz')):
        c = find(f'{psf.name}(*_vec_, {cp}[:3], {vn}.{comp})', pv)
        ok = len(c) == 1
        if ok:
            vec = c[0][1]['_vec_']
            k = kinds[a]
            ok = has(f'{vec} = ({gn}.{k[0]}, {gn}.{k[1]}, {gn}.{k[2]})', pv)
        ctx.check(f'{P}.components', f'_point_vector component {comp}: '
                  'centres along, nodes across', ok, 'component grid vectors '
                  f'of {comp} are not (centres along its own axis, nodes '
                  'across)', ctx.where(fm, pv))
    rebound = [n for n in ast.walk(pv) if isinstance(n, (ast.Assign,
                                                         ast.AugAssign))
               and any(isinstance(t, ast.Name) and t.id == cp for t in (
                   n.targets if isinstance(n, ast.Assign) else [n.target]))]
    ctx.check(f'{P}.components', '_point_vector uses the coordinates as '
              'given', not rebound, f'`{au.stext(rebound[0]) if rebound else ""}`'
              ' changes the source coordinates (rounded / shifted); '
              'get_receiver samples at the coordinates as given, so the '
              'point source is the transpose of the sampling at another '
              'point', ctx.where(fm, rebound[0] if rebound else pv))
    sd = find(f'_s_ = electrodes.rotation(*{cp}[3:])', pv)
    ctx.check(f'{P}.components', '_point_vector direction cosines',
              len(sd) == 1, 'direction is not rotation(azimuth, elevation) '
              'of the coordinates', ctx.where(fm, pv))
    sdn = sd[0][1]['_s_'] if sd else 'srcdir'
    for a, comp in enumerate(('fx', 'fy', 'fz')):
        ctx.check(f'{P}.components', f'_point_vector scales {comp} by '
                  f'rotation[{a}]', has(f'{vn}.{comp} *= {sdn}[{a}]', pv),
                  'component is not scaled by its direction cosine',
                  ctx.where(fm, pv))
    ctx.floor(f'{P}.components', 8)
    # lower indices are clamped to the first cell: a point between the first
    # node and the first cell centre would otherwise get index -1, which
    # wraps around to the last edge of the grid
    for a in range(3):
        lo = axes[a]['lower']
        defs = [n for n in psf.body if isinstance(n, ast.Assign) and
                ast.unparse(n.targets[0]) == lo]
        ctx.anchor(len(defs) == 1, f'definition of lower index {lo}')
        lb = index_lower_bound(defs[0].value)
        if lb is None:
            raise AnalysisError(f'cannot bound the index expression '
                                f'`{ast.unparse(defs[0].value)}` from below')
        ctx.check(f'{P}.bounds', f'point_source lower index {lo} >= 0',
                  lb >= 0, f'`{au.stext(defs[0])}` can be {lb}: a negative '
                  'index wraps to the far side of the grid (weight on edges '
                  'of cells the source does not touch)',
                  ctx.where(fm, defs[0]), sample={'lower_bound': lb})


def rule_flat_order(ctx, fm):
    """Receiver positions given as arrays are flattened to a list of points,
    sampled, and the responses are folded back into the shape of the input:
    the flattening of the points in maps._points_from_grids and the folding
    of the results (maps.interpolate, fields.get_receiver) must use the SAME
    memory order, otherwise the value at [i, j] belongs to another position
    (no longer the inner product with the point vector of position [i, j])."""
    mm = ctx.repo.mod('emg3d/maps.py')
    sites = []
    pg = mm.func('_points_from_grids')
    for c in ast.walk(pg):
        if isinstance(c, ast.Call) and isinstance(c.func, ast.Attribute) \
                and c.func.attr == 'reshape' and len(c.args) == 2 and \
                ast.unparse(c.args[1]) == '3':
            sites.append(('maps._points_from_grids', mm, c))
    for mod_, fname in ((mm, 'interpolate'), (fm, 'get_receiver')):
        f_ = mod_.func(fname)
        for r in ast.walk(f_):
            if isinstance(r, ast.Return) and r.value is not None:
                for c in ast.walk(r.value):
                    if isinstance(c, ast.Call) and isinstance(
                            c.func, ast.Attribute) and c.func.attr == \
                            'reshape':
                        sites.append((f'{mod_.rel.split("/")[-1][:-3]}.'
                                      f'{fname}', mod_, c))
    ctx.anchor(len(sites) >= 4, 'flatten / fold sites of the sampling points')

    def order(c):
        for k in c.keywords:
            if k.arg == 'order':
                return ast.unparse(k.value).strip('\'"')
        return 'C'
    orders = {order(c) for _, _, c in sites}
    for nm, mod_, c in sites:
        ctx.check('C09.RC.order', f'{nm}: `{ast.unparse(c)[:50]}` order',
                  len(orders) == 1, f'points are flattened / results folded '
                  f'with order {order(c)!r} here, while the other sites use '
                  f'{sorted(orders - {order(c)})}: for positions given as '
                  'arrays with two or more dimensions the responses are '
                  'assigned to the wrong positions', ctx.where(mod_, c))


def rule_RC(ctx, fm):
    gr = fm.func('get_receiver')
    gp_ = au.params(gr)
    pf = find('_u_, _xi_, _sh_ = maps._points_from_grids(_g_, __, __, __)',
              gr)
    ctx.anchor(len(pf) == 1, 'sampling points in get_receiver')
    xi, gn = pf[0][1]['_xi_'], pf[0][1]['_g_']
    inds = [n for n in ast.walk(gr) if isinstance(n, ast.Assign) and
            isinstance(n.targets[0], ast.Name) and sum(
                isinstance(c, ast.Compare) for c in ast.walk(n.value)) >= 4
            and 'nodes_' in ast.unparse(n.value)]
    if len(inds) != 1:
        ctx.fail('C09.RC.mask', 'get_receiver: one NaN mask over the three '
                 'directions', 'the mask "receiver in an outermost cell" is '
                 'not one test over x, y and z that is applied to every '
                 'receiver (it is split / applied per field component): '
                 'receivers in an outermost cell of a direction whose field '
                 'component is not sampled return a number instead of NaN',
                 ctx.where(fm, gr))
        return
    ind = inds[0].targets[0].id
    cmps = [c for c in ast.walk(inds[0].value) if isinstance(c, ast.Compare)]
    got = set()
    for c in cmps:
        l = ast.unparse(c.left).replace(' ', '')
        r = ast.unparse(c.comparators[0]).replace(' ', '')
        op = type(c.ops[0]).__name__
        got.add((l, op, r))
    want = set()
    for a, ax in enumerate('xyz'):
        want.add((f'{xi}[:,{a}]', 'Lt', f'{gn}.nodes_{ax}[1]'))
        # (canonical orientation: `x > n[-2]` is held as `n[-2] < x`)
        want.add((f'{gn}.nodes_{ax}[-2]', 'Lt', f'{xi}[:,{a}]'))
    for w in sorted(want):
        col = [t for t in (w[0], w[2]) if t.startswith(xi)][0][-2]
        nod = [t for t in (w[0], w[2]) if not t.startswith(xi)][0]
        ctx.check('C09.RC.mask', f'get_receiver NaN mask column '
                  f'{col} vs {nod.split(".")[-1]}', w in got,
                  'receivers in the outermost cells on this side are not '
                  'set to NaN', ctx.where(fm, inds[0]),
                  sample={'comparison': list(w)})
    ctx.check('C09.RC.mask', 'get_receiver NaN mask: no other comparison',
              got == want and all(isinstance(b.op, ast.BitOr) for b in
                                  ast.walk(inds[0].value)
                                  if isinstance(b, ast.BinOp)),
              f'mask contains {sorted(got - want)}', ctx.where(fm, inds[0]))
    ctx.floor('C09.RC.mask', 7)
    rz = find(f'_r_ = np.zeros({xi}.shape[0], dtype=__)', gr)
    ctx.anchor(len(rz) == 1, 'response vector in get_receiver')
    resp = rz[0][1]['_r_']
    st = [n for n in gr.body if isinstance(n, ast.Assign) and
          ast.unparse(n.targets[0]) == f'{resp}[{ind}]']
    loop = [n for n in gr.body if isinstance(n, ast.For) and
            'maps.interpolate' in ast.unparse(n)]
    ctx.anchor(len(loop) == 1, 'component loop in get_receiver')
    # (NaN propagates through `+=`, so the position relative to the
    # accumulation loop does not matter; the store must exist on every path)
    ok = len(st) == 1 and ast.unparse(st[0].value) == 'np.nan'
    ctx.check('C09.RC.order', 'get_receiver: masked responses set to NaN',
              ok, 'the masked responses are not set to NaN',
              ctx.where(fm, gr))
    acc = [n for n in ast.walk(loop[0]) if isinstance(n, (ast.Assign,
                                                          ast.AugAssign))
           and resp in ast.unparse(n.targets[0] if isinstance(
               n, ast.Assign) else n.target)]
    ctx.check('C09.RC.order', 'get_receiver: components are accumulated',
              all(isinstance(n, ast.AugAssign) and isinstance(n.op, ast.Add)
                  for n in acc) and bool(acc),
              'component contributions overwrite instead of accumulate',
              ctx.where(fm, loop[0]))
    ctx.check('C09.RC.order', 'get_receiver: linear mode fills with NaN',
              any(has(f"{gp_[2]} == 'linear'", n.test) and
                  has("_o_['fill_value'] = np.nan", n.body)
                  for n in ast.walk(gr) if isinstance(n, ast.If)),
              'outside points do not give NaN in linear mode',
              ctx.where(fm, gr))
    fc = find('_f_ = electrodes.rotation(*_c_[3:])', gr)
    lp2 = find(f'for _i_, _ff_ in enumerate(({gp_[0]}.fx, {gp_[0]}.fy, '
               f'{gp_[0]}.fz)):\n    __', gr)
    ok = len(fc) == 1 and isinstance(loop[0].target, ast.Tuple) and has(
        f'({gp_[0]}.fx, {gp_[0]}.fy, {gp_[0]}.fz)', loop[0].iter)
    if ok:
        i_, ff = (x.id for x in loop[0].target.elts)
        ok = has(f'_r_ += {fc[0][1]["_f_"]}[{i_}] * maps.interpolate(_g_, '
                 f'{ff}, _xi_, **_o_)', loop[0])
    ctx.check('C09.RC.factors', 'get_receiver: factor / component pairing',
              ok, 'components are not weighted by their own direction cosine',
              ctx.where(fm, loop[0]))
    skip_threshold(ctx, 'C09.RC.factors')
    ctx.check('C09.RC.factors', 'get_receiver: no extrapolation, no log',
              has(f"_o_ = {{'method': {gp_[2]}, 'extrapolate': False, "
                  "'log': False}", gr), 'sampling options changed',
              ctx.where(fm, gr))


def skip_threshold(ctx, rule):
    """get_receiver leaves out a field component only if its direction
    cosine is negligible (shared with C07: the adjoint source keeps every
    component, so a dropped one is missing in misfit but not in gradient)."""
    fm = ctx.repo.mod(FIELDS)
    gr = fm.func('get_receiver')
    loop = [n for n in gr.body if isinstance(n, ast.For) and
            'maps.interpolate' in ast.unparse(n)]
    ctx.anchor(len(loop) == 1, 'component loop in get_receiver')
    # a component may be skipped only if its direction cosine is negligible:
    # dropping |cos| up to T is a relative error T against the transpose of
    # the point source, so T must stay below the accuracy of the fields (the
    # default solver tolerance)
    sm_ = ctx.repo.mod('emg3d/solver.py')
    tols = [n.value.value for n in ast.walk(sm_.cls('MGParameters'))
            if isinstance(n, ast.AnnAssign) and
            ast.unparse(n.target) == 'tol' and
            isinstance(n.value, ast.Constant)]
    ctx.anchor(len(tols) == 1, 'default solver tolerance')
    skips = [n for n in ast.walk(loop[0]) if isinstance(n, ast.If)]
    for sk in skips:
        m_ = find('np.any(abs(_f_[_i_]) > _T_)', sk.test) or \
            find('np.any(np.abs(_f_[_i_]) > _T_)', sk.test)
        T = m_[0][1]['_T_'] if m_ else None
        try:
            Tv = float(T if isinstance(T, str) else ast.unparse(T))
        except (TypeError, ValueError):
            Tv = None
        okT = Tv is not None and 0 <= Tv <= tols[0]
        ctx.check(rule, 'get_receiver: component skip threshold',
                  bool(okT), f'components are skipped under '
                  f'`{ast.unparse(sk.test)}`: a direction cosine that is not '
                  f'negligible (> default tol {tols[0]}) is dropped from the '
                  'sampling but kept by the point source', ctx.where(fm, sk),
                  sample={'test': ast.unparse(sk.test)})


def rule_RO(ctx):
    em = ctx.repo.mod(ELEC)
    rot = em.func('rotation')
    ret = [n for n in ast.walk(rot) if isinstance(n, ast.Return)]
    ctx.anchor(len(ret) == 1 and isinstance(ret[0].value, ast.Call) and
               isinstance(ret[0].value.args[0], ast.List),
               'rotation returns np.array([...])')
    az, el = sp.symbols('az el', real=True)
    rp = au.params(rot)
    def pair(cf, sf):
        c_ = find(f'_c_ = {cf}', rot)
        s_ = find(f'_s_ = {sf}', rot)
        if len(c_) == 1 and len(s_) == 1:
            return [(c_[0][0], {'_c_': c_[0][1]['_c_'],
                                '_s_': s_[0][1]['_s_']})]
        return []
    tr = pair('np.cos', 'np.sin')
    td = pair('sp.special.cosdg', 'sp.special.sindg')
    ctx.check('C09.RO.formula', 'rotation: degree / radian functions',
              len(tr) == 1 and len(td) == 1 and tr[0][1] == td[0][1],
              'cos/sin are not bound to (cosdg, sindg) / (np.cos, np.sin)',
              ctx.where(em, rot))
    cn = tr[0][1]['_c_'] if tr else 'cos'
    sn = tr[0][1]['_s_'] if tr else 'sin'
    lf = Lifter({rp[0]: az, rp[1]: el}, {cn: sp.cos, sn: sp.sin},
                em.rel, strict=True)
    got = [lf.lift(e) for e in ret[0].value.args[0].elts]
    want = [sp.cos(az) * sp.cos(el), sp.sin(az) * sp.cos(el), sp.sin(el)]
    ok = len(got) == 3 and all(equal(g, w) for g, w in zip(got, want))
    ctx.check('C09.RO.formula', 'electrodes.rotation', ok,
              f'rotation factors are {got}; documented '
              '(cos az cos el, sin az cos el, sin el)', ctx.where(em, rot),
              sample={'lifted': [str(g) for g in got]})


def rule_EC(ctx, fm):
    it = kernels.interpret(fm, '_edge_curl_factor')
    pn = it.pnames
    mnames, enames, hnames, zname = pn[0:3], pn[3:6], pn[6:9], pn[9]
    ref = RefOp(fields=tuple(enames), widths=tuple(hnames),
                etas=('_', '_', '_'), zeta=zname)
    for node, arr, ax, a, n, c in it.oob:
        ctx.fail('C09.EC.bounds', f'_edge_curl_factor {arr} axis {ax} '
                 f'`{au.stext(node)}`', f'subscript {a} can leave '
                 f'[0, {n}-1]', ctx.where(fm, node))
    per = {}
    for s in it.stores:
        per.setdefault(s.arr, []).append(s)
    n_int = 0
    for a, mn in enumerate(mnames):
        b, c = (a + 1) % 3, (a + 2) % 3
        sts = per.get(mn, [])
        for s in sts:
            low = s.idx[a].is_const() and s.idx[a].c == 0
            label = ','.join(f'{k}={v}' for k, v in sorted(
                s.ctx['classes'].items()))
            if low:
                ctx.fail('C09.EC.guard', f'_edge_curl_factor {mn} [{label}]',
                         'face on the low boundary is written although its '
                         'two-cell average uses a clamped index',
                         ctx.where(fm, s.node))
                continue
            p = s.idx
            hsum = ref.h(a, p[a] - 1) + ref.h(a, p[a])
            want = ref.curl(a, p) * (ref.Z(ref.sh(p, a, -1)) + ref.Z(p)) / (
                hsum * ref.h(b, p[b]) * ref.h(c, p[c]))
            ok = s.value == want
            ctx.check('C09.EC.curl', f'_edge_curl_factor {mn} [{label}]', ok,
                      'stored face value is not curl(E) times the two-cell '
                      'zeta sum over (dual width x face area)',
                      ctx.where(fm, s.node),
                      sample={'face': fmt_atom((mn, idx_key(p))),
                              'cells': len(want.terms)})
            n_int += 1
            # Faraday: with zeta = V * nu (nu = 1/(mu_r s mu0)) this is
            # curl E times the width-weighted average of nu
            def sub(at):
                if at[0] == zname:
                    i = [Aff.from_key(k) for k in at[1]]
                    V = Rat.const(1)
                    for t in range(3):
                        V = V * Rat.atom((hnames[t], idx_key((i[t],))))
                    return V * Rat.atom(('nu', at[1]))
                return Rat.atom(at)
            got2 = s.value.map_coefs(lambda r: r.map_atoms(sub))
            pm = ref.sh(p, a, -1)
            nu0 = Lin.coef(Rat.atom(('nu', idx_key(p))))
            num = Lin.coef(Rat.atom(('nu', idx_key(pm)))) * ref.h(a, p[a] - 1) \
                + nu0 * ref.h(a, p[a])
            want2 = ref.curl(a, p) * num / hsum
            ctx.check('C09.EC.faraday', f'_edge_curl_factor {mn} [{label}] '
                      'is curl E x width-weighted 1/(mu s mu0)',
                      got2 == want2, 'with zeta = V/(mu_r s mu0) the face '
                      'value is not the discrete Faraday law',
                      ctx.where(fm, s.node))
    ctx.need(n_int >= 3, 'no interior face stores found')
    ctx.floor('C09.EC.curl', 3)
    # the low faces are never written: write intervals
    for a, mn in enumerate(mnames):
        for s in per.get(mn, []):
            mnb, _ = it.bounds_in(s.idx[a], s.ctx)
            ctx.check('C09.EC.guard', f'_edge_curl_factor {mn} low-face '
                      f'guard [{",".join(s.ctx["classes"].values())}]',
                      mnb is not None and mnb >= 1,
                      'a face on the low boundary can be written',
                      ctx.where(fm, s.node))
    # caller
    gm = fm.func('get_magnetic_field')
    gp = au.params(gm)
    # value-oriented (independent of temporaries): what each argument of the
    # kernel call stands for
    from ..core.template import same as same_t
    call = au.calls(gm, '_edge_curl_factor')
    ctx.anchor(len(call) == 1 and len(call[0].args) == 10,
               '_edge_curl_factor call with 10 arguments')
    vals = [au.value_of(x, gm) for x in call[0].args]
    E = gp[1]
    hobj = [same_t(f'Field({E}.grid, frequency={E}._frequency, '
                   f'electric=False).{c}', v) is not None
            for c, v in zip(('fx', 'fy', 'fz'), vals[:3])]
    hname = {ast.unparse(x.value) for x in call[0].args[:3]
             if isinstance(x, ast.Attribute)}
    ctx.check('C09.EC.callsite', 'get_magnetic_field: magnetic field object',
              all(hobj) and len(hname) == 1, 'result is not a face field of '
              'the same grid/frequency', ctx.where(fm, gm))
    okz = same_t(f'models.VolumeModel({gp[0]}, {E}).zeta / {E}.smu0',
                 vals[9]) is not None
    ctx.check('C09.EC.callsite', 'get_magnetic_field: zeta / (s mu0)', okz,
              'the factor handed to the curl kernel is not V/(mu_r s mu0)',
              ctx.where(fm, gm))
    args = [ast.unparse(x) for x in vals[3:9]]
    want = [f'{E}.fx', f'{E}.fy', f'{E}.fz', f'{E}.grid.h[0]',
            f'{E}.grid.h[1]', f'{E}.grid.h[2]']
    ctx.check('C09.EC.callsite', 'get_magnetic_field -> _edge_curl_factor',
              args == want and all(hobj) and okz,
              f'arguments {[ast.unparse(x) for x in call[0].args]} are not '
              'in their roles', ctx.where(fm, call[0]))
    h = sorted(hname)[0] if hname else 'hfield'
    rets = [n for n in ast.walk(gm) if isinstance(n, ast.Return)]
    ctx.check('C09.EC.callsite', 'get_magnetic_field returns the face field',
              len(rets) == 1 and ast.unparse(rets[0].value) == h,
              'the computed face field is not returned', ctx.where(fm, gm))


def run(ctx):
    ctx.explanation = (
        'Weight/index pairing tables are extracted from the store '
        'statements of _point_vector and checked against the trilinear '
        'rule (upper index <=> upper weight), weights are lifted into sympy '
        '(linear, sum to one); the NaN mask of get_receiver is compared as a '
        'set of comparisons; rotation is lifted; _edge_curl_factor is '
        'abstractly interpreted and compared with the reference curl and '
        'the width-weighted average.')
    ctx.assumptions = ['A7 RegularGridInterpolator(linear) is multilinear '
                       'interpolation (equality with the point vector is not '
                       'decided)', 'magnetic transpose through discretize is '
                       'not decided']
    fm = ctx.repo.mod(FIELDS)
    rule_PV(ctx, fm)
    rule_RC(ctx, fm)
    rule_flat_order(ctx, fm)
    # the magnetic field is computed with the model ON THE GRID OF THE FIELD
    # (the volumes in zeta and the widths in the curl must belong together)
    sm_ = ctx.repo.mod('emg3d/simulations.py')
    gr_ = sm_.method('Simulation', '_get_responses')
    gps = au.params(gr_)
    mc = au.calls(gr_, 'fields.get_magnetic_field')
    ctx.anchor(len(mc) == 1 and mc[0].args, 'get_magnetic_field call in '
               'Simulation._get_responses')
    mvals = {ast.unparse(v_) for v_ in au.values_of(mc[0].args[0], [gr_])}
    ctx.check('C09.EC.callsite', 'Simulation: magnetic responses from the '
              'model on the computational grid', mvals == {
                  f'self.get_model({gps[1]}, {gps[2]})'},
              f'get_magnetic_field gets the model {sorted(mvals)}: unless it '
              'is the model interpolated to the grid of the electric field, '
              'the cell volumes in V/mu_r and the widths of the curl belong '
              'to different grids and the sampled magnetic field is not the '
              'discrete Faraday law (nor the transpose of the magnetic point '
              'source)', ctx.where(sm_, mc[0]))
    # the source vector / the sampled value are FUNCTIONS of (grid, position,
    # field): nothing is remembered on the source, grid or field objects
    # between calls (a remembered vector is scaled in place by the next
    # call, so the second source field is no longer the transpose of the
    # sampling) -- purity rule of C11, shared
    from ..core.report import Renamed
    from .c11 import rule_P4_inputs
    rule_P4_inputs(Renamed(ctx, lambda r: 'C09.AS.pure'))
    rule_RO(ctx)
    rule_EC(ctx, fm)
    from .c07 import adjoint_sources

    class Only:
        def __init__(self, c):
            self.c = c
            self.repo = c.repo

        def check(self, rule, *a, **k):
            if rule == 'C07.AS.registry':
                return self.c.check('C09.AS.registry', *a, **k)
            if rule in ('C07.AS.source', 'C07.AS.nan'):
                return self.c.check('C09.AS.source', *a, **k)
            return True

        def anchor(self, *a):
            return self.c.anchor(*a)

        def where(self, m, n):
            return self.c.where(m, n)
    adjoint_sources(Only(ctx))
    # the sampling method of a simulation (`receiver_interpolation`; only
    # 'linear' is the transpose of the point sources) is a constructor input
    # that a copy / a stored simulation has to carry
    from . import c12
    from ..core.report import Renamed
    sm = ctx.repo.mod('emg3d/simulations.py')
    c12.rule_OW5_roundtrip(Renamed(ctx, lambda r: 'C09.RC.options'), sm,
                           c12.Effects(ctx, sm),
                           only=('receiver_interpolation',))
