"""C17 - save and load round-trip every object in every format.

Writer/reader agreement (DESIGN.md 4/C17):
  K1  every registered class has to_dict/from_dict; '__class__' = class name;
      registry key = class name
  K2  keys emitted by to_dict are all consumed by from_dict / accepted by
      __init__, and every constructor input is emitted
  K3  save/load dispatch on the same extensions; JSON tags, None sentinel and
      npz separator agree between writer and reader
  K4  convert = save(**load(...)); (de)serialisation recursion
"""
import ast

from ..core import astutil as au
from ..core.report import AnalysisError
from ..core.template import find, has

LEVEL = 'other'
MODS = ['emg3d/meshes.py', 'emg3d/models.py', 'emg3d/fields.py',
        'emg3d/electrodes.py', 'emg3d/surveys.py', 'emg3d/simulations.py']
IO = 'emg3d/io.py'
UTILS = 'emg3d/utils.py'
# constructor inputs that are legitimately not emitted (one reason each)
NOT_EMITTED = {
    ('Field', 'dtype'): 'dtype follows from the stored data array',
    ('Simulation', 'tol_gradient'): 'popped from solver_opts; emitted as its '
                                    'own key tol_gradient',
}


class Classes:
    def __init__(self, ctx):
        self.ctx = ctx
        self.cls = {}
        for rel in MODS:
            m = ctx.repo.mod(rel)
            for c in m.classes():
                self.cls[c.name] = (m, c)

    def mro(self, name):
        out = [name]
        _, c = self.cls[name]
        for b in c.bases:
            for x in ast.walk(b):
                bn = x.id if isinstance(x, ast.Name) else (
                    x.attr if isinstance(x, ast.Attribute) else None)
                if bn in self.cls and bn != name:
                    for y in self.mro(bn):
                        if y not in out:
                            out.append(y)
        return out

    def method(self, name, meth):
        for c in self.mro(name):
            for f in self.cls[c][1].body:
                if isinstance(f, ast.FunctionDef) and f.name == meth and not \
                        any(d.endswith('.setter') for d in
                            au.decorator_names(f)):
                    return self.cls[c][0], f
        return None, None

    def class_attr(self, name, attr):
        for c in self.mro(name):
            for s in self.cls[c][1].body:
                if isinstance(s, ast.Assign) and any(
                        isinstance(t, ast.Name) and t.id == attr
                        for t in s.targets):
                    return c, s.value
        return None, None

    def eval_set(self, node, owner):
        if isinstance(node, (ast.Set, ast.List, ast.Tuple)):
            return {e.value for e in node.elts}
        if isinstance(node, ast.BinOp) and isinstance(node.op, ast.BitOr):
            return self.eval_set(node.left, owner) | self.eval_set(
                node.right, owner)
        if isinstance(node, ast.Attribute):
            base = ast.unparse(node.value)
            if base == 'self':
                c, v = self.class_attr(owner, node.attr)
            else:
                c, v = self.class_attr(base, node.attr)
            if v is None:
                raise AnalysisError(f'cannot resolve {ast.unparse(node)}')
            return self.eval_set(v, c)
        raise AnalysisError(f'cannot evaluate key set `{ast.unparse(node)}`')

    def name_set(self, name, attr):
        """Max set of names in class attr / instance list `attr`."""
        out = set()
        c, v = self.class_attr(name, attr)
        if v is not None:
            out |= self.eval_set(v, c)
        for k in self.mro(name):
            for n in ast.walk(self.cls[k][1]):
                if isinstance(n, ast.Assign) and any(
                        ast.unparse(t) == f'self.{attr}' for t in n.targets):
                    out |= self.eval_set(n.value, k)
        return out

    def has_attr(self, name, attr):
        for c in self.mro(name):
            for n in ast.walk(self.cls[c][1]):
                if isinstance(n, ast.FunctionDef) and n.name == attr:
                    return True
                if isinstance(n, ast.Assign) and any(
                        ast.unparse(t) == f'self.{attr}' for t in n.targets):
                    return True
        return False

    def kwargs_pops(self, name):
        """kwargs.pop literals of __init__ and of the methods __init__ (of
        any class in the MRO) hands its kwargs dict to."""
        out = set()
        todo = []
        for c in self.mro(name):
            for f in self.cls[c][1].body:
                if isinstance(f, ast.FunctionDef) and f.name == '__init__':
                    todo.append(f)
        seen = set()
        while todo:
            f = todo.pop()
            if id(f) in seen:
                continue
            seen.add(id(f))
            for n in ast.walk(f):
                if isinstance(n, ast.Call) and ast.unparse(n.func) == \
                        'kwargs.pop' and n.args and isinstance(
                            n.args[0], ast.Constant):
                    out.add(n.args[0].value)
                if isinstance(n, ast.Call) and isinstance(
                        n.func, ast.Attribute) and ast.unparse(
                            n.func.value) == 'self' and any(
                                ast.unparse(a).startswith('kwargs')
                                for a in n.args):
                    _, g = self.method(name, n.func.attr)
                    if g is not None:
                        todo.append(g)
        return out


def literal_loop_names(fn):
    """{loop var: [literals]} for `for v in [..]` / `v = [..]; for x in v`."""
    lists = {}
    for n in ast.walk(fn):
        if isinstance(n, ast.Assign) and len(n.targets) == 1 and isinstance(
                n.targets[0], ast.Name):
            vals = au.const_list(n.value)
            if vals is not None:
                lists.setdefault(n.targets[0].id, []).extend(vals)
    loops = {}
    for n in ast.walk(fn):
        if isinstance(n, (ast.For, ast.comprehension)) and isinstance(
                n.target, ast.Name):
            vals = au.const_list(n.iter)
            if vals is None and isinstance(n.iter, ast.Name):
                vals = lists.get(n.iter.id)
            if vals is not None:
                loops.setdefault(n.target.id, []).extend(vals)
    return loops


def emitted_keys(C, name, td):
    keys = set()
    has_class = False
    outs = [n for n in ast.walk(td) if isinstance(n, ast.Dict)]
    if not outs:
        raise AnalysisError(f'{name}.to_dict: no dict literal')
    d = outs[0]
    for k, v in zip(d.keys, d.values):
        if k is None:
            if isinstance(v, ast.DictComp) and isinstance(
                    v.generators[0].iter, ast.Attribute) and ast.unparse(
                        v.generators[0].iter.value) == 'self':
                keys |= C.name_set(name, v.generators[0].iter.attr)
            else:
                raise AnalysisError(f'{name}.to_dict: unsupported `**'
                                    f'{ast.unparse(v)[:40]}`')
        elif isinstance(k, ast.Constant):
            keys.add(k.value)
            if k.value == '__class__' and ast.unparse(v) == \
                    'self.__class__.__name__':
                has_class = True
    loops = literal_loop_names(td)
    oname = 'out'
    par = au.parent(d)
    if isinstance(par, ast.Assign) and isinstance(par.targets[0], ast.Name):
        oname = par.targets[0].id
    for n in ast.walk(td):
        if isinstance(n, ast.Assign):
            for t in n.targets:
                if isinstance(t, ast.Subscript) and ast.unparse(t.value) == \
                        oname:
                    if isinstance(t.slice, ast.Constant):
                        keys.add(t.slice.value)
                    elif isinstance(t.slice, ast.Name) and t.slice.id in loops:
                        keys |= set(loops[t.slice.id])
    return keys, has_class


def consumed_keys(fd):
    """(popped keys, passes remainder to cls(**x)?, explicit keywords,
    cls_inp keys)"""
    loops = literal_loop_names(fd)
    popped = set()
    p0_ = au.params(fd)[1] if len(au.params(fd)) > 1 else 'inp'

    def _is_filter(node):
        return isinstance(node, ast.DictComp) and isinstance(
            node.generators[0].iter, ast.Call) and ast.unparse(
                node.generators[0].iter.func) in {f'{a_}.items'
                                                  for a_ in aliases}
    # names that stand for the input dictionary (itself, a copy, or the
    # input without its '__class__' entry)
    aliases = {p0_}
    grew = True
    while grew:
        grew = False
        for n in ast.walk(fd):
            if isinstance(n, ast.Assign) and len(n.targets) == 1 and \
                    isinstance(n.targets[0], ast.Name) and \
                    n.targets[0].id not in aliases:
                v = n.value
                if _is_filter(v) or (isinstance(v, ast.Name) and
                                     v.id in aliases) or (
                        isinstance(v, ast.Call) and ast.unparse(v.func) in
                        {'dict'} | {f'{a_}.copy' for a_ in aliases} and (
                            not v.args or ast.unparse(v.args[0]) in aliases)):
                    aliases.add(n.targets[0].id)
                    grew = True
    for n in ast.walk(fd):
        if isinstance(n, ast.Call) and isinstance(n.func, ast.Attribute) and \
                n.func.attr == 'pop' and ast.unparse(n.func.value) in \
                aliases and n.args:
            a = n.args[0]
            if isinstance(a, ast.Constant):
                popped.add(a.value)
            elif isinstance(a, ast.Name) and a.id in loops:
                popped |= set(loops[a.id])
    ctor = [n for n in ast.walk(fd) if isinstance(n, ast.Call) and
            ast.unparse(n.func) == 'cls']
    if len(ctor) != 1:
        raise AnalysisError('from_dict: constructor call not found')
    c = ctor[0]
    kw = {k.arg for k in c.keywords if k.arg}
    p0 = au.params(fd)[1] if len(au.params(fd)) > 1 else 'inp'

    def is_filter(node):
        """{k: v for k, v in <input>.items() [if k != '__class__']}"""
        return isinstance(node, ast.DictComp) and isinstance(
            node.generators[0].iter, ast.Call) and ast.unparse(
                node.generators[0].iter.func) == f'{p0}.items'
    remainder = False
    via = []
    for k in c.keywords:
        if k.arg is not None:
            continue
        v = k.value
        if is_filter(v):
            remainder = True
        elif isinstance(v, ast.Name):
            if v.id in aliases:
                remainder = True
            else:
                via.append(v.id)
    passed = set()
    for v in via:
        for n in ast.walk(fd):
            if isinstance(n, ast.Assign):
                for t in n.targets:
                    if isinstance(t, ast.Subscript) and ast.unparse(
                            t.value) == v and isinstance(t.slice,
                                                         ast.Constant):
                        passed.add(t.slice.value)
                    if ast.unparse(t) == v and isinstance(n.value,
                                                          ast.DictComp):
                        g = n.value.generators[0]
                        vals = au.const_list(g.iter)
                        if vals is None and isinstance(g.iter, ast.Name):
                            for m in ast.walk(fd):
                                if isinstance(m, ast.Assign) and \
                                        ast.unparse(m.targets[0]) == \
                                        g.iter.id:
                                    vals = au.const_list(m.value)
                        passed |= set(vals or [])
    return popped, remainder, kw, passed


UNWRAP_ATTR = ('data', 'values')
UNWRAP_CALL = ('float', 'complex', 'int', 'np.asarray', 'np.array',
               'np.float64')


def xr_typed(e, env):
    """Is the value of expression `e` an xarray object?  (Axiom A8: reading a
    variable of the survey Dataset gives a DataArray; arithmetic, numpy
    reductions and ufuncs of a DataArray give a DataArray; `.data`,
    `.values`, `.item()`, `float()` ... unwrap.)"""
    if isinstance(e, ast.Name):
        return env.get(e.id, False)
    if isinstance(e, ast.Attribute):
        if e.attr in UNWRAP_ATTR:
            return False
        base = ast.unparse(e.value)
        if base in ('self.data', 'self.survey.data', 'self._data'):
            return True
        return xr_typed(e.value, env) if e.attr in (
            'real', 'imag', 'T') else False
    if isinstance(e, ast.Subscript):
        base = ast.unparse(e.value)
        if base in ('self.data', 'self.survey.data', 'self._data'):
            return True
        return xr_typed(e.value, env)
    if isinstance(e, ast.BinOp):
        return xr_typed(e.left, env) or xr_typed(e.right, env)
    if isinstance(e, ast.UnaryOp):
        return xr_typed(e.operand, env)
    if isinstance(e, ast.Call):
        f = ast.unparse(e.func)
        if f in UNWRAP_CALL:
            return False
        if f.startswith('np.') or f.startswith('numpy.'):
            return any(xr_typed(a, env) for a in e.args)
        if isinstance(e.func, ast.Attribute):
            if e.func.attr in ('item', 'to_numpy', 'tolist'):
                return False
            if e.func.attr in ('conj', 'sum', 'copy', 'where', 'sel', 'loc',
                               'mean', 'real', 'imag', 'astype'):
                return xr_typed(e.func.value, env)
        if f.startswith('np.'):
            return any(xr_typed(a, env) for a in e.args)
    return False


def rule_K2_plain(ctx):
    """What Simulation.to_dict emits under 'misfit' is written by all three
    back ends and read back as a plain number (h5: numpy scalar, npz: 0-d
    array, json: float).  So (a) the cached value must be a plain number, not
    an xarray object (json cannot write it), and (b) the getter must return it
    in a way that works for a plain number (`.data` of a number is a
    memoryview)."""
    sm = ctx.repo.mod('emg3d/simulations.py')
    mf = [m for m in sm.methods('Simulation', 'misfit')
          if 'property' in au.decorator_names(m)]
    ctx.anchor(len(mf) == 1, 'Simulation.misfit getter')
    g = mf[0]
    env = {}
    stores = []
    for st in sorted((n for n in ast.walk(g) if isinstance(n, ast.Assign)),
                     key=lambda n: (n.lineno, n.col_offset)):
        if True:
            v = xr_typed(st.value, env)
            for t in st.targets:
                if isinstance(t, ast.Name):
                    env[t.id] = v
                elif ast.unparse(t) == 'self._misfit':
                    stores.append((st, v))
    ctx.anchor(len(stores) >= 1, 'store of self._misfit in the getter')
    for st, v in stores:
        ctx.check('C17.K2.plain', 'Simulation.misfit: cached value is a plain '
                  'number', not v, f'`{au.stext(st)[:70]}` caches an xarray '
                  "object; to_dict emits it under 'misfit': the json back end "
                  'cannot write it and h5/npz give back a number of another '
                  'type', ctx.where(sm, st))
    for r in [n for n in ast.walk(g) if isinstance(n, ast.Return) and n.value
              is not None]:
        txt = ast.unparse(r.value)
        ok = txt == 'self._misfit' or txt in (
            'float(self._misfit)', 'np.asarray(self._misfit)',
            'np.float64(self._misfit)')
        ctx.check('C17.K2.plain', 'Simulation.misfit: getter works for a '
                  'reloaded value', ok, f'the getter returns `{txt}`; after '
                  'from_dict/from_file `_misfit` is a plain number (its '
                  '`.data` is a memoryview)', ctx.where(sm, r))


def rule_K1_K2(ctx, C):
    um = ctx.repo.mod(UTILS)
    reg = um.func('_known_class')
    ctx.check('C17.K1.registry', 'utils._known_class key',
              '_KNOWN_CLASSES[func.__name__] = func' in ast.unparse(reg),
              'registry is not keyed by the class name', ctx.where(um, reg))
    known = [n for n, (m, c) in C.cls.items()
             if any('_known_class' in d for d in au.decorator_names(c))]
    for name in sorted(known):
        m, c = C.cls[name]
        tm, td = C.method(name, 'to_dict')
        fm, fd = C.method(name, 'from_dict')
        im, init = C.method(name, '__init__')
        ok = td is not None and fd is not None and init is not None
        ctx.check('C17.K1.class', f'{name}: to_dict / from_dict', ok,
                  f'registered class {name} lacks to_dict or from_dict',
                  ctx.where(m, c))
        if not ok:
            continue
        E, has_class = emitted_keys(C, name, td)
        ctx.check('C17.K1.class', f"{name}: '__class__' tag", has_class,
                  "to_dict does not emit '__class__': class name (load cannot "
                  'dispatch)', ctx.where(tm, td))
        P, remainder, kw, passed = consumed_keys(fd)
        params = set(au.all_params(init)) - {'self'}
        A = params | C.kwargs_pops(name)
        body = E - {'__class__'}
        if remainder:
            R = body - P
            bad = R - A
            ctx.check('C17.K2.accepted', f'{name}: emitted keys accepted by '
                      '__init__', not bad, f'to_dict emits {sorted(bad)} '
                      'which from_dict passes on to __init__, but __init__ '
                      f'accepts only {sorted(A)}', ctx.where(tm, td),
                      sample={'class': name, 'emitted': sorted(body),
                              'accepted': sorted(A)})
            given = R | kw
        else:
            lost = body - P
            ctx.check('C17.K2.accepted', f'{name}: emitted keys consumed by '
                      'from_dict', not lost, f'to_dict emits {sorted(lost)} '
                      'which from_dict never reads (lost on a round trip)',
                      ctx.where(fm, fd),
                      sample={'class': name, 'emitted': sorted(body),
                              'consumed': sorted(P)})
            bad = (passed | kw) - A
            ctx.check('C17.K2.accepted', f'{name}: from_dict arguments '
                      'accepted by __init__', not bad,
                      f'from_dict passes {sorted(bad)} that __init__ does '
                      'not accept', ctx.where(fm, fd))
            given = passed | kw
        # popped keys must have been emitted
        ghost = {p for p in P if p not in E}
        ctx.check('C17.K2.accepted', f'{name}: from_dict reads only emitted '
                  'keys', not ghost, f'from_dict expects {sorted(ghost)} '
                  'which to_dict never emits', ctx.where(fm, fd))
        # completeness: constructor inputs are emitted
        missing = {a for a in A - {'kwargs', 'inp'}
                   if a not in E and a not in given
                   and (name, a) not in NOT_EMITTED}
        # h (TensorMesh) is emitted as hx, hy, hz
        if name == 'TensorMesh':
            missing -= {'h'} if {'hx', 'hy', 'hz'} <= E else set()
        ctx.check('C17.K2.complete', f'{name}: constructor inputs emitted',
                  not missing, f'__init__ inputs {sorted(missing)} are not '
                  'written by to_dict (state lost on save/copy)',
                  ctx.where(tm, td), sample={'class': name,
                                             'init_inputs': sorted(A)})
        # serialised names are attributes
        for attr in ('_serialize', '_properties'):
            for nm in sorted(C.name_set(name, attr)):
                ctx.check('C17.K2.attrs', f'{name}.{nm}', C.has_attr(name, nm),
                          f'`{nm}` is listed in {attr} but is no attribute / '
                          f'property of {name}', ctx.where(m, c))
    ctx.need(len(known) >= 12, f'only {len(known)} registered classes found')
    ctx.floor('C17.K1.class', 24)
    ctx.floor('C17.K2.accepted', 24)
    ctx.floor('C17.K2.complete', 12)
    return known


def string_consts(fn):
    doc = ast.get_docstring(fn, clean=False)
    return [n.value for n in ast.walk(fn) if isinstance(n, ast.Constant)
            and isinstance(n.value, str) and n.value != doc]


def rule_K3_K4(ctx):
    io = ctx.repo.mod(IO)
    save, load = io.func('save'), io.func('load')

    def exts(fn):
        out = []
        for c in ast.walk(fn):
            if isinstance(c, ast.Call) and isinstance(c.func, ast.Attribute) \
                    and c.func.attr == 'endswith' and c.args and isinstance(
                        c.args[0], ast.Constant):
                out.append(c.args[0].value)
        return out
    se, le = exts(save), exts(load)
    ctx.check('C17.K3.formats', 'save/load extensions', set(se) == set(le)
              == {'.npz', '.h5', '.json'} and len(se) == len(le) == 3,
              f'save dispatches on {se}, load on {le}', ctx.where(io, save),
              sample={'save': se, 'load': le})
    # per format: writer / reader pair
    pairs = {'.npz': ('_dict_flatten', '_dict_unflatten'),
             '.h5': ('_hdf5_dump', '_hdf5_load'),
             '.json': ('_dict_dearray_decomp', '_dict_array_comp')}

    def arm_calls(fn, ext):
        for n in ast.walk(fn):
            if isinstance(n, ast.If) and f"endswith('{ext}')" in ast.unparse(
                    n.test):
                return {ast.unparse(c.func) for s in n.body
                        for c in ast.walk(s) if isinstance(c, ast.Call)}
        return set()
    for ext, (w, r) in pairs.items():
        ctx.check('C17.K3.formats', f'{ext}: writer {w} / reader {r}',
                  w in arm_calls(save, ext) and r in arm_calls(load, ext),
                  f'the {ext} arms of save/load do not use the sibling pair '
                  f'{w}/{r}', ctx.where(io, save))
    # JSON tags
    wj, rj = io.func('_dict_dearray_decomp'), io.func('_dict_array_comp')
    wtags = [s for s in string_consts(wj) if s.startswith('__')]
    rtags = [s for s in string_consts(rj) if s.startswith('__')]
    ctx.check('C17.K3.tags', 'JSON tags writer', wtags == ['__complex',
                                                          '__array-'],
              f'writer tags {wtags}: complex must be tagged before the array '
              'tag is appended', ctx.where(io, wj), sample={'tags': wtags})
    ok = [t for t in rtags if t in ('__array', '__complex', '__')] and \
        all(any(w.startswith(t) for w in wtags) or t == '__' for t in rtags) \
        and '__array' in rtags and '__complex' in rtags and \
        rtags.index('__array') < rtags.index('__complex')
    ctx.check('C17.K3.tags', 'JSON tags reader', bool(ok),
              f'reader looks for {rtags}; it must strip the array tag first '
              'and then the complex tag, using the literals of the writer '
              f'{wtags}', ctx.where(io, rj), sample={'tags': rtags})
    at = find("_t_ = _k_.split('__')[-1]", rj)
    ok = False
    if len(at) == 1:
        from ..core.template import same as _same
        for n_, b_ in find('_v_ = np.asarray(_v_, dtype=_d_, order=__)', rj):
            dv = [k_.value for k_ in n_.value.keywords if k_.arg == 'dtype']
            tv = ast.unparse(au.value_of(ast.Name(at[0][1]['_t_'],
                                                  ast.Load()), rj))
            if dv and _same(f'getattr(np, ({tv})[6:])',
                            au.value_of(dv[0], rj)) is not None:
                ok = True
    ctx.check('C17.K3.tags', 'JSON dtype recovered from the tag', ok,
              'array dtype is not read back from the `__array-<dtype>` tag '
              "(the tag is '__array-' + dtype name: 6 characters + '-')",
              ctx.where(io, rj))
    ctx.check('C17.K3.tags', 'JSON dtype written into the tag',
              has("_k_ += '__array-' + _v_.dtype.name", wj),
              'array tag does not carry the dtype name', ctx.where(io, wj))
    ctx.check('C17.K3.tags', 'JSON complex split real/imag',
              has('_v_ = np.stack([np.asarray(_v_).real, '
                  'np.asarray(_v_).imag])', wj) and
              has('_v_ = np.asarray(_v_)[0, ...] + 1j * '
                  'np.asarray(_v_)[1, ...]', rj),
              'complex arrays are not split/joined as (real, imag) pairs '
              'consistently', ctx.where(io, wj))
    # the reader undoes exactly what the writer did: every re-binding of the
    # value in the reader loop is one of the three inverse steps, under the
    # tag that the writer set for it (anything else changes what is returned
    # for some inputs only, e.g. by size or dtype)
    rl = [n for n in rj.body if isinstance(n, ast.For)]
    ctx.anchor(len(rl) == 1 and isinstance(rl[0].target, ast.Tuple),
               'key/value loop of _dict_array_comp')
    kname, vname = (x.id for x in rl[0].target.elts)
    allowed = (
        (f'{vname} = _dict_array_comp({vname})', f'isinstance({vname}, dict)'),
        (f'{vname} = np.asarray({vname}, dtype=__, order=__)',
         f"'__array' in {kname}"),
        (f'{vname} = np.asarray({vname})[0, ...] + 1j * '
         f'np.asarray({vname})[1, ...]', f"'__complex' in {kname}"),
    )
    for st_ in ast.walk(rl[0]):
        if isinstance(st_, (ast.Assign, ast.AugAssign)) and any(
                isinstance(t, ast.Name) and t.id == vname or
                isinstance(t, ast.Subscript) and isinstance(t.value, ast.Name)
                and t.value.id == vname
                for t in (st_.targets if isinstance(st_, ast.Assign)
                          else [st_.target])):
            gs = [ast.unparse(t) for t, pol in au.guards_of(st_, rj) if pol]
            ok = any(has(tp, st_) and gs == [g] for tp, g in allowed)
            ctx.check('C17.K3.tags', f'JSON reader step `{au.stext(st_)[:50]}`',
                      ok, f'under {gs}: this re-binding of the value is not '
                      'the inverse of a writer step (recursion, array tag, '
                      'complex tag); the loaded value differs from the saved '
                      'one for the inputs it applies to', ctx.where(io, st_))
    # None sentinel
    ser, non = io.func('_dict_serialize'), io.func('_nonetype_to_none')
    s1 = [s for s in string_consts(ser) if 'None' in s]
    s2 = [s for s in string_consts(non) if 'None' in s]
    ctx.check('C17.K3.sentinel', 'None sentinel', s1 == s2 == ['NoneType'],
              f'writer uses {s1}, reader {s2}', ctx.where(io, ser),
              sample={'writer': s1, 'reader': s2})
    fl, un = io.func('_dict_flatten'), io.func('_dict_unflatten')
    f1 = [s for f in io.scope(fl) for s in string_consts(f) if len(s) == 1]
    f2 = [s for f in io.scope(un) for s in string_consts(f) if len(s) == 1]
    ctx.check('C17.K3.sentinel', 'npz key separator', f1 == f2 == ['>'],
              f'flatten joins with {f1}, unflatten splits at {f2}',
              ctx.where(io, fl), sample={'writer': f1, 'reader': f2})
    # load post-processing order
    calls = [ast.unparse(c.func) for c in au.calls(load)]
    ctx.check('C17.K4.recursion', 'load: sentinel then deserialise',
              '_nonetype_to_none' in calls and '_dict_deserialize' in calls
              and calls.index('_nonetype_to_none') <
              calls.index('_dict_deserialize'),
              'load does not restore None before rebuilding the objects',
              ctx.where(io, load))
    ctx.check('C17.K4.recursion', 'save: serialise first',
              has('_d_ = _dict_serialize(kwargs)', save),
              'save does not serialise its input through _dict_serialize',
              ctx.where(io, save))
    ctx.check('C17.K4.recursion', '_dict_serialize',
              has('_v_ = _v_.to_dict()', ser) and
              has('_v_ = _dict_serialize(_v_)', ser) and
              has('isinstance(_v_, tuple(utils._KNOWN_CLASSES.values()))',
                  ser) and has('_o_[str(_k_)] = _v_', ser),
              'serialisation does not call to_dict of registered classes and '
              'recurse into dictionaries', ctx.where(io, ser))
    des = io.func('_dict_deserialize')
    dp = au.params(des)
    cl = find("_c_ = utils._KNOWN_CLASSES[_v_['__class__']]", des)
    ok = len(cl) == 1 and has(
        f'{dp[0]}[_k_] = {cl[0][1]["_c_"]}.from_dict({cl[0][1]["_v_"]})',
        des) and (has(f'_dict_deserialize({cl[0][1]["_v_"]})', des) or
                  has(f'_dict_deserialize({cl[0][1]["_v_"]}, **__)', des))
    ctx.check('C17.K4.recursion', '_dict_deserialize', ok,
              'de-serialisation does not dispatch on __class__ through the '
              'registry and recurse', ctx.where(io, des))
    h5_order(ctx, 'C17.K3.h5order')
    cv = io.func('convert')
    ps = au.params(cv)
    ld = find(f'_d_ = load({ps[0]}, **kwargs)', cv)
    ctx.check('C17.K4.convert', 'convert = save(**load())',
              len(ld) == 1 and has(f'save({ps[1]}, **{ld[0][1]["_d_"]})', cv)
              and len(au.body_nodoc(cv)) == 2,
              'convert is not save(ofname, **load(ifname))',
              ctx.where(io, cv))
    ctx.floor('C17.K3.formats', 4)
    ctx.floor('C17.K3.tags', 4)
    ctx.floor('C17.K3.sentinel', 2)


def h5_order(ctx, rule):
    """HDF5 groups keep insertion order only with track_order=True (axiom
    about h5py: otherwise members come back in alphabetical order, which
    permutes the name -> data association of the survey dictionaries: a
    re-loaded survey / simulation reports its data under the wrong source,
    receiver and frequency names).  Shared by C12 and C13 (a re-loaded
    simulation / survey equals the original)."""
    io = ctx.repo.mod('emg3d/io.py')
    hd = io.func('_hdf5_dump')
    groups = [c for c in ast.walk(hd) if isinstance(c, ast.Call) and
              isinstance(c.func, ast.Attribute) and
              c.func.attr == 'create_group']
    ctx.anchor(len(groups) >= 1, 'create_group in _hdf5_dump')
    for c in groups:
        kws = {k.arg: ast.unparse(k.value) for k in c.keywords}
        ctx.check(rule, f'_hdf5_dump `{ast.unparse(c)[:50]}`',
                  kws.get('track_order') == 'True',
                  'HDF5 groups are created without track_order=True: nested '
                  'dictionaries are reloaded in alphabetical, not insertion '
                  'order (survey dictionaries no longer match the data axes)',
                  ctx.where(io, c))
    # the same for JSON (sort_keys) and for any writer / reader helper that
    # sorts the items of a dictionary
    sv = io.func('save')
    dumps = [c for c in ast.walk(sv) if isinstance(c, ast.Call) and
             ast.unparse(c.func) in ('json.dump', 'json.dumps')]
    ctx.anchor(len(dumps) >= 1, 'json.dump in save')
    for c in dumps:
        kws = {k.arg: ast.unparse(k.value) for k in c.keywords}
        ctx.check(rule, f'save `{ast.unparse(c.func)}` keeps the key order',
                  kws.get('sort_keys', 'False') == 'False' and
                  None not in kws,
                  'JSON is written with sort_keys (or with options the '
                  'analysis cannot see): dictionaries are reloaded in '
                  'alphabetical order, the names of sources / receivers / '
                  'frequencies no longer match the data axes',
                  ctx.where(io, c))
    for name in ('save', 'load', '_dict_serialize', '_dict_deserialize',
                 '_dict_flatten', '_dict_unflatten', '_dict_dearray_decomp',
                 '_dict_array_comp', '_hdf5_dump', '_hdf5_load',
                 '_nonetype_to_none'):
        f0 = io.func(name)
        for f in io.scope(f0):
            srt = [c for c in ast.walk(f) if isinstance(c, ast.Call) and (
                ast.unparse(c.func) == 'sorted' or (
                    isinstance(c.func, ast.Attribute) and
                    c.func.attr == 'sort')) and any(
                        isinstance(x, ast.Attribute) and x.attr in (
                            'items', 'keys') for x in ast.walk(c))]
            ctx.check(rule, f'{f.name}: dictionaries are walked in their own '
                      'order', not srt, 'the items of a dictionary are '
                      'sorted on the way to / from the file: the order of '
                      'the survey dictionaries (= the data axes) is lost',
                      ctx.where(io, srt[0] if srt else f))


def rule_oneshot(ctx):
    """Simulation.to_file hands `what` to to_dict through a one-shot
    attribute; to_dict must consume (delete) it on every path that reads it,
    otherwise later to_dict/copy/save calls silently use the old value."""
    sm = ctx.repo.mod('emg3d/simulations.py')
    tf = sm.method('Simulation', 'to_file')
    sets = [n for n in ast.walk(tf) if isinstance(n, ast.Assign) and any(
        isinstance(t, ast.Attribute) and ast.unparse(t.value) == 'self'
        for t in n.targets)]
    for st in sets:
        attr = st.targets[0].attr
        td = sm.method('Simulation', 'to_dict')
        from ..core.cfg import CFG
        cfg = CFG(td)
        reads = [n for n in cfg.nodes if n.ast is not None and n.kind in (
            'stmt', 'test') and any(
                (isinstance(x, ast.Attribute) and x.attr == attr and
                 isinstance(x.ctx, ast.Load)) or
                (isinstance(x, ast.Constant) and x.value == attr and
                 isinstance(au.parent(x), ast.Call) and ast.unparse(
                     au.parent(x).func) == 'getattr')
                for x in ast.walk(n.ast))]
        dels = [n for n in cfg.nodes if n.kind == 'stmt' and n.ast is not None
                and ((isinstance(n.ast, ast.Expr) and isinstance(
                    n.ast.value, ast.Call) and ast.unparse(
                        n.ast.value.func) == 'delattr' and
                    f"'{attr}'" in ast.unparse(n.ast.value)) or
                    (isinstance(n.ast, ast.Delete) and attr in
                     ast.unparse(n.ast)))]
        ok = bool(reads) and bool(dels)
        if ok:
            import networkx as nx
            g = cfg.graph()
            g.remove_nodes_from(dels)
            for r in reads:
                if r in g and cfg.exit in nx.descendants(g, r):
                    ok = False
        ctx.check('C17.K4.oneshot', f'Simulation.to_dict consumes '
                  f'self.{attr}', ok, f'`{attr}` set by to_file is read by '
                  'to_dict but not deleted on every path: a later '
                  'to_dict/copy/save silently re-uses the old `what`',
                  ctx.where(sm, td), sample={'attribute': attr})
    ctx.floor('C17.K4.oneshot', 1)


def run(ctx):
    ctx.explanation = (
        'Key sets are extracted per registered class (to_dict literals, '
        '_serialize/_properties through the MRO, subscript stores from '
        'literal loops) and compared with what from_dict pops / forwards and '
        'what __init__ accepts (parameters and kwargs.pop literals); format '
        'dispatch, JSON tags, sentinels and separators are compared between '
        'the writer and reader functions of io.py.')
    ctx.assumptions = ['value/dtype preservation inside h5py / numpy / json '
                       'is not decided']
    C = Classes(ctx)
    known = rule_K1_K2(ctx, C)
    rule_K2_plain(ctx)
    from . import c12
    sm_ = ctx.repo.mod('emg3d/simulations.py')
    # gridding_opts may BE a mesh (gridding='input') or a dict of meshes
    # (gridding='dict'): _set_model binds it to the grid attributes.  The
    # file back ends write such objects as tagged dicts, and load() calls
    # Simulation.from_dict before it looks at nested entries, so from_dict
    # itself has to rebuild them
    stm = sm_.method('Simulation', '_set_model')
    gk = find("_g_ = kwargs.pop('gridding_opts', __)", stm)
    ctx.anchor(len(gk) == 1, 'gridding_opts in Simulation._set_model')
    G_ = gk[0][1]['_g_']
    mesh_valued = has(f'self._grid_single = {G_}', stm) or has(
        f'self._dict_grid = {G_}', stm)
    fdm = sm_.method('Simulation', 'from_dict')
    handled = False
    for n_ in ast.walk(fdm):
        if isinstance(n_, ast.Call) and ast.unparse(n_.func) in (
                'io._dict_deserialize', 'meshes.TensorMesh.from_dict') and \
                'gridding_opts' in ast.unparse(n_):
            handled = True
        if isinstance(n_, ast.Call) and ast.unparse(n_.func) == \
                'io._dict_deserialize' and n_.args and isinstance(
                    n_.args[0], ast.Name):
            nm_ = n_.args[0].id
            if any(isinstance(a_, ast.Assign) and ast.unparse(
                    a_.targets[0]) == nm_ and 'gridding_opts' in
                    ast.unparse(a_.value) for a_ in ast.walk(fdm)):
                handled = True
    ctx.check('C17.K2.accepted', 'Simulation.from_dict: gridding_opts '
              'de-serialised', handled or not mesh_valued,
              'gridding_opts can hold a TensorMesh (gridding=input) or a '
              'dictionary of meshes (gridding=dict); after a save they are '
              'tagged dicts, which from_dict hands to the constructor as '
              'they are: the simulation cannot be loaded from any format',
              ctx.where(sm_, fdm))
    c12.to_dict_tol(ctx, sm_, sm_.method('Simulation', 'to_dict'),
                    'C17.K2.plain')
    c12.plain_strip(ctx, sm_, sm_.method('Simulation', 'to_dict'),
                    'C17.K2.plain')
    # the constructor keeps the data as given: no dtype cast of the data
    # sets (real-valued noise arrays / standard deviations must stay real)
    su_ = ctx.repo.mod('emg3d/surveys.py')
    idt = su_.method('Survey', '_initiate_dataset')
    ctx.check('C17.K2.plain', 'Survey._initiate_dataset: data sets stored as '
              'given', has('{_k_: xarray.DataArray(_v_, dims=_d_) for _k_, '
                           '_v_ in _data_.items()}', idt),
              'the data sets are converted (cast / copied into another dtype) '
              'when the Dataset is built: real-valued sets (noise floor, '
              'relative error, standard deviation) come back with another '
              'dtype after from_dict / load / copy', ctx.where(su_, idt))
    ctx.extra['registered_classes'] = sorted(known)
    rule_K3_K4(ctx)
    rule_oneshot(ctx)
    # the flag of an array-valued noise setting must find its array after
    # loading (rule of C13, shared)
    from .c13 import flag_arm_keeps_array
    flag_arm_keeps_array(ctx, 'C17.K2.plain')
    # classes that store a grid write it as an emg3d TensorMesh (the
    # documented workaround for plain discretize meshes, whose own
    # dictionary the readers do not understand): siblings must agree
    from ..core.template import has as _has
    for rel_, cname in (('emg3d/models.py', 'Model'),
                        ('emg3d/fields.py', 'Field')):
        m_ = ctx.repo.mod(rel_)
        td_ = m_.method(cname, 'to_dict')
        ctx.check('C17.K2.plain', f'{cname}.to_dict writes its grid as an '
                  'emg3d mesh', _has(
                      'meshes.TensorMesh(self.grid.h, self.grid.origin)'
                      '.to_dict()', td_),
                  f'{cname}.to_dict stores `self.grid.to_dict()` of whatever '
                  'mesh class the grid is: for a discretize mesh that is a '
                  'foreign dictionary, which save rejects or load cannot '
                  'turn back into the object', ctx.where(m_, td_))
