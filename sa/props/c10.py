"""C10 - sources inject exactly their nominal moment (structural clauses).

Rules (DESIGN.md 4/C10):
  SF  get_source_field: type dispatch, strength, guarded -s mu0 scaling
  DV  _dipole_vector: weight/index pairing of the 12 stores, linear weights,
      per-component partition of unity (sum = clipped length fraction),
      normalisation guard for all components, axis pairing of the scaling,
      segment-wise summation of wires
  GE  electrode geometry: point_to_dipole = centre -/+ direction*L/2; square
      loop closed, area = 2 half_diag^2, right-handed normal = direction;
      dipole_to_point formulas; coordinate formats of Dipole
"""
import ast

import sympy as sp

from ..core import astutil as au
from ..core.report import AnalysisError
from ..expr.lift import Lifter, equal
from .c09 import pairing_table, rule_RO

LEVEL = 'other'
FIELDS = 'emg3d/fields.py'
ELEC = 'emg3d/electrodes.py'


def rule_SF(ctx, fm):
    fn = fm.func('get_source_field')
    ps = au.params(fn)
    chain = [n for n in fn.body if isinstance(n, ast.If) and
             'isinstance' in ast.unparse(n.test) and 'vfield' in
             ast.unparse(n)]
    ctx.anchor(len(chain) == 1, 'vector-function dispatch in '
               'get_source_field')
    table = []
    node = chain[0]
    while True:
        st = [s for s in node.body if isinstance(s, ast.Assign)][0]
        table.append((ast.unparse(node.test).replace(' ', ''),
                      ast.unparse(st.value).replace(' ', '')))
        if len(node.orelse) == 1 and isinstance(node.orelse[0], ast.If):
            node = node.orelse[0]
        else:
            els = [s for s in node.orelse if isinstance(s, ast.Assign)]
            table.append(('else', ast.unparse(els[0].value).replace(' ', '')
                          if els else None))
            break
    g, s, f = ps[0], ps[1], ps[2]
    want = [(f'isinstance({s},electrodes.TxElectricPoint)',
             f'_point_vector({g},{s}.coordinates)'),
            (f'isinstance({s},electrodes.TxMagneticPoint)',
             f'_point_vector_magnetic({g},{s}.coordinates,{f})'),
            ('else', f'_dipole_vector({g},{s}.points)')]
    ctx.check('C10.SF.dispatch', 'get_source_field dispatch table',
              table == want, f'dispatch is {table}', ctx.where(fm, chain[0]),
              sample={'table': table})
    t = ast.unparse(fn).replace(' ', '')
    ctx.check('C10.SF.scaling', 'get_source_field: field from the vector',
              f'sfield=Field({g},data=vfield.field,frequency={f})' in t,
              'source field is not built from the source vector on this '
              'grid / frequency', ctx.where(fm, fn))
    ctx.check('C10.SF.scaling', 'get_source_field: times strength',
              f'sfield.field*={s}.strength' in t,
              'source vector is not multiplied by the source strength',
              ctx.where(fm, fn))
    sc = [n for n in ast.walk(fn) if isinstance(n, ast.AugAssign) and
          'smu0' in ast.unparse(n.value)]
    ok = len(sc) == 1 and ast.unparse(sc[0]).replace(' ', '') == \
        'sfield.field*=-sfield.smu0' and [
            (ast.unparse(t_).replace(' ', ''), p) for t_, p in
            au.guards_of(sc[0], fn)] == [(f'{f}isnotNone', True)]
    ctx.check('C10.SF.scaling', 'get_source_field: -s mu0 only with a '
              'frequency', ok, 'scaling by -s mu0 is missing, has another '
              'sign, or is not guarded by `frequency is not None`',
              ctx.where(fm, fn))
    # tuple input -> electrode objects
    ctx.check('C10.SF.dispatch', 'get_source_field: coordinate input',
              f"{s}=electrodes.TxElectricWire({s},**inp)" in t and
              f"{s}=electrodes.TxElectricDipole({s},**inp)" in t and
              f"{s}=electrodes.TxMagneticDipole({s},**inp)" in t and
              f"if{s}.size>6:" in t,
              'coordinate tuples are not turned into wire / electric / '
              'magnetic dipole sources', ctx.where(fm, fn))


def rule_DV(ctx, fm):
    fn = fm.func('_dipole_vector')
    stores = {c: [] for c in ('fx', 'fy', 'fz')}
    for n in ast.walk(fn):
        if isinstance(n, ast.AugAssign) and isinstance(n.target,
                                                       ast.Subscript) and \
                isinstance(n.target.value, ast.Attribute) and \
                n.target.value.attr in stores and ast.unparse(
                    n.target.value.value) == 'vfield' and isinstance(
                        n.op, ast.Add):
            stores[n.target.value.attr].append(n)
    lower = ['ix', 'iy', 'iz']
    rs = [sp.Symbol(f'r{a}') for a in range(3)]
    L = sp.Symbol('x_len')
    for a, comp in enumerate(('fx', 'fy', 'fz')):
        ctx.check('C10.DV.pairing', f'_dipole_vector: four stores to {comp}',
                  len(stores[comp]) == 4, f'{len(stores[comp])} stores to '
                  f'{comp} (4 expected)', ctx.where(fm, fn))
        axes = {}
        for t in range(3):
            if t == a:
                continue
            axes[t] = {'lower': lower[t], 'upper': lower[t] + '+1',
                       'e': 'e' + 'xyz'[t], 'r': 'r' + 'xyz'[t]}
        combos = pairing_table(ctx, 'C10.DV.pairing', fm, fn, stores[comp],
                               axes, f'_dipole_vector {comp}')
        for st in stores[comp]:
            idx = [ast.unparse(e).replace(' ', '')
                   for e in st.target.slice.elts]
            ctx.check('C10.DV.pairing', f'_dipole_vector {comp} along-axis '
                      f'index `{au.stext(st)[:40]}`', idx[a] == lower[a],
                      f'{comp} is stored at {idx[a]} along its own axis',
                      ctx.where(fm, st))
        ctx.check('C10.DV.unity', f'_dipole_vector {comp}: 4 corners once',
                  len({c for c, _ in combos}) == 4,
                  'the four stores do not address the four edges of the '
                  'cell once each', ctx.where(fm, fn))
        total = 0
        for st in stores[comp]:
            env = {'x_len': L}
            for t in range(3):
                env['r' + 'xyz'[t]] = rs[t]
                env['e' + 'xyz'[t]] = 1 - rs[t]
            total = total + Lifter(env, {}, fm.rel, strict=True).lift(
                st.value)
        ctx.check('C10.DV.unity', f'_dipole_vector {comp}: weights sum to '
                  'the clipped length fraction', equal(total, L),
                  f'sum of the four weights is {sp.expand(total)}, not '
                  'x_len', ctx.where(fm, fn),
                  sample={'component': comp, 'sum': str(sp.simplify(total))})
    ctx.floor('C10.DV.pairing', 27)
    # linear weights
    t = ast.unparse(fn).replace(' ', '')
    for a, ax in enumerate('xyz'):
        ok = f'r{ax}=(x_c[{a}]-nodes_{ax}[i{ax}])/grid.h[{a}][i{ax}]' in t \
            and f'e{ax}=1-r{ax}' in t
        ctx.check('C10.DV.linear', f'_dipole_vector weights axis {ax}', ok,
                  f'weights of axis {ax} are not r=(x_c-node)/h, e=1-r of '
                  'the same axis', ctx.where(fm, fn))
    ctx.check('C10.DV.linear', '_dipole_vector segment centre and length',
              'x_c=(xmin+xmax)/2.0' in t and
              'x_len=np.linalg.norm(xmax-xmin)/length' in t and
              'xmin=points[0,:]+al*dxdydz' in t and
              'xmax=points[0,:]+ar*dxdydz' in t,
              'clipped segment centre / length fraction changed',
              ctx.where(fm, fn))
    # normalisation guard for all three components, then scaling
    loops = [n for n in fn.body if isinstance(n, ast.For) and
             'sum_s' in ast.unparse(n)]
    ctx.anchor(len(loops) == 1, 'normalisation loop in _dipole_vector')
    lp = ast.unparse(loops[0]).replace(' ', '')
    ctx.check('C10.DV.normalise', '_dipole_vector normalisation guard',
              'forfieldin[vfield.fx,vfield.fy,vfield.fz]:' in lp and
              'sum_s=abs(field.sum())' in lp and
              'ifabs(sum_s-1)>1e-06:' in lp and 'field/=sum_s' in lp,
              'the three components are not all re-normalised to unit sum '
              'when they deviate', ctx.where(fm, loops[0]))
    for a, comp in enumerate(('fx', 'fy', 'fz')):
        sc = [n for n in fn.body if isinstance(n, ast.AugAssign) and
              ast.unparse(n.target) == f'vfield.{comp}']
        ok = len(sc) == 1 and ast.unparse(sc[0]).replace(' ', '') == \
            f'vfield.{comp}*=dxdydz[{a}]' and sc[0].lineno > \
            loops[0].lineno
        ctx.check('C10.DV.scaling', f'_dipole_vector: {comp} *= '
                  f'dxdydz[{a}]', ok, f'{comp} is not scaled by the '
                  f'{"xyz"[a]}-extent of the dipole after normalisation',
                  ctx.where(fm, fn), sample={'component': comp})
    ctx.check('C10.DV.scaling', '_dipole_vector: extent = last - first '
              'electrode', 'dxdydz=points[1,:]-points[0,:]' in t,
              'dipole extent is not second minus first electrode',
              ctx.where(fm, fn))
    # wires: sum over consecutive segments
    ctx.check('C10.DV.segments', '_dipole_vector sums consecutive segments',
              'forp0,p1inzip(points[:-1,:],points[1:,:]):' in t and
              'vfield.field+=_dipole_vector(grid,points=np.r_[[p0,p1]],'
              'decimals=decimals,nodes=(nodes_x,nodes_y,nodes_z)).field' in t
              and 'ifpoints.shape[0]!=2:' in t,
              'a wire is not the sum of its consecutive two-point segments',
              ctx.where(fm, fn))
    ctx.floor('C10.DV.scaling', 4)


def rule_GE(ctx):
    em = ctx.repo.mod(ELEC)
    az, el = sp.symbols('az el', real=True)
    rot = em.func('rotation')
    ret = [n for n in ast.walk(rot) if isinstance(n, ast.Return)][0]
    rp = au.params(rot)

    def R(a, e):     # degrees
        lf = Lifter({rp[0]: a, rp[1]: e},
                    {'cos': lambda x: sp.cos(x * sp.pi / 180),
                     'sin': lambda x: sp.sin(x * sp.pi / 180)},
                    em.rel, strict=True)
        return sp.Matrix([lf.lift(x) for x in ret.value.args[0].elts])
    # point_to_dipole
    p2d = em.func('point_to_dipole')
    t = ast.unparse(p2d).replace(' ', '')
    pp = au.params(p2d)
    ctx.check('C10.GE.dipole', 'point_to_dipole = centre -/+ dir*L/2',
              f'xyz=rotation({pp[0]}[3],{pp[0]}[4],deg=deg)*{pp[1]}/2' in t
              and f'return{pp[0]}[:3]+np.array([-xyz,xyz])' in t,
              'electrodes are not centre minus / plus half the length along '
              'the direction', ctx.where(em, p2d))
    # dipole_to_point
    d2p = em.func('dipole_to_point')
    t = ast.unparse(d2p).replace(' ', '')
    ctx.check('C10.GE.dipole', 'dipole_to_point formulas',
              'azimuth=np.angle(dx+1j*dy,deg=deg)' in t and
              'elevation=np.angle(np.sqrt(dx**2+dy**2)+1j*dz,deg=deg)' in t
              and 'length=np.linalg.norm([dx,dy,dz])' in t and
              'return(azimuth,elevation,length)' in t,
              'azimuth / elevation / length are not atan2(dy,dx), '
              'atan2(dz,hypot(dx,dy)), |d|', ctx.where(em, d2p))
    # the conversion pair is consistent: direction(az, el)*L reproduces d
    L = sp.Symbol('L', positive=True)
    d = R(az, el) * L
    azr = sp.atan2(d[1], d[0])
    ok = equal(sp.sqrt(d[0]**2 + d[1]**2 + d[2]**2), L)
    ctx.check('C10.GE.dipole', 'rotation has unit length', ok,
              '|rotation(az, el)| is not 1', ctx.where(em, rot))
    # square loop
    sq = em.func('point_to_square_loop')
    sp_ = au.params(sq)
    t = ast.unparse(sq).replace(' ', '')
    hd = [n for n in sq.body if isinstance(n, ast.Assign) and
          ast.unparse(n.targets[0]) == 'half_diag']
    ctx.anchor(len(hd) == 1, 'half_diag in point_to_square_loop')
    A = sp.Symbol('A', positive=True)
    hv = Lifter({sp_[1]: A}, {}, em.rel, strict=True).lift(hd[0].value)
    ctx.check('C10.GE.loop', 'square loop area = 2 half_diag^2',
              equal(2 * hv**2, A), f'half diagonal {hv}: a square with that '
              'half diagonal has area 2*half_diag^2 != area',
              ctx.where(em, hd[0]), sample={'half_diag': str(hv)})
    calls = {ast.unparse(n.targets[0]): n.value for n in sq.body
             if isinstance(n, ast.Assign) and 'rotation(' in
             ast.unparse(n.value)}
    ctx.anchor({'xyz_hor', 'xyz_ver'} <= set(calls), 'loop axes')
    vecs = {}
    for k, v in calls.items():
        c = [x for x in ast.walk(v) if isinstance(x, ast.Call) and
             ast.unparse(x.func) == 'rotation'][0]
        lf = Lifter({f'{sp_[0]}[3]': az, f'{sp_[0]}[4]': el}, {}, em.rel,
                    strict=True)
        a_, e_ = lf.lift(c.args[0]), lf.lift(c.args[1])
        vecs[k] = R(a_, e_)
    hor, ver = vecs['xyz_hor'], vecs['xyz_ver']
    normal = hor.cross(ver)
    want = R(az, el)
    ok = all(equal(sp.simplify(normal[i]), sp.simplify(want[i]))
             for i in range(3)) and equal(hor.dot(ver), 0)
    ctx.check('C10.GE.loop', 'square loop: right-handed normal = direction',
              ok, f'hor x ver = {list(sp.simplify(normal))} is not the '
              'dipole direction', ctx.where(em, sq),
              sample={'normal': [str(sp.simplify(x)) for x in normal]})
    ctx.check('C10.GE.loop', 'square loop closed and ordered',
              f'points={sp_[0]}[:3]+np.stack([xyz_hor,xyz_ver,-xyz_hor,'
              '-xyz_ver,xyz_hor])' in t,
              'loop is not hor, ver, -hor, -ver, hor around the centre '
              '(closed, counter-clockwise about the normal)',
              ctx.where(em, sq))
    # Dipole coordinate formats
    dp = em.cls('Dipole')
    init = [f for f in dp.body if isinstance(f, ast.FunctionDef) and
            f.name == '__init__'][0]
    t = ast.unparse(init).replace(' ', '')
    ctx.check('C10.GE.formats', 'Dipole: three coordinate formats',
              'is_point=coordinates.shape==(5,)' in t and
              'is_flat=coordinates.shape==(6,)' in t and
              'is_dipole=coordinates.shape==(2,3)' in t,
              'accepted coordinate shapes changed', ctx.where(em, init))
    ctx.check('C10.GE.formats', 'Dipole: flat format is (x1,x2,y1,y2,z1,z2)',
              "points=coordinates.reshape((2,3),order='F')" in t,
              'flat coordinates are not reshaped column-wise into two '
              'electrodes', ctx.where(em, init))
    ctx.check('C10.GE.formats', 'Dipole: point format goes through the '
              'conversions', 'points=point_to_square_loop(coordinates,length)'
              in t and 'points=point_to_dipole(coordinates,length)' in t and
              'azimuth,elevation,length=dipole_to_point(points)' in t,
              'point format is not converted through point_to_dipole / '
              'point_to_square_loop', ctx.where(em, init))


def run(ctx):
    ctx.explanation = (
        'Dispatch and scaling of get_source_field, the 12 store statements '
        'of _dipole_vector (weight/index pairing, sum = clipped length '
        'fraction), normalisation and axis pairing are read off the AST; '
        'electrode geometry (unit direction, square-loop area and '
        'right-handed normal) is decided symbolically with the lifted '
        'rotation formula.  The conservation law through the clipping logic '
        'and inverse-trigonometric round trips are not decided.')
    ctx.assumptions = ['clipping / cell-search branches are data dependent']
    fm = ctx.repo.mod(FIELDS)
    rule_SF(ctx, fm)
    rule_DV(ctx, fm)

    class R:
        def __init__(self, c):
            self.c, self.repo = c, c.repo

        def check(self, rule, *a, **k):
            return self.c.check('C10.GE.rotation', *a, **k)

        def anchor(self, *a):
            return self.c.anchor(*a)

        def where(self, m, n):
            return self.c.where(m, n)
    rule_RO(R(ctx))
    rule_GE(ctx)
