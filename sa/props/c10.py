"""C10 - sources inject exactly their nominal moment (structural clauses).

Rules (DESIGN.md 4/C10):
  SF  get_source_field: type dispatch, strength, guarded -s mu0 scaling
  DV  _dipole_vector: weight/index pairing of the 12 stores, linear weights,
      per-component partition of unity (sum = clipped length fraction),
      normalisation guard for all components, axis pairing of the scaling,
      segment-wise summation of wires
  GE  electrode geometry: point_to_dipole = centre -/+ direction*L/2; square
      loop closed, area = 2 half_diag^2, right-handed normal = direction;
      dipole_to_point formulas; coordinate formats of Dipole
"""
import ast

import sympy as sp

from ..core import astutil as au
from ..core.report import AnalysisError
from ..expr.lift import Lifter, equal
from .c09 import pairing_table, rule_RO
from ..core.template import find, has, require
from ..core.canon import ct

LEVEL = 'other'
FIELDS = 'emg3d/fields.py'
ELEC = 'emg3d/electrodes.py'


def rule_SF(ctx, fm):
    fn = fm.func('get_source_field')
    ps = au.params(fn)
    chain = [n for n in fn.body if isinstance(n, ast.If) and
             'isinstance' in ast.unparse(n.test) and 'vfield' in
             ast.unparse(n)]
    ctx.anchor(len(chain) == 1, 'vector-function dispatch in '
               'get_source_field')
    table = []
    node = chain[0]
    while True:
        st = [s for s in node.body if isinstance(s, ast.Assign)][0]
        table.append((ast.unparse(node.test).replace(' ', ''),
                      ast.unparse(st.value).replace(' ', '')))
        if len(node.orelse) == 1 and isinstance(node.orelse[0], ast.If):
            node = node.orelse[0]
        else:
            els = [s for s in node.orelse if isinstance(s, ast.Assign)]
            table.append(('else', ast.unparse(els[0].value).replace(' ', '')
                          if els else None))
            break
    g, s, f = ps[0], ps[1], ps[2]
    want = [(f'isinstance({s},electrodes.TxElectricPoint)',
             f'_point_vector({g},{s}.coordinates)'),
            (f'isinstance({s},electrodes.TxMagneticPoint)',
             f'_point_vector_magnetic({g},{s}.coordinates,{f})'),
            ('else', f'_dipole_vector({g},{s}.points)')]
    ctx.check('C10.SF.dispatch', 'get_source_field dispatch table',
              table == want, f'dispatch is {table}', ctx.where(fm, chain[0]),
              sample={'table': table})
    vf = find(f'_v_ = _point_vector({g}, {s}.coordinates)', fn)
    vname = vf[0][1]['_v_'] if vf else 'vfield'
    sf_ = find(f'_sf_ = Field({g}, data={vname}.field, frequency={f})', fn)
    ctx.check('C10.SF.scaling', 'get_source_field: field from the vector',
              len(sf_) == 1, 'source field is not built from the source '
              'vector on this grid / frequency', ctx.where(fm, fn))
    sfn = sf_[0][1]['_sf_'] if sf_ else 'sfield'
    stq_ = find(f'{sfn}.field *= {s}.strength', fn)
    ctx.check('C10.SF.scaling', 'get_source_field: times strength',
              len(stq_) == 1 and not au.guards_of(stq_[0][0], fn),
              'source vector is not multiplied by the source strength '
              '(exactly once, for every value of the strength: the field is '
              'linear in it)',
              ctx.where(fm, stq_[0][0] if stq_ else fn))
    sc = find(f'{sfn}.field *= -{sfn}.smu0', fn)
    ok = len(sc) == 1 and [
        (ast.unparse(t_).replace(' ', ''), p) for t_, p in
        au.guards_of(sc[0][0], fn)] == [(f'{f}isnotNone', True)]
    other = [n for n in ast.walk(fn) if isinstance(n, (ast.AugAssign,
                                                       ast.Assign))
             and 'smu0' in ast.unparse(n) and (not sc or n is not sc[0][0])]
    ctx.check('C10.SF.scaling', 'get_source_field: -s mu0 only with a '
              'frequency', ok and not other, 'scaling by -s mu0 is missing, '
              'has another sign, or is not guarded by `frequency is not '
              'None`', ctx.where(fm, fn))
    rets = [n for n in ast.walk(fn) if isinstance(n, ast.Return)]
    ctx.check('C10.SF.scaling', 'get_source_field returns the scaled field',
              len(rets) == 1 and ast.unparse(rets[0].value) == sfn,
              'the scaled source field is not what is returned',
              ctx.where(fm, fn))
    # tuple input -> electrode objects
    ok = has(f'{s} = electrodes.TxElectricWire({s}, **_i_)', fn) and \
        has(f'{s} = electrodes.TxElectricDipole({s}, **_i_)', fn) and \
        has(f'{s} = electrodes.TxMagneticDipole({s}, **_i_)', fn)
    ctx.check('C10.SF.dispatch', 'get_source_field: coordinate input', ok,
              'coordinate tuples are not turned into wire / electric / '
              'magnetic dipole sources', ctx.where(fm, fn))
    # which class a raw coordinate input becomes, evaluated over the input
    # formats: 5 numbers (point format), 6 numbers / [[e1], [e2]] (two
    # electrodes) are dipoles -- electric or, with electric=False, magnetic;
    # three or more electrodes are a wire.  (A test on the number of
    # dimensions instead of the number of electrodes turns a magnetic dipole
    # given by two electrodes into a piece of wire.)
    from ..core.tables import FiniteEval
    ctors = {}
    for cls_ in ('TxElectricWire', 'TxElectricDipole', 'TxMagneticDipole'):
        for n_, _b in find(f'{s} = electrodes.{cls_}({s}, **_i_)', fn):
            ctors.setdefault(cls_, []).append(n_)
    shapes = {'5 numbers': (5,), '6 numbers': (6,), 'two electrodes': (2, 3),
              'three electrodes': (3, 3), 'four electrodes': (4, 3)}
    for label, shp in shapes.items():
        size = 1
        for d_ in shp:
            size *= d_
        for el in (None, True, False):
            kw = {} if el is None else {'electric': el}
            env = {f'{s}.size': size, f'{s}.ndim': len(shp),
                   f'{s}.shape': list(shp), f'len({s})': shp[0],
                   'kwargs': kw}
            chosen = []
            for cls_, nodes in ctors.items():
                for n_ in nodes:
                    live = True
                    for t_, pol in au.guards_of(n_, fn):
                        if 'isinstance' in ast.unparse(t_):
                            continue
                        try:
                            if bool(FiniteEval(env, where=FIELDS).ev(t_)) \
                                    != pol:
                                live = False
                        except AnalysisError:
                            live = None
                            break
                    if live is None:
                        chosen.append('?')
                    elif live:
                        chosen.append(cls_)
            want = 'TxElectricWire' if shp[0] > 2 and len(shp) == 2 else (
                'TxMagneticDipole' if el is False else 'TxElectricDipole')
            ctx.check('C10.SF.dispatch', f'get_source_field: {label}, '
                      f'electric={el}', chosen == [want],
                      f'coordinate input of {label} with electric={el} '
                      f'becomes {chosen}, expected {want}: the source that '
                      'is discretised is not the one that was asked for',
                      ctx.where(fm, fn), sample={'input': label,
                                                 'electric': el,
                                                 'class': chosen})
    # the documented keywords strength / length reach every source type they
    # apply to: `length` belongs to the point format (5 entries) of electric
    # AND magnetic dipoles, so its hand-over may not depend on `electric`
    ln = find("_i_['length'] = kwargs.get('length', __)", fn)
    okl = len(ln) == 1
    if okl:
        gt = au.guard_texts(ln[0][0], fn)
        okl = not any('electric' in g for g in gt) and any(
            g == ct(f'{s}.size == 5') for g in gt)
    ctx.check('C10.SF.dispatch', 'get_source_field: length of point-format '
              'dipoles', okl, 'the `length` keyword is not handed over for '
              'every 5-entry coordinate input (electric and magnetic): the '
              'moment of the source is that of the default length',
              ctx.where(fm, ln[0][0] if ln else fn))
    stq = find("_i_ = {'strength': kwargs.get('strength', __)}", fn)
    ctx.check('C10.SF.dispatch', 'get_source_field: strength of coordinate '
              'input', len(stq) == 1 and not [
                  g for g in au.guard_texts(stq[0][0], fn)
                  if 'electric' in g or '.size' in g],
              'the `strength` keyword is not handed over for every '
              'coordinate input', ctx.where(fm, fn))


def rule_DV(ctx, fm):
    fn = fm.func('_dipole_vector')
    vf_ = find('_v_ = Field(grid, dtype=float)', fn)
    ctx.anchor(len(vf_) == 1, 'vector field in _dipole_vector')
    VF = vf_[0][1]['_v_']
    # names of weights / indices per axis from the weight definitions
    W = {}
    for a, ax in enumerate('xyz'):
        f = find(f'_r_ = (_xc_[{a}] - _n_[_i_]) / grid.h[{a}][_i_]', fn)
        ctx.anchor(len(f) == 1, f'weight definition of axis {ax}')
        e = find(f'_e_ = 1 - {f[0][1]["_r_"]}', fn)
        ctx.anchor(len(e) == 1, f'complementary weight of axis {ax}')
        W[a] = dict(r=f[0][1]['_r_'], e=e[0][1]['_e_'], i=f[0][1]['_i_'],
                    n=f[0][1]['_n_'], xc=f[0][1]['_xc_'])
    xl = find('_L_ = np.linalg.norm(_hi_ - _lo_) / _len_', fn)
    ctx.anchor(len(xl) == 1, 'clipped length fraction in _dipole_vector')
    XL = xl[0][1]['_L_']
    stores = {c: [] for c in ('fx', 'fy', 'fz')}
    for n in ast.walk(fn):
        if isinstance(n, ast.AugAssign) and isinstance(n.target,
                                                       ast.Subscript) and \
                isinstance(n.target.value, ast.Attribute) and \
                n.target.value.attr in stores and ast.unparse(
                    n.target.value.value) == VF and isinstance(
                        n.op, ast.Add):
            stores[n.target.value.attr].append(n)
    lower = [W[a]['i'] for a in range(3)]
    rs = [sp.Symbol(f'r{a}') for a in range(3)]
    L = sp.Symbol('x_len')
    for a, comp in enumerate(('fx', 'fy', 'fz')):
        ctx.check('C10.DV.pairing', f'_dipole_vector: four stores to {comp}',
                  len(stores[comp]) == 4, f'{len(stores[comp])} stores to '
                  f'{comp} (4 expected)', ctx.where(fm, fn))
        axes = {}
        for t in range(3):
            if t == a:
                continue
            axes[t] = {'lower': lower[t], 'upper': lower[t] + '+1',
                       'e': W[t]['e'], 'r': W[t]['r']}
        combos = pairing_table(ctx, 'C10.DV.pairing', fm, fn, stores[comp],
                               axes, f'_dipole_vector {comp}')
        for st in stores[comp]:
            idx = [ast.unparse(e).replace(' ', '')
                   for e in st.target.slice.elts]
            ctx.check('C10.DV.pairing', f'_dipole_vector {comp} along-axis '
                      f'index `{au.stext(st)[:40]}`', idx[a] == lower[a],
                      f'{comp} is stored at {idx[a]} along its own axis',
                      ctx.where(fm, st))
        ctx.check('C10.DV.unity', f'_dipole_vector {comp}: 4 corners once',
                  len({c for c, _ in combos}) == 4,
                  'the four stores do not address the four edges of the '
                  'cell once each', ctx.where(fm, fn))
        total = 0
        for st in stores[comp]:
            env = {XL: L}
            for t in range(3):
                env[W[t]['r']] = rs[t]
                env[W[t]['e']] = 1 - rs[t]
            total = total + Lifter(env, {}, fm.rel, strict=True).lift(
                st.value)
        ctx.check('C10.DV.unity', f'_dipole_vector {comp}: weights sum to '
                  'the clipped length fraction', equal(total, L),
                  f'sum of the four weights is {sp.expand(total)}, not '
                  'x_len', ctx.where(fm, fn),
                  sample={'component': comp, 'sum': str(sp.simplify(total))})
    ctx.floor('C10.DV.pairing', 27)
    # linear weights: r = (x_c[a] - nodes_a[i_a]) / h_a[i_a], e = 1 - r
    xc = W[0]['xc']
    for a, ax in enumerate('xyz'):
        ok = has(f'{W[a]["n"]} = np.round(grid.nodes_{ax}, __)', fn) and \
            W[a]['xc'] == xc
        ctx.check('C10.DV.linear', f'_dipole_vector weights axis {ax}', ok,
                  f'weights of axis {ax} are not r=(x_c-node)/h, e=1-r of '
                  'the same axis', ctx.where(fm, fn))
    # the in-cell decision: nodes are rounded, the widths (grid.h) are not,
    # so for a point ON the last node the fraction is 1 + eps and e = -eps:
    # an exact `>= 0` on these values drops segments lying in the plane of
    # the last nodes (the vector sums to 0, normalisation gives NaN).  The
    # decision has to be taken to the precision of the rounding
    wnames = {W[a][k] for a in range(3) for k in ('r', 'e')}
    gif = au.enclosing(stores['fx'][0], ast.If) if stores['fx'] else None
    ctx.anchor(gif is not None, 'in-cell guard of the stores')
    tests = [gif.test]
    for x in ast.walk(gif.test):
        if isinstance(x, ast.Name):
            ds = [d for d in ast.walk(fn) if isinstance(d, ast.Assign) and
                  ast.unparse(d.targets[0]) == x.id]
            if len(ds) == 1:
                tests.append(ds[0].value)
    cmps = [c_ for t_ in tests for c_ in ast.walk(t_) if isinstance(
        c_, ast.Compare) and {y.id for y in ast.walk(c_)
                              if isinstance(y, ast.Name)} & wnames]
    ctx.anchor(len(cmps) >= 1, 'comparison of the weights in the guard')

    def robust(c_):
        sides = [c_.left] + list(c_.comparators)
        for s_ in sides:
            if isinstance(s_, ast.Call) and ast.unparse(s_.func) in (
                    'np.round', 'np.around', 'round') and len(s_.args) +  \
                    len(s_.keywords) >= 2:
                return True
            if isinstance(s_, ast.UnaryOp) and isinstance(s_.op, ast.USub):
                return True
            if isinstance(s_, ast.Constant) and isinstance(
                    s_.value, (int, float)) and s_.value < 0:
                return True
        return False
    exact = all(has(f'{W[a]["r"]} = (__ - {W[a]["n"]}[{W[a]["i"]}]) / '
                    f'({W[a]["n"]}[{W[a]["i"]} + 1] - '
                    f'{W[a]["n"]}[{W[a]["i"]}])', fn) for a in range(3))
    ctx.check('C10.DV.linear', '_dipole_vector: in-cell decision holds on '
              'the last node', exact or all(robust(c_) for c_ in cmps),
              f'`{ast.unparse(cmps[0])}` compares fractions of ROUNDED nodes '
              'over UNROUNDED widths exactly: for a dipole in the plane of '
              'the last nodes of a stretched grid the fraction is 1 + eps, '
              'the piece is dropped and the source field becomes NaN',
              ctx.where(fm, gif))
    ok = False
    c = find(f'{xc} = (_lo_ + _hi_) / 2.0', fn)
    if c:
        lo, hi = c[0][1]['_lo_'], c[0][1]['_hi_']
        ok = {xl[0][1]['_hi_'], xl[0][1]['_lo_']} == {lo, hi}
        ok = ok and has(f'{lo} = _p_[0, :] + _al_ * _d_', fn) and \
            has(f'{hi} = _p_[0, :] + _ar_ * _d_', fn)
    ctx.check('C10.DV.linear', '_dipole_vector segment centre and length',
              ok, 'clipped segment centre / length fraction changed',
              ctx.where(fm, fn))
    # clipping of the dipole to a cell: parametric coordinates of the node
    # planes along the dipole, per axis, and the clipped interval [al, ar]
    ext0 = find('_d_ = _p_[1, :] - _p_[0, :]', fn)
    inv = find('_i_[_i_ != 0] = 1 / _i_[_i_ != 0]', fn)
    okc = len(ext0) == 1 and len(inv) == 1
    A = {}
    if okc:
        P, Dn, In = ext0[0][1]['_p_'], ext0[0][1]['_d_'], inv[0][1]['_i_']
        okc = has(f'{In} = {Dn}.copy()', fn)
        for a, ax in enumerate('xyz'):
            f = find(f'_a_ = ({W[a]["n"]} - {P}[0, {a}]) * {In}[{a}]', fn)
            okc = okc and len(f) == 1
            if f:
                A[a] = f[0][1]['_a_']
    ctx.check('C10.DV.clipping', '_dipole_vector: parametric node planes',
              okc and len(A) == 3, 'node planes are not expressed as '
              '(node - first electrode)/extent per axis', ctx.where(fm, fn))
    if len(A) == 3:
        vs = find(f'_aa_ = np.vstack([[{A[0]}[{W[0]["i"]}], '
                  f'{A[0]}[{W[0]["i"]} + 1]], [{A[1]}[{W[1]["i"]}], '
                  f'{A[1]}[{W[1]["i"]} + 1]], [{A[2]}[{W[2]["i"]}], '
                  f'{A[2]}[{W[2]["i"]} + 1]]])', fn)
        okc = len(vs) == 1
        if okc:
            aa = vs[0][1]['_aa_']
            okc = has(f'{aa} = np.sort({aa}[{Dn} != 0, :], 1)', fn) and \
                has(f'_al_ = max(0, {aa}[:, 0].max())', fn) and \
                has(f'_ar_ = min(1, {aa}[:, 1].min())', fn)
        ctx.check('C10.DV.clipping', '_dipole_vector: clipped interval of '
                  'the cell', okc, 'the part of the dipole inside the cell '
                  'is not [max(0, entries), min(1, exits)] over the axes '
                  'with non-zero extent', ctx.where(fm, fn))
        for a, ax in enumerate('xyz'):
            lp_ = [n for n in ast.walk(fn) if isinstance(n, ast.For) and
                   isinstance(n.target, ast.Name) and
                   n.target.id == W[a]['i']]
            okl = len(lp_) == 1
            if okl:
                r_ = find(f'range(_r_[0], min(_r_[1] + 1, {A[a]}.size - 1))',
                          lp_[0].iter)
                okl = len(r_) == 1 and has(
                    f'{r_[0][1]["_r_"]} = min_max_ind({W[a]["n"]}, {a})', fn)
            ctx.check('C10.DV.clipping', f'_dipole_vector: cell range axis '
                      f'{ax}', okl, f'cells visited along {ax} are not those '
                      'between the smallest and largest electrode coordinate '
                      'of this axis', ctx.where(fm, fn))
    # a coordinate equal to the last node belongs to the LAST cell: the cell
    # indices returned by min_max_ind are limited to size-2 (the search
    # `where(v < r_[nodes, inf])[0][0] - 1` gives size-1 there, for which the
    # cell loops are empty: a segment lying in an upper boundary plane then
    # contributes nothing and the normalisation divides by zero)
    mmi = [n for n in fn.body if isinstance(n, ast.FunctionDef) and
           n.name == 'min_max_ind']
    ctx.anchor(len(mmi) == 1, 'min_max_ind helper in _dipole_vector')
    vpar = au.params(mmi[0])[0]
    rets_ = [r for r in ast.walk(mmi[0]) if isinstance(r, ast.Return)]
    okm = len(rets_) == 1 and isinstance(rets_[0].value, (ast.List, ast.Tuple))
    if okm:
        for e_ in rets_[0].value.elts:
            okm = okm and (
                has(f'min({vpar}.size - 2, __)', e_) or
                has(f'np.clip(__, 0, {vpar}.size - 2)', e_) or
                has(f'min(__, {vpar}.size - 2)', e_))
    ctx.check('C10.DV.clipping', '_dipole_vector: cell indices limited to the '
              'last cell', okm, 'an electrode coordinate equal to the last '
              'node gets cell index size-1 (no such cell): a segment in an '
              'upper boundary plane is lost and the source vector becomes NaN',
              ctx.where(fm, mmi[0]))
    # normalisation guard for all three components, then scaling
    loops = [n for n in fn.body if isinstance(n, ast.For) and find(
        '_f_ /= _s_', n)]
    ctx.anchor(len(loops) == 1, 'normalisation loop in _dipole_vector')
    lp = loops[0]
    lv = ast.unparse(lp.target)
    ok = has(f'[{VF}.fx, {VF}.fy, {VF}.fz]', lp.iter) and \
        has(f'_s_ = abs({lv}.sum())', lp) and has(f'{lv} /= _s_', lp)
    ctx.check('C10.DV.normalise', '_dipole_vector normalisation guard', ok,
              'the three components are not all re-normalised to unit sum '
              'when they deviate', ctx.where(fm, lp))
    ext = find('_d_ = _p_[1, :] - _p_[0, :]', fn)
    ctx.check('C10.DV.scaling', '_dipole_vector: extent = last - first '
              'electrode', len(ext) == 1, 'dipole extent is not second minus '
              'first electrode', ctx.where(fm, fn))
    dname = ext[0][1]['_d_'] if ext else 'dxdydz'
    for a, comp in enumerate(('fx', 'fy', 'fz')):
        sc = [n for n in fn.body if isinstance(n, ast.AugAssign) and
              ast.unparse(n.target) == f'{VF}.{comp}']
        ok = len(sc) == 1 and has(f'{VF}.{comp} *= {dname}[{a}]', sc[0]) \
            and sc[0].lineno > lp.lineno
        ctx.check('C10.DV.scaling', f'_dipole_vector: {comp} *= extent[{a}]',
                  ok, f'{comp} is not scaled by the {"xyz"[a]}-extent of the '
                  'dipole after normalisation', ctx.where(fm, fn),
                  sample={'component': comp})
    # wires: sum over consecutive segments
    seg = find('for _a_, _b_ in zip(_p_[:-1, :], _p_[1:, :]):\n'
               f'    {VF}.field += _dipole_vector(grid, '
               'points=np.r_[[_a_, _b_]], decimals=__, nodes=__).field', fn)
    ctx.check('C10.DV.segments', '_dipole_vector sums consecutive segments',
              len(seg) == 1, 'a wire is not the sum of its consecutive '
              'two-point segments', ctx.where(fm, fn))
    # the electrodes that are segmented are the caller's, only rounded: every
    # definition of the point list is the parameter, or its element-wise
    # rounding (dropping / reordering rows changes the wire)
    if seg:
        Pn = seg[0][1]['_p_']
        ok = Pn in au.params(fn)
        chain, bad = {Pn}, []
        changed = True
        while changed:
            changed = False
            for n in ast.walk(fn):
                if isinstance(n, ast.Assign) and len(n.targets) == 1 and \
                        isinstance(n.targets[0], ast.Name) and \
                        n.targets[0].id in chain:
                    v = n.value
                    if isinstance(v, ast.Name):
                        if v.id not in chain:
                            chain.add(v.id)
                            changed = True
                    elif not any(has(f'{n.targets[0].id} = np.round('
                                     f'np.asarray({c}, dtype=float), __)', n)
                                 for c in chain):
                        if n not in bad:
                            bad.append(n)
                elif isinstance(n, (ast.AugAssign, ast.Assign)) and any(
                        isinstance(t, ast.Subscript) and isinstance(
                            t.value, ast.Name) and t.value.id in chain
                        for t in (n.targets if isinstance(n, ast.Assign)
                                  else [n.target])):
                    if n not in bad:
                        bad.append(n)
        ctx.check('C10.DV.segments', '_dipole_vector: electrodes only '
                  'rounded before segmentation', ok and not bad,
                  f'`{au.stext(bad[0]) if bad else Pn}` alters the electrode '
                  'list (rows dropped, reordered or changed): the wire is no '
                  'longer the sum of the segments the caller gave',
                  ctx.where(fm, bad[0] if bad else fn),
                  sample={'names': sorted(chain)})
    ctx.floor('C10.DV.scaling', 4)


def rule_GE(ctx):
    em = ctx.repo.mod(ELEC)
    az, el = sp.symbols('az el', real=True)
    rot = em.func('rotation')
    ret = [n for n in ast.walk(rot) if isinstance(n, ast.Return)][0]
    rp = au.params(rot)

    tr = find('_c_, _s_ = (np.cos, np.sin)', rot)
    cn = tr[0][1]['_c_'] if tr else 'cos'
    sn = tr[0][1]['_s_'] if tr else 'sin'
    if not tr:        # (the canonical form writes two assignments)
        t1, t2 = find('_c_ = np.cos', rot), find('_s_ = np.sin', rot)
        if len(t1) == 1 and len(t2) == 1:
            cn, sn = t1[0][1]['_c_'], t2[0][1]['_s_']

    def R(a, e):     # degrees
        lf = Lifter({rp[0]: a, rp[1]: e},
                    {cn: lambda x: sp.cos(x * sp.pi / 180),
                     sn: lambda x: sp.sin(x * sp.pi / 180)},
                    em.rel, strict=True)
        return sp.Matrix([lf.lift(x) for x in ret.value.args[0].elts])
    # point_to_dipole
    p2d = em.func('point_to_dipole')
    pp = au.params(p2d)
    h = find(f'_x_ = rotation({pp[0]}[3], {pp[0]}[4], deg=__) * {pp[1]} / 2',
             p2d) or find(f'_x_ = rotation({pp[0]}[3], {pp[0]}[4], deg=__) '
                          f'* ({pp[1]} / 2)', p2d)
    ok = len(h) == 1 and has(f'return {pp[0]}[:3] + np.array([-'
                             f'{h[0][1]["_x_"]}, {h[0][1]["_x_"]}])', p2d)
    ctx.check('C10.GE.dipole', 'point_to_dipole = centre -/+ dir*L/2', ok,
              'electrodes are not centre minus / plus half the length along '
              'the direction', ctx.where(em, p2d))
    # dipole_to_point
    d2p = em.func('dipole_to_point')
    u = find('_dx_, _dy_, _dz_ = np.diff(_d_.T).squeeze()', d2p)
    ok = len(u) == 1
    if ok:
        dx, dy, dz = (u[0][1][k] for k in ('_dx_', '_dy_', '_dz_'))
        az_ = find(f'_a_ = np.angle({dx} + 1j * {dy}, deg=__)', d2p)
        el_ = find(f'_e_ = np.angle(np.sqrt({dx} ** 2 + {dy} ** 2) + 1j * '
                   f'{dz}, deg=__)', d2p)
        ln_ = find(f'_l_ = np.linalg.norm([{dx}, {dy}, {dz}])', d2p)
        ok = len(az_) == 1 and len(el_) == 1 and len(ln_) == 1 and has(
            f'return ({az_[0][1]["_a_"]}, {el_[0][1]["_e_"]}, '
            f'{ln_[0][1]["_l_"]})', d2p)
    ctx.check('C10.GE.dipole', 'dipole_to_point formulas', ok,
              'azimuth / elevation / length are not atan2(dy,dx), '
              'atan2(dz,hypot(dx,dy)), |d|', ctx.where(em, d2p))
    # the conversion pair is consistent: direction(az, el)*L reproduces d
    L = sp.Symbol('L', positive=True)
    d = R(az, el) * L
    azr = sp.atan2(d[1], d[0])
    ok = equal(sp.sqrt(d[0]**2 + d[1]**2 + d[2]**2), L)
    ctx.check('C10.GE.dipole', 'rotation has unit length', ok,
              '|rotation(az, el)| is not 1', ctx.where(em, rot))
    # square loop
    sq = em.func('point_to_square_loop')
    sp_ = au.params(sq)
    t = ast.unparse(sq).replace(' ', '')
    stk = find(f'_p_ = {sp_[0]}[:3] + np.stack([_h_, _v_, -_h_, -_v_, _h_])',
               sq)
    ctx.check('C10.GE.loop', 'square loop closed and ordered', len(stk) == 1,
              'loop is not hor, ver, -hor, -ver, hor around the centre '
              '(closed, counter-clockwise about the normal)',
              ctx.where(em, sq))
    ctx.anchor(len(stk) == 1, 'corner stack of the square loop')
    HOR, VER = stk[0][1]['_h_'], stk[0][1]['_v_']
    hsc = find(f'{HOR} = rotation(__, __) * _d_', sq)
    ctx.anchor(len(hsc) == 1, 'loop axis times half diagonal')
    HD = hsc[0][1]['_d_']
    hd = [n for n in sq.body if isinstance(n, ast.Assign) and
          ast.unparse(n.targets[0]) == HD]
    ctx.anchor(len(hd) == 1, 'half diagonal in point_to_square_loop')
    A = sp.Symbol('A', positive=True)
    hv = Lifter({sp_[1]: A}, {}, em.rel, strict=True).lift(hd[0].value)
    ctx.check('C10.GE.loop', 'square loop area = 2 half_diag^2',
              equal(2 * hv**2, A), f'half diagonal {hv}: a square with that '
              'half diagonal has area 2*half_diag^2 != area',
              ctx.where(em, hd[0]), sample={'half_diag': str(hv)})
    calls = {ast.unparse(n.targets[0]): n.value for n in sq.body
             if isinstance(n, ast.Assign) and 'rotation(' in
             ast.unparse(n.value)}
    ctx.anchor({HOR, VER} <= set(calls), 'loop axes')
    vecs = {}
    for k, v in calls.items():
        c = [x for x in ast.walk(v) if isinstance(x, ast.Call) and
             ast.unparse(x.func) == 'rotation'][0]
        lf = Lifter({f'{sp_[0]}[3]': az, f'{sp_[0]}[4]': el}, {}, em.rel,
                    strict=True)
        a_, e_ = lf.lift(c.args[0]), lf.lift(c.args[1])
        vecs[k] = R(a_, e_)
    hor, ver = vecs[HOR], vecs[VER]
    normal = hor.cross(ver)
    want = R(az, el)
    ok = all(equal(sp.simplify(normal[i]), sp.simplify(want[i]))
             for i in range(3)) and equal(hor.dot(ver), 0)
    ctx.check('C10.GE.loop', 'square loop: right-handed normal = direction',
              ok, f'hor x ver = {list(sp.simplify(normal))} is not the '
              'dipole direction', ctx.where(em, sq),
              sample={'normal': [str(sp.simplify(x)) for x in normal]})
    for k in (HOR, VER):
        ctx.check('C10.GE.loop', f'square loop: axis scaled by the half '
                  'diagonal', has(f'{k} = rotation(__, __) * {HD}', sq),
                  'loop axis is not direction times half diagonal',
                  ctx.where(em, sq))
    # Dipole coordinate formats
    dp = em.cls('Dipole')
    init = [f for f in dp.body if isinstance(f, ast.FunctionDef) and
            f.name == '__init__'][0]
    ip = au.params(init)
    co = ip[1]
    ok = has(f'_a_ = {co}.shape == (5,)', init) and has(
        f'_b_ = {co}.shape == (6,)', init) and has(
        f'_c_ = {co}.shape == (2, 3)', init)
    ctx.check('C10.GE.formats', 'Dipole: three coordinate formats', ok,
              'accepted coordinate shapes changed', ctx.where(em, init))
    ctx.check('C10.GE.formats', 'Dipole: flat format is (x1,x2,y1,y2,z1,z2)',
              has(f"_p_ = {co}.reshape((2, 3), order='F')", init),
              'flat coordinates are not reshaped column-wise into two '
              'electrodes', ctx.where(em, init))
    ctx.check('C10.GE.formats', 'Dipole: point format goes through the '
              'conversions', has(f'_p_ = point_to_square_loop({co}, {ip[2]})',
                                 init) and
              has(f'_p_ = point_to_dipole({co}, {ip[2]})', init) and
              has('_a_, _e_, _l_ = dipole_to_point(_p_)', init),
              'point format is not converted through point_to_dipole / '
              'point_to_square_loop', ctx.where(em, init))
    # the test for coinciding electrodes is absolute: a tolerance relative to
    # the coordinate values (np.allclose default rtol=1e-5) rejects short
    # dipoles at large coordinates (5 m at x = 5e5), so the electrodes of the
    # point format cannot be given back in the two-electrode format
    rel = []
    for c_ in au.calls(init):
        if ast.unparse(c_.func) in ('np.allclose', 'np.isclose'):
            kw = {k.arg: k.value for k in c_.keywords}
            rt = kw.get('rtol', c_.args[2] if len(c_.args) > 2 else None)
            if not (isinstance(rt, ast.Constant) and rt.value == 0):
                rel.append(c_)
    ctx.check('C10.GE.formats', 'Dipole: distinct electrodes decided '
              'absolutely', not rel, f'`{ast.unparse(rel[0]) if rel else ""}`'
              ' uses a relative tolerance on coordinates: two electrodes '
              'closer than 1e-5 of their coordinate value are taken as '
              'identical and the dipole is refused', ctx.where(
                  em, rel[0] if rel else init))
    # roles: dipole_to_point returns (azimuth, elevation, length); the
    # magnetic branch must put them into (x, y, z, azimuth, elevation), length
    u = find('_a_, _e_, _l_ = dipole_to_point(_p_)', init)
    ok = False
    if u:
        b = u[0][1]
        ok = has(f'_c_ = (*_ctr_, {b["_a_"]}, {b["_e_"]})', init) and any(
            has(f'_q_ = point_to_square_loop({c[1]["_c_"]}, {b["_l_"]})',
                init) for c in find(f'_c_ = (*_ctr_, {b["_a_"]}, '
                                    f'{b["_e_"]})', init))
    # ... around the midpoint of the two electrodes
    if u and ok:
        b = u[0][1]
        c_ = find(f'_c_ = (*_ctr_, {b["_a_"]}, {b["_e_"]})', init)
        ctr = c_[0][1]['_ctr_']
        P = b['_p_']
        cd = [n for n in ast.walk(init) if isinstance(n, ast.Assign) and
              ast.unparse(n.targets[0]) == ctr] if ctr.isidentifier() else []
        val = cd[0].value if len(cd) == 1 else (
            None if ctr.isidentifier() else ast.parse(ctr, mode='eval').body)
        p0, p1 = sp.symbols('p0 p1')

        def mid(e):
            if isinstance(e, ast.Constant):
                return sp.nsimplify(e.value)
            if isinstance(e, ast.BinOp):
                a_, b_ = mid(e.left), mid(e.right)
                if a_ is None or b_ is None:
                    return None
                return {ast.Add: a_ + b_, ast.Sub: a_ - b_, ast.Mult: a_ * b_,
                        ast.Div: a_ / b_}.get(type(e.op))
            if isinstance(e, ast.Subscript) and ast.unparse(e.value) == P:
                ix = ast.unparse(e.slice).replace(' ', '').strip('()')
                return {'0': p0, '0,:': p0, '1': p1, '1,:': p1, '-1': p1,
                        '-1,:': p1}.get(ix)
            if isinstance(e, ast.Call):
                f = ast.unparse(e.func)
                ax = [a for a in e.args[1:]] + [k.value for k in e.keywords
                                                if k.arg == 'axis']
                if f in ('tuple', 'np.array', 'np.asarray', 'list') and \
                        len(e.args) == 1:
                    return mid(e.args[0])
                on_p = (f in ('np.sum', 'np.mean', 'np.average', 'np.median')
                        and e.args and
                        ast.unparse(e.args[0]) == P) or f in (
                            f'{P}.sum', f'{P}.mean')
                if f in (f'{P}.sum', f'{P}.mean'):
                    ax = list(e.args) + [k.value for k in e.keywords
                                         if k.arg == 'axis']
                if on_p and len(ax) == 1 and ast.unparse(ax[0]) == '0':
                    return (p0 + p1) / (1 if f.endswith('sum') else 2)
            return None
        got = mid(val) if val is not None else None
        ctx.check('C10.GE.formats', 'Dipole: magnetic loop around the '
                  'midpoint of the two electrodes',
                  got is not None and equal(got, (p0 + p1) / 2),
                  f'the loop centre is `{ast.unparse(val) if val else ctr}` '
                  f'= {got}; the dipole given by two electrodes is centred '
                  'at (e1 + e2)/2, as the same dipole in the point format',
                  ctx.where(em, cd[0] if cd else init),
                  sample={'centre': str(got)})
    ret = [n for n in ast.walk(d2p) if isinstance(n, ast.Return)]
    ctx.check('C10.GE.formats', 'Dipole: (azimuth, elevation, length) of '
              'the two-electrode format keep their roles', ok,
              'the values returned by dipole_to_point (azimuth, elevation, '
              'length) are not used as (…, azimuth, elevation) and loop '
              'area: the loop normal is no longer the dipole direction',
              ctx.where(em, init))


def run(ctx):
    ctx.explanation = (
        'Dispatch and scaling of get_source_field, the 12 store statements '
        'of _dipole_vector (weight/index pairing, sum = clipped length '
        'fraction), normalisation and axis pairing are read off the AST; '
        'electrode geometry (unit direction, square-loop area and '
        'right-handed normal) is decided symbolically with the lifted '
        'rotation formula.  The conservation law through the clipping logic '
        'and inverse-trigonometric round trips are not decided.')
    ctx.assumptions = ['clipping / cell-search branches are data dependent']
    fm = ctx.repo.mod(FIELDS)
    rule_SF(ctx, fm)
    rule_DV(ctx, fm)
    from . import c09
    c09.rule_PV(ctx, fm, P='C10.PV')
    # the source vector depends on the arguments of the call only: nothing is
    # remembered on the source / grid objects (rule shared with C11)
    from . import c11
    from ..core.report import Renamed
    c11.rule_P4_inputs(Renamed(ctx, lambda r: 'C10.SF.dispatch'))

    class R:
        def __init__(self, c):
            self.c, self.repo = c, c.repo

        def check(self, rule, *a, **k):
            return self.c.check('C10.GE.rotation', *a, **k)

        def anchor(self, *a):
            return self.c.anchor(*a)

        def where(self, m, n):
            return self.c.where(m, n)
    rule_RO(R(ctx))
    rule_GE(ctx)
