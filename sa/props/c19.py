"""C19 - layered (1D) mode agrees with the 1D reference modeller
(structural clauses; agreement with empymod is not decided).

Rules (DESIGN.md 4/C19):
  L1  extract_1d: weights are an outer product of widths (times the ellipse
      mask), normalised by their sum before they are stored; midpoint weight
      is one; log-average guard pairing
  L2  layered(): one finite mask selects frequencies, observed, weights,
      residual and the output slots; conductivities through map.backward
  L3  _empymod_fwd: res = 1/sigma_h, aniso = sqrt(sigma_h/sigma_v)
  L4  _get_points table; finite-difference quotient distributed by imat
"""
import ast

import sympy as sp

from ..core import astutil as au
from ..core.report import AnalysisError
from ..core.tables import FiniteEval
from ..expr.lift import Lifter, equal
from ..core.template import find, has, require
from ..core.canon import ct

LEVEL = 'other'
MP = 'emg3d/_multiprocessing.py'
MODELS = 'emg3d/models.py'


def run(ctx):
    from . import c11, c12
    c12.mode_switch(ctx, ctx.repo.mod('emg3d/simulations.py'), 'C19.L2.mode')
    c11.rule_P2(ctx, only='_compute_1d', rid='C19.L2.order')
    ctx.explanation = (
        'Structural clauses of the layered path are read off the AST: '
        'normalisation of the extraction weights dominates their use, the '
        'finite mask is applied to every per-frequency array, the empymod '
        'inputs are lifted symbolically, the source/receiver point table is '
        'evaluated over its three methods.')
    ctx.assumptions = ['A9 empymod.bipole(res, aniso) with aniso = '
                       'sqrt(rho_v/rho_h); empymod itself is trusted']
    mm = ctx.repo.mod(MODELS)
    ex = mm.method('Model', 'extract_1d')
    # L1: weights normalised before they are stored into the weight matrix
    st = find('_imat_[_a_:_b_, _c_:_d_] = _pp_', ex)
    ctx.anchor(len(st) == 1, 'extraction weights stored in extract_1d')
    store, sb = st[0]
    pp, imat = sb['_pp_'], sb['_imat_']
    norm = find(f'{pp} /= {pp}.sum()', ex)
    ctx.check('C19.L1.weights', 'extract_1d: weights normalised before use',
              len(norm) == 1 and norm[0][0].lineno < store.lineno,
              'extraction weights are stored without being divided by '
              'their sum (they must sum to one)', ctx.where(mm, store))
    outer = find(f'{pp} = np.outer(self.grid.h[0][_a_:_b_], '
                 f'self.grid.h[1][_c_:_d_])', ex, {k: sb[k] for k in
                                                    ('_a_', '_b_', '_c_',
                                                     '_d_')})
    ctx.check('C19.L1.weights', 'extract_1d: weights = outer product of cell '
              'widths', len(outer) == 1, 'weights are not hx (x) hy of the '
              'selected cells (area weighting)', ctx.where(mm, ex))
    mask = find(f'{pp} *= _use_[_a_:_b_, _c_:_d_]', ex,
                {k: sb[k] for k in ('_a_', '_b_', '_c_', '_d_')})
    ok = len(mask) == 1 and norm and mask[0][0].lineno < norm[0][0].lineno \
        and [ast.unparse(t).replace(' ', '') for t, p_ in
             au.guards_of(mask[0][0], ex) if p_][-1:] == ["method=='cylinder'"]
    ctx.check('C19.L1.weights', 'extract_1d: ellipse mask before the '
              'normalisation', bool(ok), 'ellipse mask is not applied '
              '(cylinder only) before the weights are normalised',
              ctx.where(mm, ex))
    one = find(f'{pp} = 1.0', ex)
    ctx.check('C19.L1.weights', 'extract_1d: midpoint weight is one',
              len(one) == 1, 'midpoint extraction does not use weight 1',
              ctx.where(mm, ex))
    # L1.merge: merging of equal neighbouring layers
    mg_ = [n for n in ast.walk(ex) if isinstance(n, ast.If) and
           ast.unparse(n.test) == 'merge']
    ctx.anchor(len(mg_) == 1, '`if merge:` in extract_1d')
    mb = mg_[0]
    hzm = find('_hz_ = np.diff(np.r_[self.grid.nodes_z[_ind_], '
               'self.grid.nodes_z[-1]])', mb)
    ctx.check('C19.L1.merge', 'extract_1d: thickness of merged layers',
              len(hzm) == 1, 'the thickness of a merged layer is not the '
              'distance between the top nodes of consecutive kept layers '
              '(down to the last node)', ctx.where(mm, mb))
    if hzm:
        ind_ = hzm[0][1]['_ind_']
        nz_ = find(f'{ind_} = _d_.nonzero()[0]', mb)
        okm = len(nz_) == 1
        sentinel = [n for n in ast.walk(mb) if isinstance(n, ast.Subscript)
                    and ast.unparse(n.value) == 'np.r_' and isinstance(
                        n.slice, ast.Tuple) and isinstance(
                            n.slice.elts[0], (ast.Constant, ast.UnaryOp)) and
                    isinstance(au.parent(n), ast.Call) and ast.unparse(
                        au.parent(n).func) == 'np.diff' and
                    'nodes_z' not in ast.unparse(n)]
        first = False
        if okm:
            dn = nz_[0][1]['_d_']
            first = any(has(f'{dn}[0] = _c_', st_) for st_ in mb.body
                        if st_.lineno < nz_[0][0].lineno and
                        not isinstance(st_, ast.For)) or has(
                f'{dn} = np.r_[1, __]', mb) or has(f'{dn} = np.r_[1.0, __]',
                                                   mb)
        ctx.check('C19.L1.merge', 'extract_1d: the first layer is always '
                  'kept', okm and first and not sentinel,
                  'whether the first layer is kept is decided by comparing '
                  f'its value with a constant '
                  f'(`{ast.unparse(sentinel[0]) if sentinel else ""}`): a '
                  'layer whose stored value equals that constant (e.g. 0.1 '
                  'S/m as log10 = -1) is dropped and all interfaces shift',
                  ctx.where(mm, sentinel[0] if sentinel else mb))
    # L1.flag: cylinder/prism fall back to the midpoint cell when the ellipse
    # selects nothing; from then on the fallback flag, not `method`, must
    # decide between averaging and the single cell
    fl = find("_F_ = method == 'midpoint'", ex)
    ctx.anchor(len(fl) == 1 and isinstance(fl[0][1]['_F_'], str),
               'midpoint flag in extract_1d')
    Fm = fl[0][1]['_F_']
    fb = find(f'if not _ix_.size:\n    {Fm} = True', ex)
    ctx.check('C19.L1.flag', 'extract_1d: empty selection falls back to '
              'midpoint', len(fb) == 1, 'an empty ellipse selection does not '
              'switch to the midpoint cell', ctx.where(mm, ex))
    if fb:
        after = fb[0][0].lineno
        stale = [n for n in ast.walk(ex) if isinstance(n, (ast.If, ast.IfExp))
                 and n.lineno > after and any(
                     isinstance(x, ast.Constant) and x.value == 'midpoint'
                     for x in ast.walk(n.test))]
        ctx.check('C19.L1.flag', 'extract_1d: no branch on `method` vs '
                  "'midpoint' after the fallback", not stale,
                  'a branch after the empty-selection fallback tests the '
                  f'requested method instead of the flag `{Fm}`: in the '
                  'fallback case the single-cell weight is treated as an '
                  'ellipse average (0/0 weights)',
                  ctx.where(mm, stale[0] if stale else ex))

        def arm(node):
            g = [(ast.unparse(t).replace(' ', ''), pol)
                 for t, pol in au.guards_of(node, ex)]
            for t, pol in g:
                if t == Fm:
                    return pol
                if t == f'not{Fm}':
                    return not pol
            return None
        if one and outer:
            ctx.check('C19.L1.flag', 'extract_1d: weight arms follow the '
                      'flag', arm(one[0][0]) is True and
                      arm(outer[0][0]) is False, 'the single-cell weight / '
                      f'area weights are not selected by `{Fm}`',
                      ctx.where(mm, one[0][0]))
    avg = find(f"_w_ = np.einsum('ij,ijk->k', {imat}, _v_)", ex)
    lg = find("if _c_:\n    _v_ = np.log10(_v_)", ex)
    pw = find("if _c_:\n    _w_ = 10**_w_", ex)
    ok = len(lg) == 1 and len(pw) == 1 and len(avg) == 1 and \
        lg[0][1]['_c_'] == pw[0][1]['_c_'] and \
        lg[0][1]['_v_'] == avg[0][1]['_v_'] and \
        pw[0][1]['_w_'] == avg[0][1]['_w_'] and \
        lg[0][0].lineno < avg[0][0].lineno < pw[0][0].lineno
    # the condition: logarithmic averaging unless the property is a
    # logarithm already (mapped property of an Lg*/Ln* map); evaluated over
    # the map names and mapped / unmapped properties
    if ok:
        cnd = lg[0][0].test
        lpv = [n for n in ast.walk(ex) if isinstance(n, ast.For) and
               ast.unparse(n.iter) == 'self._def_properties'][0]
        env_defs = [st for st in lpv.body if isinstance(st, ast.Assign)
                    and isinstance(st.targets[0], ast.Name) and
                    st.lineno < lg[0][0].lineno and
                    'getattr' not in ast.unparse(st.value)]
        from ..core.tables import FiniteEval as _FE
        for mname in ('Conductivity', 'LgConductivity', 'LnResistivity'):
            for prop_, mapped_ in (('property_x', True), ('mu_r', False),
                                   ('epsilon_r', False)):
                fe = _FE({'self.map.name': mname, lpv.target.id: prop_,
                          'self._properties': ['property_x', 'property_y',
                                               'property_z', 'mu_r',
                                               'epsilon_r']}, where=mm.rel)
                for st in env_defs:
                    fe.env[st.targets[0].id] = fe.ev(st.value)
                got = bool(fe.ev(cnd))
                want = not (mapped_ and mname.startswith('L'))
                ctx.check('C19.L1.average', f'extract_1d: log averaging of '
                          f'{prop_} under {mname}', got == want,
                          f'log averaging is {got}; a property is averaged in '
                          'log space unless it is a logarithm itself (mu_r / '
                          'epsilon_r are never mapped)', ctx.where(mm, lg[0][0]),
                          sample={'map': mname, 'property': prop_, 'log': got})
    ctx.check('C19.L1.average', 'extract_1d: log10 / 10** guard pairing',
              ok, 'logarithmic averaging is not applied and undone under the '
              'same condition around the weighted sum', ctx.where(mm, ex))
    loops = [n for n in ast.walk(ex) if isinstance(n, ast.For) and
             ast.unparse(n.iter) == 'self._def_properties']
    ctx.check('C19.L1.average', 'extract_1d: every defined property is '
              'extracted', len(loops) >= 1 and has(
                  'Model(grid=__, **_props_, mapping=self.map)', ex),
              'layered model does not carry all properties / the mapping',
              ctx.where(mm, ex))
    # L2
    mp = ctx.repo.mod(MP)
    ly = mp.func('layered')
    lp_ = au.params(ly)[0]

    def local_of(key):
        f = find(f"_x_ = {lp_}['{key}']", ly) or find(
            f"_x_ = {lp_}.get('{key}', None)", ly)
        ctx.anchor(len(f) == 1, f"local bound to inp['{key}'] in layered()")
        return f[0][1]['_x_']
    obs, wgt, res = local_of('observed'), local_of('weights'), \
        local_of('residual')
    fr = find(f"_f_ = np.array([_q_ for _q_ in {lp_}['frequencies']"
              ".values()])", ly)
    ctx.anchor(len(fr) == 1, 'frequency vector in layered()')
    freqs = fr[0][1]['_f_']
    rloop = find(f"for _i_, (_k_, _r_) in enumerate(_recs_.items()):\n"
                 "    __", ly) or [
        (n, {}) for n in ast.walk(ly) if isinstance(n, ast.For) and
        '.items()' in ast.unparse(n.iter) and 'enumerate' in
        ast.unparse(n.iter)]
    ctx.anchor(len(rloop) >= 1, 'receiver loop in layered()')
    loop = rloop[0][0]
    i_, k_ = loop.target.elts[0].id, loop.target.elts[1].elts[0].id
    m1 = find(f'_fi_ = np.isfinite({obs}.loc[{k_}, :].data)', loop)
    ctx.check('C19.L2.mask', 'layered: mask from the observed data of this '
              'receiver', len(m1) == 1, 'finite mask is not '
              'isfinite(observed[receiver])', ctx.where(mp, loop))
    fi = m1[0][1]['_fi_'] if m1 else 'fi'
    ctx.check('C19.L2.mask', 'layered: all-true mask without observations',
              has(f'{fi} = np.ones({freqs}.size, dtype=bool)', loop),
              'without observations not all frequencies are computed',
              ctx.where(mp, loop))
    ctx.check('C19.L2.mask', 'layered: receivers without finite data are '
              'skipped', has(f'if {fi}.sum() == 0:\n    continue', loop),
              'receivers without finite observations are not skipped',
              ctx.where(mp, loop))
    for what, pat in (('frequencies', f'_x_ = {freqs}[{fi}]'),
                      ('observed', f'_x_ = {obs}.loc[{k_}, :].data[{fi}]'),
                      ('weights', f'_x_ = {wgt}.loc[{k_}, :].data[{fi}]'),
                      ('residual', f'_x_ = {res}.loc[{k_}, :].data[{fi}]'),
                      ('output slots', f'_o_[{i_}, {fi}] = _empymod_fwd('
                       '__, __, __)')):
        ctx.check('C19.L2.mask', f'layered: finite mask applied to {what}',
                  has(pat, loop), f'{what} are not restricted with the '
                  'finite-observation mask of this receiver',
                  ctx.where(mp, loop), sample={'array': what})
    ctx.floor('C19.L2.mask', 8)
    m2c = find('_m_ = _oned_.map.backward', loop)
    ok = False
    if m2c:
        m2, oned = m2c[0][1]['_m_'], m2c[0][1]['_oned_']
        vt = find("_vti_ = _mod_.case == 'VTI'", ly)
        ok = bool(vt) and has(f'_h_ = {m2}({oned}.property_x[0, 0, :])',
                              loop) and has(
            f'_v_ = None if not {vt[0][1]["_vti_"]} else '
            f'{m2}({oned}.property_z[0, 0, :])', loop)
    ctx.check('C19.L2.backward', 'layered: conductivities through '
              'map.backward', ok, 'horizontal / vertical conductivities are '
              'not map.backward of property_x / property_z (VTI only)',
              ctx.where(mp, ly))
    ctx.check('C19.L2.backward', 'layered: receiver loop order = data order',
              ast.unparse(loop.iter).replace(' ', '').startswith(
                  'enumerate(') and '.items()' in ast.unparse(loop.iter),
              'receiver loop does not follow the data order',
              ctx.where(mp, ly))
    g0 = find('_o_[0, ...] += _fd_gradient(_h_, _v_, __, __, __, __, __, '
              'vertical=False)', loop)
    g2 = find('_o_[2, ...] += _fd_gradient(_h_, _v_, __, __, __, __, __, '
              'vertical=True)', loop)
    ctx.check('C19.L2.backward', 'layered: gradient slots',
              len(g0) == 1 and len(g2) == 1, 'horizontal / vertical '
              'gradients are not accumulated into components 0 / 2',
              ctx.where(mp, ly))
    # L3
    ef = mp.func('_empymod_fwd')
    ep = au.params(ef)
    sh, sv = sp.symbols('sh sv', positive=True)
    call0 = au.calls(ef, 'bipole')
    ctx.anchor(len(call0) == 1, 'bipole call in _empymod_fwd')
    akw = [k.value for k in call0[0].keywords if k.arg == 'aniso']
    ctx.anchor(len(akw) == 1 and isinstance(akw[0], ast.Name),
               'aniso keyword of bipole')
    an = [n for n in ast.walk(ef) if isinstance(n, ast.Assign) and
          ast.unparse(n.targets[0]) == akw[0].id]
    ctx.anchor(len(an) >= 1, 'anisotropy in _empymod_fwd')
    lf = Lifter({ep[0]: sh, ep[1]: sv}, {}, mp.rel, strict=True)
    # cases (conditions, value) of the anisotropy: statement guards and
    # conditional expressions; isotropic (None) exactly when no vertical
    # conductivity is given -- never decided from the VALUES (the finite
    # difference of the vertical gradient perturbs sigma_v by a tiny amount)
    from ..core.canon import negate, ct
    cases = []
    for a in an:
        gs = [t if pol else negate(t) for t, pol in au.guards_of(a, ef)]

        def expand(v, cs):
            if isinstance(v, ast.IfExp):
                expand(v.body, cs + [v.test])
                expand(v.orelse, cs + [negate(v.test)])
            else:
                cases.append((cs, v, a))
        expand(a.value, gs)
    none_c, val_c = ct(f'{ep[1]} is None'), ct(f'{ep[1]} is not None')
    nval = 0
    for cs, v, a in cases:
        ctxt = sorted({ast.unparse(c).replace(' ', '') for c in cs})
        if isinstance(v, ast.Constant) and v.value is None:
            ctx.check('C19.L3.empymod', '_empymod_fwd: isotropic only without '
                      'vertical conductivity', ctxt == [none_c],
                      f'aniso=None under {ctxt}: a model with a vertical '
                      'conductivity is computed as isotropic (the response '
                      'and the vertical finite-difference gradient ignore '
                      'sigma_v)', ctx.where(mp, a))
        else:
            nval += 1
            got = lf.lift(v)
            ctx.check('C19.L3.empymod', '_empymod_fwd: aniso = '
                      'sqrt(sigma_h/sigma_v)', equal(got, sp.sqrt(sh / sv))
                      and ctxt == [val_c],
                      f'anisotropy is {got} under {ctxt}; empymod expects '
                      'sqrt(rho_v/rho_h) = sqrt(sigma_h/sigma_v) whenever a '
                      'vertical conductivity is given', ctx.where(mp, a),
                      sample={'lifted': str(got)})
    ctx.anchor(nval >= 1, 'anisotropy value in _empymod_fwd')
    call = au.calls(ef, 'bipole')
    ctx.anchor(len(call) == 1, 'bipole call')
    kws = {k.arg: k.value for k in call[0].keywords if k.arg}
    res = lf.lift(kws['res']) if 'res' in kws else None
    ctx.check('C19.L3.empymod', '_empymod_fwd: res = 1/sigma_h',
              res is not None and equal(res, 1 / sh) and
              ast.unparse(kws.get('aniso')) == akw[0].id,
              f'resistivity handed to empymod is {res}', ctx.where(mp, ef),
              sample={'lifted': str(res)})
    # L4
    gp = mp.func('_get_points')
    gps = au.params(gp)
    for method, want in (('source', ('S', 'S', 'midpoint')),
                         ('receiver', ('R', 'R', 'midpoint')),
                         ('cylinder', ('S', 'R', 'cylinder')),
                         ('midpoint', ('S', 'R', 'midpoint'))):
        for relative in (False, True):
            # 'r' = position as given, 'R' = absolute position
            fe = FiniteEval({
                gps[0]: method, f'{gps[1]}.center[:2]': 'S',
                f'{gps[2]}.center[:2]': 'r' if relative else 'R',
                f'{gps[2]}.center_abs({gps[1]})[:2]': 'R',
                f"getattr({gps[2]}, 'relative', False)": relative,
                f'{gps[2]}.relative': relative}, where=mp.rel)
            r = fe.call(gp)
            got = (r.get('p0'), r.get('p1'), r.get('method')) if isinstance(
                r, dict) else None
            ctx.check('C19.L4.points', f'_get_points method={method} '
                      f'relative={relative}', got == want,
                      f'points/method are {got}, documented {want} (S: source '
                      'centre, R: absolute receiver centre, r: receiver '
                      'position as given)', ctx.where(mp, gp),
                      sample={'method': method, 'relative': relative,
                              'result': list(got or [])})
    # receivers may be given relative to the source: every position of a
    # receiver used by the layered path is the absolute one (as in the 3D
    # path, Survey._rec_types_coord), never the raw coordinates / centre
    ly = mp.func('layered')
    rl = find('for _i_, (_k_, _r_) in enumerate(_recs_.items()):\n    __', ly)
    ctx.anchor(len(rl) == 1, 'receiver loop in layered()')
    rv = rl[0][1]['_r_']
    sv = find("_s_ = _inp_['src']", ly)
    ctx.anchor(len(sv) == 1, 'source in layered()')
    sname = sv[0][1]['_s_']
    for fn_, R, S in ((ly, rv, sname),):
        raw = [n for n in ast.walk(fn_) if isinstance(n, ast.Attribute) and
               isinstance(n.value, ast.Name) and n.value.id == R and
               n.attr in ('coordinates', 'center', 'points')]
        ctx.check('C19.L3.absolute', f'{fn_.name}: receiver position is '
                  'absolute', not raw, f'`{ast.unparse(raw[0]) if raw else ""}`'
                  ' is the position as given; for relative=True receivers it '
                  'is an offset from the source and the 1D response / '
                  f'extraction point must use {R}.coordinates_abs({S}) / '
                  f'{R}.center_abs({S})', ctx.where(mp, raw[0] if raw else fn_))
    # the source moment: the 1D modeller applies `strength` only if > 0 and
    # has no notion of the length of a point-format dipole, so it is called
    # for a unit source and the response multiplied by strength x length
    # (x s mu0 for the current loop that represents a magnetic dipole)
    sdict = [d for d in ast.walk(ly) if isinstance(d, ast.Dict) and any(
        isinstance(k, ast.Constant) and k.value == 'msrc' for k in d.keys)]
    ctx.anchor(len(sdict) == 1, 'source entries of the empymod input')
    kvs = {k.value: v for k, v in zip(sdict[0].keys, sdict[0].values)
           if isinstance(k, ast.Constant)}
    unit_src = 'strength' in kvs and isinstance(kvs['strength'], ast.Constant) \
        and kvs['strength'].value == 0
    mom_defs = [n for n in ast.walk(ly) if isinstance(n, ast.Assign) and
                isinstance(n.targets[0], ast.Name) and
                f'{sname}.strength' in ast.unparse(n.value)]
    with_len = any('.length' in ast.unparse(n.value) for n in mom_defs) and \
        any('norm' in ast.unparse(n.value) for n in mom_defs)
    ef_ = mp.func('_empymod_fwd')
    applied = bool(find('_m_ = _i_.pop(\'moment\', __)', ef_)) and any(
        isinstance(r.value, ast.BinOp) and isinstance(r.value.op, ast.Mult)
        and 'bipole(' in ast.unparse(r.value)
        for r in ast.walk(ef_) if isinstance(r, ast.Return))
    handed = any(isinstance(k, ast.Constant) and k.value == 'moment'
                 for d in ast.walk(ly) if isinstance(d, ast.Dict)
                 for k in d.keys)
    ctx.check('C19.L3.moment', 'layered: source moment = strength x length '
              'applied to the unit response', unit_src and with_len and
              applied and handed,
              'the strength is handed to the 1D modeller as it is (ignored '
              'unless > 0) and the length of a point-format dipole is not '
              'used: the response of a dipole (x, y, z, azm, dip) with '
              'length L is too small by 1/L, a strength <= 0 gives the unit '
              'response', ctx.where(mp, sdict[0]),
              sample={'strength_entry': ast.unparse(kvs.get(
                  'strength', ast.Constant(None)))})
    src_ok_fmt = 'src' in kvs and ast.unparse(kvs['src']) != \
        f'{sname}.coordinates'
    ctx.check('C19.L3.moment', 'layered: source coordinates in a format the '
              '1D modeller accepts', src_ok_fmt,
              f'`{sname}.coordinates` is handed over as stored: the '
              'documented two-electrode format [[x1,y1,z1],[x2,y2,z2]] is a '
              '(2, 3) array, which the modeller rejects',
              ctx.where(mp, sdict[0]))
    pair_ok = False
    for d in ast.walk(ly):
        if isinstance(d, ast.Dict):
            kv_ = {k.value: ast.unparse(v).replace(' ', '')
                   for k, v in zip(d.keys, d.values)
                   if isinstance(k, ast.Constant)}
            if 'mrec' in kv_:
                pair_ok = kv_['mrec'] == ct(f"{rv}.xtype != 'electric'")
    src_ok = any(isinstance(d, ast.Dict) and any(
        isinstance(k, ast.Constant) and k.value == 'msrc' and
        ast.unparse(v).replace(' ', '') ==
        ct(f"{sname}.xtype != 'electric'")
        for k, v in zip(d.keys, d.values)) for d in ast.walk(ly))
    ctx.check('C19.L3.absolute', 'layered: msrc / mrec from source / '
              'receiver type', pair_ok and src_ok, 'the magnetic flags of the '
              '1D modeller are not taken from the source for msrc and from '
              'the receiver for mrec', ctx.where(mp, ly))
    ctx.check('C19.L3.absolute', 'layered: receiver handed to empymod',
              has(f"{{__: __, 'rec': {rv}.coordinates_abs({sname})}}", ly) or
              any(isinstance(d, ast.Dict) and any(
                  isinstance(k, ast.Constant) and k.value == 'rec' and
                  ast.unparse(v) == f'{rv}.coordinates_abs({sname})'
                  for k, v in zip(d.keys, d.values)) for d in ast.walk(ly)),
              "the 'rec' entry of the empymod input is not the absolute "
              'receiver coordinate', ctx.where(mp, ly))
    fd = mp.func('_fd_gradient')
    fp = au.params(fd)
    q = find('_g_[_k_] = (_fdm_ - ' + fp[4] + ') / _delta_', fd)
    ok = len(q) == 1
    if ok:
        bq = q[0][1]
        ok = has(f'{bq["_delta_"]} = _c_[{bq["_k_"]}] * _rel_', fd) and has(
            f'_c_[{bq["_k_"]}] += {bq["_delta_"]}', fd)
    ctx.check('C19.L4.fd', '_fd_gradient: difference quotient', bool(ok),
              'finite-difference gradient is not (phi_pert - phi)/delta with '
              'the perturbed layer only', ctx.where(mp, fd))
    cp = find(f'_c_ = {fp[0]}.copy() if not {fp[7]} else {fp[1]}.copy()', fd)
    ok = len(cp) == 1 and has(
        f'_r_ = _empymod_fwd({fp[0]}, {cp[0][1]["_c_"]}, {fp[5]})', fd) and \
        has(f'_r_ = _empymod_fwd({cp[0][1]["_c_"]}, {fp[1]}, {fp[5]})', fd)
    ctx.check('C19.L4.fd', '_fd_gradient: perturbs a copy of the right '
              'conductivity', bool(ok), 'perturbation does not act on a copy '
              'of the horizontal / vertical conductivity', ctx.where(mp, fd))
    ctx.check('C19.L4.fd', '_fd_gradient: distributed by the extraction '
              'weights', has(f'return {fp[6]}[..., None] * _g_[None, :]', fd),
              'layer gradient is not distributed to the cells by imat',
              ctx.where(mp, fd))
    ctx.floor('C19.L4.points', 8)
    # nothing is remembered by the layered computation between calls (rule
    # of C12, shared): e.g. "are there observed data" is a fact about the
    # survey NOW
    from .c12 import rule_new_state
    rule_new_state(ctx, 'C19.L2.state', only=('_compute_1d',
                                              '_set_layered_opts', 'compute',
                                              'gradient', 'misfit'))
    # a source given as two electrodes [[x1, y1, z1], [x2, y2, z2]] is handed
    # to the 1D modeller as (x1, x2, y1, y2, z1, z2): column-major flattening
    from ..core.template import find as _find
    mp_ = ctx.repo.mod('emg3d/_multiprocessing.py')
    lay_ = mp_.func('layered')
    rv = [c for c in ast.walk(lay_) if isinstance(c, ast.Call) and isinstance(
        c.func, ast.Attribute) and c.func.attr in ('ravel', 'flatten',
                                                   'reshape') and any(
        '.ndim == 2' in g or '.ndim==2' in g
        for g in au.guard_texts(au.enclosing_stmt(c), lay_))]
    okr = len(rv) == 1 and rv[0].func.attr in ('ravel', 'flatten') and (
        [ast.unparse(a) for a in rv[0].args] == ["'F'"] or
        {k.arg: ast.unparse(k.value) for k in rv[0].keywords} ==
        {'order': "'F'"})
    ctx.check('C19.L3.moment', 'layered: two-electrode coordinates in the '
              'order of the 1D modeller', okr, 'a (2, 3) electrode array is '
              'not flattened column-major (x1, x2, y1, y2, z1, z2): the 1D '
              'modeller gets another bipole and the moment is taken from '
              'the wrong coordinate differences',
              ctx.where(mp_, rv[0] if rv else lay_))
