"""C19 - layered (1D) mode agrees with the 1D reference modeller
(structural clauses; agreement with empymod is not decided).

Rules (DESIGN.md 4/C19):
  L1  extract_1d: weights are an outer product of widths (times the ellipse
      mask), normalised by their sum before they are stored; midpoint weight
      is one; log-average guard pairing
  L2  layered(): one finite mask selects frequencies, observed, weights,
      residual and the output slots; conductivities through map.backward
  L3  _empymod_fwd: res = 1/sigma_h, aniso = sqrt(sigma_h/sigma_v)
  L4  _get_points table; finite-difference quotient distributed by imat
"""
import ast

import sympy as sp

from ..core import astutil as au
from ..core.report import AnalysisError
from ..core.tables import FiniteEval
from ..expr.lift import Lifter, equal

LEVEL = 'other'
MP = 'emg3d/_multiprocessing.py'
MODELS = 'emg3d/models.py'


def run(ctx):
    ctx.explanation = (
        'Structural clauses of the layered path are read off the AST: '
        'normalisation of the extraction weights dominates their use, the '
        'finite mask is applied to every per-frequency array, the empymod '
        'inputs are lifted symbolically, the source/receiver point table is '
        'evaluated over its three methods.')
    ctx.assumptions = ['A9 empymod.bipole(res, aniso) with aniso = '
                       'sqrt(rho_v/rho_h); empymod itself is trusted']
    mm = ctx.repo.mod(MODELS)
    ex = mm.method('Model', 'extract_1d')
    # L1: pp normalised before being stored into imat
    pps = [n for n in ast.walk(ex) if isinstance(n, ast.Assign) and
           ast.unparse(n.targets[0]) == 'pp']
    norm = [n for n in ast.walk(ex) if isinstance(n, ast.AugAssign) and
            ast.unparse(n.target) == 'pp' and isinstance(n.op, ast.Div)]
    store = [n for n in ast.walk(ex) if isinstance(n, ast.Assign) and
             ast.unparse(n.targets[0]).startswith('imat[')]
    ctx.anchor(len(store) == 1 and pps, 'extraction weights in extract_1d')
    ok = len(norm) == 1 and ast.unparse(norm[0].value).replace(' ', '') == \
        'pp.sum()' and norm[0].lineno < store[0].lineno and \
        ast.unparse(store[0].value) == 'pp'
    ctx.check('C19.L1.weights', 'extract_1d: weights normalised before use',
              ok, 'extraction weights are stored without being divided by '
              'their sum (they must sum to one)', ctx.where(mm, store[0]))
    outer = [n for n in pps if 'np.outer' in ast.unparse(n.value)]
    ok = len(outer) == 1 and ast.unparse(outer[0].value).replace(' ', '') == \
        'np.outer(self.grid.h[0][six:eix+1],self.grid.h[1][siy:eiy+1])'
    ctx.check('C19.L1.weights', 'extract_1d: weights = outer product of cell '
              'widths', ok, 'weights are not hx (x) hy of the selected cells '
              '(area weighting)', ctx.where(mm, ex))
    mask = [n for n in ast.walk(ex) if isinstance(n, ast.AugAssign) and
            ast.unparse(n.target) == 'pp' and isinstance(n.op, ast.Mult)]
    ok = len(mask) == 1 and ast.unparse(mask[0].value).replace(' ', '') == \
        'use[six:eix+1,siy:eiy+1]' and mask[0].lineno < norm[0].lineno and \
        [ast.unparse(t).replace(' ', '') for t, p in
         au.guards_of(mask[0], ex) if p][-1] == "method=='cylinder'"
    ctx.check('C19.L1.weights', 'extract_1d: ellipse mask before the '
              'normalisation', ok, 'ellipse mask is not applied (cylinder '
              'only) before the weights are normalised', ctx.where(mm, ex))
    one = [n for n in pps if ast.unparse(n.value) == '1.0']
    ctx.check('C19.L1.weights', 'extract_1d: midpoint weight is one',
              len(one) == 1, 'midpoint extraction does not use weight 1',
              ctx.where(mm, ex))
    t = ast.unparse(ex).replace(' ', '')
    ctx.check('C19.L1.average', 'extract_1d: log10 / 10** guard pairing',
              t.count("ifnotself.map.name.startswith('L'):") == 2 and
              'values=np.log10(values)' in t and 'val=10**val' in t and
              "val=np.einsum('ij,ijk->k',imat,values)" in t,
              'logarithmic averaging is not applied and undone under the '
              'same condition', ctx.where(mm, ex))
    ctx.check('C19.L1.average', 'extract_1d: every defined property is '
              'extracted', 'forpropinself._def_properties:' in t and
              'props[prop]=val' in t and
              'layered=Model(grid=grid_out,**props,mapping=self.map)' in t,
              'layered model does not carry all properties / the mapping',
              ctx.where(mm, ex))
    # L2
    mp = ctx.repo.mod(MP)
    ly = mp.func('layered')
    t = ast.unparse(ly).replace(' ', '')
    fi_def = [n for n in ast.walk(ly) if isinstance(n, ast.Assign) and
              ast.unparse(n.targets[0]) == 'fi']
    ctx.anchor(len(fi_def) == 2, 'finite mask in layered()')
    for what, pat in (('frequencies', 'freqs=frequencies[fi]'),
                      ('observed', 'obs=observed.loc[rkey,:].data[fi]'),
                      ('weights', 'wgt=weights.loc[rkey,:].data[fi]'),
                      ('residual', 'res=residual.loc[rkey,:].data[fi]'),
                      ('output slots', 'out[i,fi]=_empymod_fwd(')):
        ctx.check('C19.L2.mask', f'layered: finite mask applied to {what}',
                  pat in t, f'{what} are not restricted with the finite-'
                  'observation mask of this receiver', ctx.where(mp, ly),
                  sample={'array': what})
    ctx.check('C19.L2.mask', 'layered: mask from the observed data of this '
              'receiver', 'fi=np.isfinite(observed.loc[rkey,:].data)' in t and
              'fi=np.ones(frequencies.size,dtype=bool)' in t and
              'iffi.sum()==0:continue' in t.replace('\n', ''),
              'finite mask is not isfinite(observed[receiver]) / all-true '
              'without observations', ctx.where(mp, ly))
    ctx.floor('C19.L2.mask', 6)
    ctx.check('C19.L2.backward', 'layered: conductivities through '
              'map.backward', 'map2cond=oned.map.backward' in t and
              'cond_h=map2cond(oned.property_x[0,0,:])' in t and
              'cond_v=Noneifnotvtielsemap2cond(oned.property_z[0,0,:])' in t
              and "vti=model.case=='VTI'" in t,
              'horizontal / vertical conductivities are not map.backward of '
              'property_x / property_z (VTI only)', ctx.where(mp, ly))
    ctx.check('C19.L2.backward', 'layered: receiver loop order = data order',
              'fori,(rkey,rec)inenumerate(receivers.items()):' in t,
              'receiver loop does not follow the data order',
              ctx.where(mp, ly))
    ctx.check('C19.L2.backward', 'layered: gradient slots',
              'out[0,...]+=_fd_gradient(cond_h,cond_v,obs,wgt,misfit,'
              'empymod_inp,imat,vertical=False)' in t and
              'out[2,...]+=_fd_gradient(cond_h,cond_v,obs,wgt,misfit,'
              'empymod_inp,imat,vertical=True)' in t,
              'horizontal / vertical gradients are not accumulated into '
              'components 0 / 2', ctx.where(mp, ly))
    # L3
    ef = mp.func('_empymod_fwd')
    ep = au.params(ef)
    sh, sv = sp.symbols('sh sv', positive=True)
    an = [n for n in ast.walk(ef) if isinstance(n, ast.Assign) and
          ast.unparse(n.targets[0]) == 'aniso']
    ctx.anchor(len(an) == 1 and isinstance(an[0].value, ast.IfExp),
               'anisotropy in _empymod_fwd')
    lf = Lifter({ep[0]: sh, ep[1]: sv}, {}, mp.rel, strict=True)
    got = lf.lift(an[0].value.orelse)
    ctx.check('C19.L3.empymod', '_empymod_fwd: aniso = sqrt(sigma_h/sigma_v)',
              equal(got, sp.sqrt(sh / sv)) and ast.unparse(
                  an[0].value.test).replace(' ', '') == f'{ep[1]}isNone',
              f'anisotropy is {got}; empymod expects sqrt(rho_v/rho_h) = '
              'sqrt(sigma_h/sigma_v)', ctx.where(mp, an[0]),
              sample={'lifted': str(got)})
    call = au.calls(ef, 'bipole')
    ctx.anchor(len(call) == 1, 'bipole call')
    kws = {k.arg: k.value for k in call[0].keywords if k.arg}
    res = lf.lift(kws['res']) if 'res' in kws else None
    ctx.check('C19.L3.empymod', '_empymod_fwd: res = 1/sigma_h',
              res is not None and equal(res, 1 / sh) and
              ast.unparse(kws.get('aniso')) == 'aniso',
              f'resistivity handed to empymod is {res}', ctx.where(mp, ef),
              sample={'lifted': str(res)})
    # L4
    gp = mp.func('_get_points')
    gps = au.params(gp)
    for method, want in (('source', ('S', 'S', 'midpoint')),
                         ('receiver', ('R', 'R', 'midpoint')),
                         ('cylinder', ('S', 'R', 'cylinder')),
                         ('midpoint', ('S', 'R', 'midpoint'))):
        fe = FiniteEval({gps[0]: method, f'{gps[1]}.center[:2]': 'S',
                         f'{gps[2]}.center[:2]': 'R'}, where=mp.rel)
        r = fe.call(gp)
        got = (r.get('p0'), r.get('p1'), r.get('method')) if isinstance(
            r, dict) else None
        ctx.check('C19.L4.points', f'_get_points method={method}',
                  got == want, f'points/method are {got}, documented {want}',
                  ctx.where(mp, gp), sample={'method': method,
                                             'result': list(got or [])})
    fd = mp.func('_fd_gradient')
    t = ast.unparse(fd).replace(' ', '')
    ctx.check('C19.L4.fd', '_fd_gradient: difference quotient',
              'grad[iz]=(fd_misfit-misfit)/delta' in t and
              'delta=cond_p[iz]*rel_diff' in t and 'cond_p[iz]+=delta' in t,
              'finite-difference gradient is not (phi_pert - phi)/delta with '
              'the perturbed layer only', ctx.where(mp, fd))
    ctx.check('C19.L4.fd', '_fd_gradient: perturbs a copy of the right '
              'conductivity', 'cond_p=cond_h.copy()ifnotverticalelse'
              'cond_v.copy()' in t and
              'response=_empymod_fwd(cond_h,cond_p,empymod_inp)' in t and
              'response=_empymod_fwd(cond_p,cond_v,empymod_inp)' in t,
              'perturbation does not act on a copy of the horizontal / '
              'vertical conductivity', ctx.where(mp, fd))
    ctx.check('C19.L4.fd', '_fd_gradient: distributed by the extraction '
              'weights', 'returnimat[...,None]*grad[None,:]' in t,
              'layer gradient is not distributed to the cells by imat',
              ctx.where(mp, fd))
    ctx.floor('C19.L4.points', 4)
