"""C03 - every smoother is a consistent relaxation of the same linear system.

Rules (DESIGN.md 4/C03):
  S1  point smoother: the 6x6 local system consists of rows of A_ref
  S2  line smoothers: block equations (first / generic / last-but-one / last
      block) assembled from the banded matrix are rows of A_ref
  S3  band placement: every matrix store lands inside the band of core.solve
  S4  no store to a tangential boundary edge (write intervals)
  S5  core.solve: subscripts / loop bounds of one band format
  S6  dispatch and two-cell adaptation tables (finite-domain evaluation)
  SA  affinity: matrix entries are field-free, rhs is source + field terms
"""
import ast
from fractions import Fraction as Fr

from ..core import astutil as au
from ..core.report import AnalysisError
from ..core.tables import FiniteEval
from ..stencil import kernels
from ..stencil.alg import Aff, Lin, Rat, idx_key, fmt_atom
from ..stencil.interp import subst_lin
from ..stencil.reference import RefOp

LEVEL = 'proof'
CORE = 'emg3d/core.py'
SOLVER = 'emg3d/solver.py'
LR_AXES = {0: set(), 1: {0}, 2: {1}, 3: {2}, 4: {1, 2}, 5: {0, 2}, 6: {0, 1},
           7: {0, 1, 2}}
DIMSYM = ('nx', 'ny', 'nz')


def divmod_aff(j, q):
    """j = q*quot + rem with 0 <= rem < q (symbol coefficients divisible)."""
    for s, k in j.t.items():
        if k % q != 0:
            raise AnalysisError(f'band index {j} is not of stride {q}')
    c = j.c
    if c.denominator != 1:
        raise AnalysisError(f'non-integer band index {j}')
    rem = int(c) % q
    quot = Aff((int(c) - rem) // q, {s: k / q for s, k in j.t.items()})
    return quot, rem


def single_cell(lin):
    if len(lin.terms) == 1 and lin.c.iszero():
        (cell, coef), = lin.terms.items()
        if coef == Rat.const(1):
            return cell
    return None


def is_boundary(cell, enames, dims=None):
    """Tangential boundary edge: a transverse node index is 0 or n."""
    name, ik = cell
    if name not in enames:
        return False
    a = enames.index(name)
    for t in range(3):
        if t == a:
            continue
        x = Aff.from_key(ik[t])
        if x.is_const() and x.c == 0:
            return True
        if x == Aff.sym(DIMSYM[t]).subs(dims or {}):
            return True
    return False


def drop_boundary(lin, enames, dims=None):
    return Lin({c: v for c, v in lin.terms.items()
                if not is_boundary(c, enames, dims)}, lin.c)


def refop(names):
    return RefOp(fields=tuple(names[0:3]), widths=tuple(names[10:13]),
                 etas=tuple(names[6:9]), zeta=names[9])


def check_bounds(ctx, mod, it, fname):
    for node, arr, ax, a, n, c in it.oob:
        ctx.fail('C03.S4.bounds', f'{fname} {arr} axis {ax} `{au.stext(node)}`',
                 f'subscript {a} can leave [0, {n}-1] of {arr}',
                 ctx.where(mod, node))
    ctx.ok('C03.S4.bounds', f'{fname}: no out-of-range subscript '
           f'({it.steps} abstract steps)', nontrivial=not it.oob)


def write_intervals(ctx, mod, it, fname, enames):
    """S4: transverse node indices of stored edges stay in [1, n-1]."""
    for s in it.stores:
        if s.arr not in enames:
            ctx.fail('C03.S4.writes', f'{fname} store to {s.arr}',
                     'smoother stores to an array that is not the field',
                     ctx.where(mod, s.node))
            continue
        a = enames.index(s.arr)
        bad = []
        for t in range(3):
            if t == a:
                continue
            mn, _ = it.bounds_in(s.idx[t], s.ctx)
            _, mx = it.bounds_in(s.idx[t] - Aff.sym(DIMSYM[t]) + 1, s.ctx)
            if mn is None or mn < 1 or mx is None or mx > 0:
                bad.append(f'axis {"xyz"[t]} index {s.idx[t]}')
        cls = ','.join(f'{k}={v}' for k, v in sorted(
            s.ctx['classes'].items()) if v != 'all')
        ctx.check('C03.S4.writes',
                  f'{fname} `{au.stext(s.node)}` [{cls}]', not bad,
                  'store can hit a tangential boundary edge: ' + '; '.join(bad),
                  ctx.where(mod, s.node),
                  sample={'store': au.stext(s.node), 'index':
                          [repr(i) for i in s.idx]})


# ---------------------------------------------------------------------------
def point_smoother(ctx, mod):
    fname = 'gauss_seidel'
    it = kernels.interpret(mod, fname)
    names = it.pnames
    enames, snames = names[0:3], names[3:6]
    ref = refop(names[0:3] + names[3:])   # e, (s ignored), coefs
    ref = RefOp(fields=tuple(enames), widths=tuple(names[10:13]),
                etas=tuple(names[6:9]), zeta=names[9])
    check_bounds(ctx, mod, it, fname)
    write_intervals(ctx, mod, it, fname, enames)
    sol = [c for c in it.calls if c.name == 'solve']
    ctx.anchor(len(sol) == 1, 'one call of solve() in gauss_seidel')
    amat, rhs = sol[0].args[0], sol[0].args[1]
    ctx.anchor(isinstance(amat, list) and isinstance(rhs, list),
               'local system arrays of gauss_seidel')
    n = len(rhs)
    unk = {}
    for s in it.stores:
        cell = single_cell(s.value)
        if cell is None or not cell[0].startswith('@solve'):
            ctx.fail('C03.S1.writeback', f'{fname} `{au.stext(s.node)}`',
                     'stored value is not a component of the local solution',
                     ctx.where(mod, s.node))
            continue
        k = Aff.from_key(cell[1][0]).int()
        unk[k] = (s.arr, idx_key(s.idx))
    ctx.need(len(unk) == n, f'gauss_seidel: {len(unk)} of {n} unknowns are '
             'written back')
    A = {}
    for j, val in enumerate(amat):
        if not isinstance(val, Lin):
            continue
        if val.iszero():
            continue
        col, d = divmod(j, 6)
        row = col + d
        if not val.ispure():
            ctx.fail('C03.SA.affine', f'{fname} amat[{j}]',
                     'matrix entry depends on the field (update not affine)',
                     ctx.where(mod, sol[0].node))
            continue
        if row >= n:
            ctx.fail('C03.S3.band', f'{fname} amat[{j}]',
                     'entry outside the 6x6 band layout',
                     ctx.where(mod, sol[0].node))
            continue
        A[(row, col)] = val
    ctx.ok('C03.SA.affine', f'{fname}: {len(A)} matrix entries field-free')
    for k in range(n):
        cell = unk[k]
        a = enames.index(cell[0])
        lhs = Lin()
        for j in range(n):
            v = A.get((max(k, j), min(k, j)))
            if v is not None:
                lhs = lhs + Lin.cell(unk[j]) * v
        rform = rhs[k] - Lin.cell((snames[a], cell[1]))
        dirty = [c for c in rform.terms
                 if c in unk.values() or c[0] in snames]
        ctx.check('C03.S1.rhs', f'{fname} unknown {k} {fmt_atom(cell)}',
                  not dirty, 'right-hand side contains unknowns/sources: '
                  + ', '.join(fmt_atom(c) for c in dirty[:3]),
                  ctx.where(mod, sol[0].node), obligation=True)
        want = ref.row(a, tuple(Aff.from_key(x) for x in cell[1]))
        got = lhs - rform
        ok = got == want
        ctx.check('C03.S1.row', f'{fname} unknown {k} {fmt_atom(cell)}', ok,
                  'local equation is not the operator row; differs at '
                  + ', '.join(fmt_atom(c) for c in got.diff_first(want)[:4])
                  if not ok else '', ctx.where(mod, sol[0].node),
                  obligation=True,
                  sample={'unknown': fmt_atom(cell), 'cells_in_row':
                          len(want.terms)})
    ctx.floor('C03.S1.row', 6)
    return names


# ---------------------------------------------------------------------------
class BlockData:
    """Banded-system contribution and write-back map of one block class."""
    def __init__(self):
        self.entries = []   # (row Aff, col Aff, val Lin)
        self.rhs = {}       # k -> (row Aff, val Lin)
        self.unk = {}       # k -> cell
        self.B = None       # block index (Aff; symbol 'B' for generic)


def line_smoother(ctx, mod, fname, line):
    it = kernels.interpret(mod, fname)
    names = it.pnames
    enames, snames = names[0:3], names[3:6]
    ref = RefOp(fields=tuple(enames), widths=tuple(names[10:13]),
                etas=tuple(names[6:9]), zeta=names[9])
    check_bounds(ctx, mod, it, fname)
    write_intervals(ctx, mod, it, fname, enames)
    sol = [c for c in it.calls if c.name == 'solve']
    ctx.anchor(len(sol) == 1, f'one call of solve() in {fname}')
    mat, vec = sol[0].args[0], sol[0].args[1]
    ctx.anchor(hasattr(mat, 'name') and hasattr(vec, 'name'),
               f'banded system arrays of {fname}')
    nsym = DIMSYM[line]
    B = Aff.sym('B')

    # --- group matrix / rhs stores by class of the line loop ------------------
    def line_class(c):
        cl = {k: v for k, v in c['classes'].items() if v != 'all'}
        if len(cl) != 1:
            raise AnalysisError(f'{fname}: expected exactly the line loop to '
                                f'be peeled, got {c["classes"]}')
        return next(iter(cl.items()))

    blocks = {}

    def blk(label):
        return blocks.setdefault(label, BlockData())

    def to_block(j_row, sym, label):
        """Substitution making the block index the symbol B."""
        Bq, k = divmod_aff(j_row, 5)
        if label == 'int':
            # Bq = sym + c  ->  sym := B - c
            if set(Bq.t) != {sym} or Bq.t[sym] != 1:
                raise AnalysisError(f'{fname}: block index {Bq} is not '
                                    f'loop variable + const')
            return {sym: B - Bq.c}, B, k
        return {}, Bq, k

    for name, j, val, c, node in it.symstores:
        if name not in (mat.name, vec.name):
            continue
        sym, label = line_class(c)
        bd = blk(label)
        if name == vec.name:
            m, Bv, k = to_block(j, sym, label)
            bd.B = Bv
            bd.sub = m
            bd.rhs[k] = (j.subs(m), subst_lin(val, m))
    for name, j, val, c, node in it.symstores:
        if name != mat.name:
            continue
        sym, label = line_class(c)
        bd = blk(label)
        if bd.B is None:
            raise AnalysisError(f'{fname}: no right-hand side stores in '
                                f'block class {label}')
        jj = j.subs(bd.sub)
        col, d = divmod_aff(jj, 6)
        row = col + d
        v = subst_lin(val, bd.sub)
        if not v.ispure():
            ctx.fail('C03.SA.affine', f'{fname} [{label}] `{au.stext(node)}`',
                     'matrix entry depends on the field (update not affine)',
                     ctx.where(mod, node))
            continue
        # S3: entry must belong to this block's rows, inside the band
        rb, rk = divmod_aff(row, 5)
        ok = rb == bd.B
        ctx.check('C03.S3.band', f'{fname} [{label}] matrix index {j}',
                  ok, f'entry lands in row {row} which is not a row of block '
                  f'{bd.B}', ctx.where(mod, node), nontrivial=not v.iszero())
        if not v.iszero():
            bd.entries.append((row, col, v))
    ctx.need({'low', 'high'} <= set(blocks), f'{fname}: first/last block '
             f'classes not distinguished: {sorted(blocks)}')
    ctx.ok('C03.SA.affine', f'{fname}: matrix entries field-free '
           f'({sum(len(b.entries) for b in blocks.values())} non-zero)')

    # --- write-back map -----------------------------------------------------------
    for s in it.stores:
        cell = single_cell(s.value)
        if cell is None or not cell[0].startswith('@solve'):
            ctx.fail('C03.S1.writeback', f'{fname} `{au.stext(s.node)}`',
                     'stored value is not a component of the line solution',
                     ctx.where(mod, s.node))
            continue
        sym, label = line_class(s.ctx)
        j = Aff.from_key(cell[1][0])
        m, Bv, k = to_block(j, sym, label)
        bd = blk(label)
        if not Bv == bd.B:
            ctx.fail('C03.S1.writeback', f'{fname} [{label}] '
                     f'`{au.stext(s.node)}`', f'write-back of block {Bv} in '
                     f'the iteration of block {bd.B}', ctx.where(mod, s.node))
            continue
        idx = tuple(a.subs(m) for a in s.idx)
        bd.unk[k] = (s.arr, idx_key(idx))

    def inst(label, at=None, dims=None):
        """Block data of a class, instantiated at block index `at`."""
        bd = blocks[label]
        m = {}
        if at is not None:
            m['B'] = at
        if dims:
            m.update(dims)
        o = BlockData()
        o.B = bd.B.subs(m)
        o.entries = [(r.subs(m), c.subs(m), subst_lin(v, m))
                     for r, c, v in bd.entries]
        o.rhs = {k: (r.subs(m), subst_lin(v, m)) for k, (r, v) in
                 bd.rhs.items()}
        o.unk = {k: (c[0], tuple(Aff.from_key(x).subs(m).key() for x in c[1]))
                 for k, c in bd.unk.items()}
        return o

    two = {nsym: Aff(2)}
    nlast = Aff.sym(nsym) - 1
    scen = []
    if 'int' in blocks:
        scen.append(('generic block, next generic', inst('int'),
                     [inst('int', B - 1), inst('int', B + 1)]))
        scen.append(('last generic block, next last', inst('int', nlast - 1),
                     [inst('int', nlast - 2), inst('high')]))
        scen.append(('first block, next generic', inst('low'),
                     [inst('int', Aff(1))]))
        scen.append(('last block, previous generic', inst('high'),
                     [inst('int', nlast - 1)]))
    scen.append(('first block, next last (two cells)', inst('low', None, two),
                 [inst('high', None, two)], two))
    scen.append(('last block, previous first (two cells)',
                 inst('high', None, two), [inst('low', None, two)], two))

    # every cell with the name and transverse position of an unknown is an
    # unknown of some block of the line (or a tangential boundary edge)
    famkeys = {(u[0], tuple(x for t, x in enumerate(u[1]) if t != line))
               for bd in blocks.values() for u in bd.unk.values()}
    nrows = 0
    for sc in scen:
        title, me, others = sc[:3]
        dsub = sc[3] if len(sc) > 3 else None
        allb = [me] + others
        glob = {}
        for b in allb:
            for k, cell in b.unk.items():
                glob[(b.B * 5 + k).key()] = cell
        for k in sorted(me.unk):
            cell = me.unk[k]
            if k not in me.rhs:
                ctx.fail('C03.S2.row', f'{fname} {title} unknown {k}',
                         'unknown written back but no equation assembled',
                         ctx.where(mod, sol[0].node), obligation=True)
                continue
            R, rv = me.rhs[k]
            a = enames.index(cell[0])
            lhs = Lin()
            missing = []
            for b in allb:
                for row, col, v in b.entries:
                    if row == R:
                        other = col
                    elif col == R:
                        other = row
                    else:
                        continue
                    oc = glob.get(other.key())
                    if oc is None:
                        missing.append(repr(other))
                        continue
                    lhs = lhs + Lin.cell(oc) * v
            rform = rv - Lin.cell((snames[a], cell[1]))
            # rhs must be free of line unknowns (any block) and other sources
            dirty = [c for c in rform.terms if c[0] in snames or
                     (c[0], tuple(x for t, x in enumerate(c[1]) if t != line))
                     in famkeys]
            cons = f'{fname} {title} unknown {k}'
            ctx.check('C03.S2.rhs', cons, not dirty and not missing,
                      ('right-hand side contains line unknowns/sources: '
                       + ', '.join(fmt_atom(c) for c in dirty[:3]))
                      if dirty else f'matrix couples to rows {missing[:3]} '
                      'that are not unknowns of a neighbouring block',
                      ctx.where(mod, sol[0].node), obligation=True)
            want = drop_boundary(subst_lin(ref.row(a, tuple(
                Aff.from_key(x) for x in cell[1])), dsub or {}), enames, dsub)
            got = drop_boundary(lhs - rform, enames, dsub)
            ok = got == want
            ctx.check('C03.S2.row', cons, ok,
                      'block equation is not the operator row; differs at '
                      + ', '.join(fmt_atom(c) for c in got.diff_first(want)[:4])
                      if not ok else '', ctx.where(mod, sol[0].node),
                      obligation=True,
                      sample={'kernel': fname, 'case': title,
                              'unknown': fmt_atom(cell),
                              'cells_in_row': len(want.terms)})
            nrows += 1
    return nrows


def _affine(e):
    """Integer-affine form {name: coefficient, 1: constant} of an index
    expression, or None."""
    if isinstance(e, ast.Constant) and isinstance(e.value, int):
        return {1: e.value}
    if isinstance(e, ast.Name):
        return {e.id: 1}
    if isinstance(e, ast.BinOp) and isinstance(e.op, (ast.Add, ast.Sub)):
        l, r = _affine(e.left), _affine(e.right)
        if l is None or r is None:
            return None
        sg = 1 if isinstance(e.op, ast.Add) else -1
        out = dict(l)
        for k, v in r.items():
            out[k] = out.get(k, 0) + sg * v
        return out
    if isinstance(e, ast.BinOp) and isinstance(e.op, ast.Mult):
        l, r = _affine(e.left), _affine(e.right)
        if l is None or r is None:
            return None
        if set(l) <= {1}:
            return {k: v * l.get(1, 0) for k, v in r.items()}
        if set(r) <= {1}:
            return {k: v * r.get(1, 0) for k, v in l.items()}
    return None


# ---------------------------------------------------------------------------
def solve_structure(ctx, mod):
    """S5: core.solve uses one band format consistently."""
    fn = mod.func('solve')
    ps = au.params(fn)
    amat, bvec = ps[0], ps[1]
    strides = set()
    nsub = 0
    for n in ast.walk(fn):
        if isinstance(n, ast.Subscript) and isinstance(n.value, ast.Name) \
                and n.value.id == amat:
            nsub += 1
            s = n.slice
            form = None
            lin = _affine(s)
            if lin is not None:
                cf = sorted(abs(v) for k, v in lin.items() if k != 1 and v)
                if cf == [] or cf == [1]:
                    form = ('col0', None)
                elif len(cf) == 1:
                    form = ('diag', cf[0] - 1)
                elif len(cf) == 2 and cf[0] == 1:
                    form = ('r+kc', cf[1])
            if form is None:
                ctx.fail('C03.S5.solve', f'solve `{ast.unparse(n)}`',
                         'matrix subscript is not of the band forms '
                         'r + 5*c / 6*c', ctx.where(mod, n))
                continue
            if form[1] is not None:
                strides.add(form[1])
            ctx.ok('C03.S5.solve', f'solve `{ast.unparse(n)}`',
                   nontrivial=False)
    ctx.check('C03.S5.solve', 'solve band stride', strides == {5},
              f'matrix subscripts use strides {sorted(strides)}, the band '
              'format of the smoothers is row + 5*col', ctx.where(mod, fn),
              sample={'subscripts': nsub, 'stride': sorted(strides)})
    band = 5
    for n in ast.walk(fn):
        if isinstance(n, ast.Call) and ast.unparse(n.func) in ('max', 'min'):
            txt = ast.unparse(n)
            consts = []
            for a in n.args:
                la = _affine(a)
                if la is None:
                    continue
                c0 = la.get(1, 0)
                if set(la) <= {1}:
                    consts.append(('const', c0))
                elif c0 < 0:
                    consts.append(('Sub', -c0))
                elif c0 > 0:
                    consts.append(('Add', c0))
            f = ast.unparse(n.func)
            if f == 'max':
                ok = ('Sub', band) in consts and ('const', 0) in consts
            else:
                ok = ('Add', band + 1) in consts or ('const', band + 1) \
                    in consts
            ctx.check('C03.S5.solve', f'solve `{txt}`', ok,
                      f'loop bound does not span the band of width {band}',
                      ctx.where(mod, n), sample={'bound': txt})
    ctx.floor('C03.S5.solve', 20)
    # the elimination is a fixed sequence of arithmetic operations: no
    # decision may look at the VALUES of the matrix or the right-hand side
    # (a pivot threshold, a skipped "zero" entry, a clipped value make the
    # result differ from the solution of the system that was given)
    arrays, taint = {amat, bvec}, set()

    def reads_values(e):
        for x in ast.walk(e):
            if isinstance(x, ast.Subscript) and isinstance(
                    x.value, ast.Name) and x.value.id in arrays:
                return True
            if isinstance(x, ast.Name) and x.id in taint:
                return True
        return False
    grew = True
    while grew:
        grew = False
        for n in ast.walk(fn):
            tg = None
            if isinstance(n, ast.Assign):
                tg = n.targets
            elif isinstance(n, ast.AugAssign):
                tg = [n.target]
            if not tg:
                continue
            if isinstance(n.value, ast.Name) and n.value.id in arrays:
                for t in tg:
                    if isinstance(t, ast.Name) and t.id not in arrays:
                        arrays.add(t.id)
                        grew = True
            elif reads_values(n.value):
                for t in tg:
                    if isinstance(t, ast.Name) and t.id not in taint:
                        taint.add(t.id)
                        grew = True
    tests = [n.test for n in ast.walk(fn)
             if isinstance(n, (ast.If, ast.While, ast.IfExp))]
    bad = [t for t in tests if reads_values(t)]
    ctx.check('C03.S5.solve', 'solve is oblivious of the values', not bad,
              'a decision of the banded solver depends on the values of the '
              f'matrix / right-hand side (`{ast.unparse(bad[0]) if bad else ""}`'
              '): for some systems the result is not the solution of the '
              'system it was given', ctx.where(mod, bad[0] if bad else fn))
    clip = [n for n in ast.walk(fn) if isinstance(n, ast.Call) and
            ast.unparse(n.func) in ('max', 'min', 'np.maximum', 'np.minimum',
                                    'np.clip', 'np.where', 'abs', 'np.abs')
            and reads_values(n)]
    ctx.check('C03.S5.solve', 'solve does not clip values', not clip,
              'a value of the system is clipped / selected '
              f'(`{ast.unparse(clip[0]) if clip else ""}`): the elimination '
              'no longer solves the given system',
              ctx.where(mod, clip[0] if clip else fn))


# ---------------------------------------------------------------------------
def dispatch(ctx):
    sm = ctx.repo.mod(SOLVER)
    # the field is written by the kernels only (whose stores are confined to
    # interior edges, S4): smoothing() itself stores nothing into arrays
    sf0 = sm.func('smoothing')
    st0 = [n for n in ast.walk(sf0) if isinstance(n, (ast.Assign,
                                                      ast.AugAssign)) and any(
        isinstance(t, ast.Subscript) for t in (
            n.targets if isinstance(n, ast.Assign) else [n.target]))]
    st0 += [n for n in ast.walk(sf0) if isinstance(n, ast.AugAssign) and
            isinstance(n.target, ast.Attribute)]
    ctx.check('C03.S4.writes', 'smoothing() stores nothing into the field '
              'itself', not st0, f'`{au.stext(st0[0]) if st0 else ""}`: '
              'smoothing() writes array entries besides what the kernels '
              'relax (e.g. zeroing boundary faces): tangential boundary '
              'values are Dirichlet data of the relaxation and must not be '
              'written', ctx.where(sm, st0[0] if st0 else sf0))
    # adaptation table
    fn = sm.func('_current_lr_dir')
    ps = au.params(fn)
    for code in range(8):
        for pat in range(8):
            two = {a for a in range(3) if pat >> a & 1}
            shape = [2 if a in two else 3 for a in range(3)]
            fe = FiniteEval({ps[0]: code, f'{ps[1]}.shape_cells': shape},
                            where=sm.rel)
            r = fe.call(fn)
            want = [c for c, ax in LR_AXES.items()
                    if ax == LR_AXES[code] - two][0]
            ctx.check('C03.S6.adapt', f'_current_lr_dir code {code} '
                      f'two-cell axes {sorted(two)}', r == want,
                      f'returns {r}; relaxing along '
                      f'{sorted(LR_AXES[code] - two)} is code {want}',
                      ctx.where(sm, fn),
                      sample={'lr_dir': code, 'shape': shape, 'result': r})
    # dispatch in smoothing()
    sf = sm.func('smoothing')
    kcalls = [c for c in au.calls(sf) if ast.unparse(c.func).startswith(
        'core.gauss_seidel')]
    ctx.anchor(len(kcalls) == 4, 'four kernel calls in smoothing()')
    adapt = [n for n in ast.walk(sf) if isinstance(n, ast.Assign) and
             isinstance(n.value, ast.Call) and ast.unparse(n.value.func) ==
             '_current_lr_dir']
    ctx.anchor(len(adapt) == 1, 'smoothing() adapts lr_dir via '
               '_current_lr_dir')
    cname = ast.unparse(adapt[0].targets[0])
    # the code that selects the kernels is the ADAPTED one on every path: its
    # only definition is the unguarded adaptation call (a raw `lr_dir` taken
    # on some shapes runs line relaxation along a two-cell direction)
    cdefs = [n for n in ast.walk(sf) if isinstance(n, (ast.Assign,
                                                       ast.AugAssign))
             and any(ast.unparse(t) == cname for t in (
                 n.targets if isinstance(n, ast.Assign) else [n.target]))]
    ctx.check('C03.S6.dispatch', 'smoothing: dispatch code always adapted',
              len(cdefs) == 1 and cdefs[0] is adapt[0] and
              not au.guards_of(adapt[0], sf),
              f'`{cname}` has {len(cdefs)} definitions / a guarded '
              'adaptation: on some grids the requested line-relaxation code '
              'is used without removing two-cell directions',
              ctx.where(sm, cdefs[-1] if cdefs else sf))
    for c in kcalls:
        ctx.check('C03.S6.dispatch', f'smoothing: {ast.unparse(c.func)} after '
                  'adaptation', c.lineno > adapt[0].lineno,
                  'kernel called before the direction is adapted',
                  ctx.where(sm, c))
    want_kernel = {'core.gauss_seidel': None, 'core.gauss_seidel_x': 0,
                   'core.gauss_seidel_y': 1, 'core.gauss_seidel_z': 2}
    for code in range(8):
        called = set()
        for c in kcalls:
            gs = au.guards_of(c, sf)
            fe = FiniteEval({cname: code}, where=sm.rel)
            if all(bool(fe.ev(t)) == pol for t, pol in gs):
                called.add(ast.unparse(c.func))
        want = {k for k, ax in want_kernel.items()
                if (ax is None and code == 0) or (ax in LR_AXES[code])}
        ctx.check('C03.S6.dispatch', f'smoothing dispatch code {code}',
                  called == want, f'calls {sorted(called)}, the '
                  f'line-relaxation table says {sorted(want)}',
                  ctx.where(sm, sf), sample={'code': code,
                                             'kernels': sorted(called)})
    # smoothing always relaxes: no return before the kernels, no path from the
    # entry to the exit without a kernel call (an early exit for special
    # data, e.g. a zero source, makes the smoother non-affine)
    # (the dispatch table above shows that every code 0..7 reaches at least
    # one kernel; what remains is that nothing leaves the function earlier)
    last = max(c.lineno for c in kcalls)
    rets = [n for n in ast.walk(sf) if isinstance(n, (ast.Return, ast.Raise))
            and n.lineno < last and au.enclosing_func(n) is sf]
    ctx.check('C03.S6.dispatch', 'smoothing: every path relaxes',
              not rets, 'smoothing() can leave before a Gauss-Seidel kernel '
              'is called'
              + (f' (`{au.stext(au.enclosing(rets[0], ast.If) or rets[0])[:60]}`)'
                 if rets else ''), ctx.where(sm, rets[0] if rets else sf))
    # who may call the kernels
    for rel in ctx.repo.package_files():
        m = ctx.repo.mod(rel)
        for c in au.calls(m.tree):
            f = ast.unparse(c.func)
            if f.split('.')[-1] in ('gauss_seidel', 'gauss_seidel_x',
                                    'gauss_seidel_y', 'gauss_seidel_z'):
                ok = rel == SOLVER and au.qualname(c) == 'smoothing'
                ctx.check('C03.S6.callers', f'{rel} {au.qualname(c)} -> {f}',
                          ok, 'smoother kernel called outside '
                          'solver.smoothing (no direction adaptation)',
                          ctx.where(m, c))
    ctx.floor('C03.S6.adapt', 64)
    ctx.floor('C03.S6.dispatch', 12)
    ctx.floor('C03.S6.callers', 4)


def siblings(ctx, mod):
    """Thorough: the three line smoothers have the same shape (counts of
    matrix entries / rhs terms per block class)."""
    shapes = {}
    for line, fname in enumerate(('gauss_seidel_x', 'gauss_seidel_y',
                                  'gauss_seidel_z')):
        it = kernels.interpret(mod, fname)
        cnt = {}
        for name, j, val, c, node in it.symstores:
            lab = tuple(v for v in c['classes'].values() if v != 'all')
            if isinstance(val, Lin) and not val.iszero():
                key = (lab, 'pure' if val.ispure() else 'rhs')
                cnt[key] = cnt.get(key, 0) + 1
        shapes[fname] = cnt
    ref = shapes['gauss_seidel_x']
    for fname, cnt in shapes.items():
        ctx.check('C03.T.siblings', f'{fname} vs gauss_seidel_x', cnt == ref,
                  f'non-zero pattern {cnt} differs from {ref}',
                  sample={'kernel': fname, 'pattern': {str(k): v for k, v
                                                       in cnt.items()}})


def sweep_control(ctx, mod):
    """Control structure of the four smoothers, read off the syntax tree
    before any kernel is interpreted: every sweep visits every interior node
    / line (no data-dependent skip), and the ordering alternates from sweep
    to sweep (documented: forward, backward, forward, ...)."""
    for fname in ('gauss_seidel', 'gauss_seidel_x', 'gauss_seidel_y',
                  'gauss_seidel_z'):
        fn = mod.func(fname)
        loops = [n for n in fn.body if isinstance(n, ast.For)]
        nul = [l for l in loops if ast.unparse(l.iter).replace(' ', '') ==
               f'range({au.params(fn)[-1]})']
        ctx.anchor(len(nul) == 1, f'sweep loop of {fname}')
        nl = nul[0]
        jumps = [n for n in ast.walk(fn) if isinstance(n, (
            ast.Continue, ast.Break, ast.While, ast.Raise, ast.Try)) or (
                isinstance(n, ast.Return) and n is not fn.body[-1])]
        ctx.check('C03.S7.sweep', f'{fname}: no early exit from a sweep',
                  not jumps, 'a continue / break / return inside the smoother '
                  'leaves nodes of a sweep unrelaxed (their edges keep the '
                  'old values: not affine, not consistent)',
                  ctx.where(mod, jumps[0] if jumps else fn))
        data = [t for t in ast.walk(nl) if isinstance(t, ast.If) and any(
            isinstance(x, (ast.Subscript, ast.Call, ast.Attribute))
            for x in ast.walk(t.test))]
        ctx.check('C03.S7.sweep', f'{fname}: branches do not look at data',
                  not data, 'a branch inside the sweep depends on array '
                  'values: which equations are relaxed then depends on the '
                  'field / source', ctx.where(mod, data[0] if data else fn))
        # direction flag: the name the index switches test
        flags = {ast.unparse(t.test) for t in ast.walk(nl) if isinstance(
            t, ast.If) and isinstance(t.test, ast.Name)}
        ctx.anchor(len(flags) == 1, f'direction flag of {fname}')
        fl = flags.pop()
        init = [n for n in fn.body if isinstance(n, ast.Assign) and
                ast.unparse(n.targets[0]) == fl]
        sets = [n for n in ast.walk(nl) if isinstance(n, (
            ast.Assign, ast.AugAssign)) and ast.unparse(
                n.targets[0] if isinstance(n, ast.Assign) else n.target) == fl]
        ok = len(init) == 1 and isinstance(init[0].value, ast.Constant) and \
            len(sets) == 1 and sets[0] in nl.body
        seq = None
        if ok:
            cur, seq = init[0].value.value, []
            lv = ast.unparse(nl.target)
            upd = sets[0].value if isinstance(sets[0], ast.Assign) else \
                ast.BinOp(left=ast.Name(id=fl, ctx=ast.Load()),
                          op=sets[0].op, right=sets[0].value)
            try:
                for k in range(4):
                    cur = FiniteEval({fl: cur, lv: k},
                                     where=mod.rel).ev(upd)
                    seq.append(int(bool(cur)))
            except AnalysisError:
                seq = None
            ok = seq == [1 - int(bool(init[0].value.value)),
                         int(bool(init[0].value.value))] * 2
        ctx.check('C03.S7.sweep', f'{fname}: ordering alternates per sweep',
                  ok, f'direction flag `{fl}` over four sweeps: {seq}; '
                  'documented is the alternation forward / backward from one '
                  'sweep to the next (nu = 3 is nu = 2 followed by nu = 1)',
                  ctx.where(mod, sets[0] if sets else fn),
                  sample={'kernel': fname, 'flag sequence': seq})
    ctx.floor('C03.S7.sweep', 12)


def run(ctx):
    ctx.explanation = (
        'Each Gauss-Seidel kernel is abstractly interpreted (loop body once '
        'per first/generic/last block, no grid loop executed); the local '
        'systems handed to core.solve are decoded from their band indices '
        'and every block equation is compared, as a polynomial identity in '
        'the mesh/material symbols, with the row of the reference operator '
        '(the same A_ref that C02 proves equal to amat_x).')
    ctx.trusted = [
        'core.solve returns the exact solution of the banded system it is '
        'given (only its index/loop-bound structure is checked: S5)',
        'numba compiles the kernels faithfully',
        'exact rational arithmetic of the checker']
    mod = ctx.repo.mod(CORE)
    sweep_control(ctx, mod)
    point_smoother(ctx, mod)
    total = 0
    for line, fname in enumerate(('gauss_seidel_x', 'gauss_seidel_y',
                                  'gauss_seidel_z')):
        total += line_smoother(ctx, mod, fname, line)
    ctx.floor("C03.S2.row", 66)
    ctx.floor("C03.S4.writes", 39)
    solve_structure(ctx, mod)
    dispatch(ctx)
    if ctx.tier == 'thorough':
        siblings(ctx, mod)
