"""Claimed properties, levels and not-applicable reasons (source of MANIFEST)."""

ENGINES = [
    {'name': 'A-program-representation', 'path': 'sa/core',
     'serves_properties': ['C01', 'C02', 'C03', 'C04', 'C05', 'C07', 'C08',
                           'C09', 'C10', 'C11', 'C12', 'C13', 'C14', 'C15',
                           'C16', 'C17', 'C18', 'C19', 'C20'],
     'kind_free_text': 'ast loader with canonical forms, symbol lookup, AST '
                       'templates, statement CFG with dominators, '
                       'post-dominators and control dependence (control '
                       'conditions of anchored statements against a reference '
                       'table), reaching definitions, attribute-path '
                       'effects, finite-domain evaluator for decision code'},
    {'name': 'B-stencil-abstract-interpreter', 'path': 'sa/stencil',
     'serves_properties': ['C01', 'C02', 'C03', 'C04', 'C07', 'C09'],
     'kind_free_text': 'abstract interpretation of numba loop-nest kernels '
                       'into affine forms over field cells with rational-'
                       'function coefficients; polynomial-identity '
                       'obligations against a mechanically built reference '
                       'operator; interval analysis of indices'},
    {'name': 'C-expression-algebra', 'path': 'sa/expr',
     'serves_properties': ['C02', 'C09', 'C10', 'C13', 'C14', 'C16', 'C19'],
     'kind_free_text': 'lifting of small numpy expressions from the AST into '
                       'sympy / rational functions; equality by normal form'},
]

_T = 'static analysis: '

CLAIMS = {
    'C01': dict(
        level='other', engine='A-program-representation',
        technique=_T + 'CFG dataflow (guards, reaching definitions, '
        'freshness typestate of the error figure, in/out parameter '
        're-binding), slice-table extraction for PEC',
        design_ref='DESIGN.md 4/C01',
        text='Decides the code-shape chain behind "exit 0 => certified '
             'field": every CONVERGED store sits under a tolerance guard fed '
             'by a residual of the returned field with no field writer in '
             'between (or the zero-source certificate; the return code of the '
             'scipy Krylov solvers alone is not accepted, see F30), the '
             'exit status and info figures derive from that bookkeeping and '
             'are fresh, the caller-supplied field is never re-bound, all 12 '
             'PEC slices are zeroed and no solver-side writer stores to a '
             'tangential boundary edge, dtype is propagated, failure arms '
             'always store a non-success message. It does not bound any '
             'residual numerically.',
        note='Trusted: scipy returns info==maxiter at the limit and <0 on '
             'breakdown (its info==0 is NOT trusted as a certificate), '
             'Field.fx/fy/fz are views and Field.field setter writes in '
             'place (both read off source). Numerical size of residuals and '
             'the operator itself (C02) are not decided here.'),
    'C02': dict(
        level='proof', engine='B-stencil-abstract-interpreter',
        technique=_T + 'abstract interpretation of the amat_x loop body into '
        'symbolic stencil rows; polynomial identity against a mechanically '
        'transposed Curl^T M Curl - M_edge reference; lifted coefficient '
        'formulas; call-site role agreement',
        design_ref='DESIGN.md 3, 4/C02',
        text='Proves, for all grid shapes, widths, material symbols and '
             'fields at once, that the row amat_x computes on every unmasked '
             'edge (interior and each low-boundary case) is identically the '
             'row of Curl^T M_face(zeta) Curl - M_edge(eta), that masked rows '
             'are decoupled, that clamped indices flow only into masked rows, '
             'that eta/zeta are the documented formulas and that all kernel '
             'call sites pass arguments in their roles; thorough adds '
             'symmetry and gradient null-space of the extracted operator.',
        note='Trusted: numba compiles the Python source faithfully (fastmath '
             'rounding not modelled); exact rational arithmetic of the '
             'checker; numpy slice/broadcast semantics for cell volumes.'),
    'C03': dict(
        level='proof', engine='B-stencil-abstract-interpreter',
        technique=_T + 'abstract interpretation of the four Gauss-Seidel '
        'kernels and blocks_to_amat; polynomial identities tying local '
        'systems to operator rows; write-interval analysis; band-structure '
        'check of core.solve; dispatch tables by finite-domain evaluation',
        design_ref='DESIGN.md 4/C03',
        text='Proves for all inputs that the 6x6 point system and the 5x5 '
             'middle/left line blocks (first, middle, last block) are rows of '
             'the same operator as amat_x with a right-hand side free of the '
             'unknowns, that coefficients are field-free (affine update), '
             'that no tangential boundary edge is stored, that blocks land '
             'on the right band positions, and that the dispatch/adaptation '
             'tables are the canonical ones. The LDL^T elimination of '
             'core.solve is checked structurally only (band indices/bounds).',
        note='Trusted: exactness of core.solve given a correct band layout '
             '(only the subscript/loop-bound structure is decided); numba '
             'faithfulness.'),
    'C04': dict(
        level='proof', engine='B-stencil-abstract-interpreter',
        technique=_T + 'abstract interpretation of core.restrict (21 row '
        'forms) and restrict_weights; identity with the transpose of the '
        'prolongation structure read from solver.prolongation; seven-way '
        'sc_dir table agreement; child-slice enumeration of the model '
        'restriction',
        design_ref='DESIGN.md 4/C04',
        text='Proves on interior edges that each restrict row is the '
             'transpose of (duplicate along, bilinear across) prolongation, '
             'that the weights are the linear-interpolation weights of the '
             'every-second-node coarse grid, that prolongation adds into '
             '1:-1 slices only and its weights sum to one, that all seven '
             'places interpreting sc_dir agree, and that the coarse model is '
             'the coefficient-1 sum of exactly the 2^k children.',
        note='Trusted: np.searchsorted/clamp gives the containing interval; '
             'slice semantics; boundary edges excluded as in the property.'),
    'C05': dict(
        level='other', engine='A-program-representation',
        technique=_T + 'finite-domain evaluation of decision code into '
        'tables, predicate agreement over parity/size classes, recursion '
        'ranking and once-per-cycle placement on the CFG, who-may-call',
        design_ref='DESIGN.md 4/C05',
        text='Decides the table/predicate/placement clauses: sc/lr code '
             'tables agree everywhere, "can be halved" is the negation of '
             '"blocked" on every parity/size class, the only recursive call '
             'passes level+1 under the not-coarsest guard, sc/lr cycles '
             'advance exactly once per fine-grid cycle at level 0, the loop '
             'counter advances on every path, smoothing is the only caller '
             'of the kernels and always adapts the direction first, and the '
             'V/W/F cycle-index hand-over is the documented one. The visited '
             'level sequence itself is not executed.',
        note='Level order for concrete shapes would need running the '
             'recursion (not done).'),
    'C07': dict(
        level='other', engine='B-stencil-abstract-interpreter',
        technique=_T + 'anisotropy-case table agreement, chain-rule pairing, '
        'abstract interpretation of the edge-to-cell scatter and symbolic '
        'differentiation of the extracted operator rows w.r.t. sigma',
        design_ref='DESIGN.md 4/C07',
        text='Decides structural necessary conditions of gradient '
             'correctness: the material derivative of the extracted amat_x '
             'rows equals the V/4 scatter pattern of '
             'interp_edges_to_vol_averages, derivative_chain is applied once '
             'per kept component with its own property array after the '
             'folds, anisotropy case tables agree, adjoint-source pairing, '
             'NaN skip, tolerance switch. FD/adjoint agreement through the '
             'solves is not decided.',
        note='Sign/scale of adjoint source and the solves are not decided.'),
    'C08': dict(
        level='other', engine='A-program-representation',
        technique=_T + 'case/chain table extraction from jvec/jtvec and '
        'weight round-trip pairing',
        design_ref='DESIGN.md 4/C08',
        text='Decides the case tables and chain pairing of jvec, the slot '
             'discipline of its results and that jtvec divides by exactly '
             'the weights that _get_rfield multiplies back. J v as a '
             'derivative and adjointness through the solves are not decided.',
        note='Numerical adjointness not decided.'),
    'C09': dict(
        level='other', engine='B-stencil-abstract-interpreter',
        technique=_T + 'weight/index pairing of the trilinear point vector, '
        'NaN-mask comparison table, symbolic rotation formula, abstract '
        'interpretation of _edge_curl_factor against the curl of amat_x',
        design_ref='DESIGN.md 4/C09',
        text='Decides structural clauses: point-vector weights pair with '
             'their indices and sum to one, component grids are the right '
             'node/centre vectors, the NaN mask covers all six sides with '
             'the second/second-last node, rotation factors are the '
             'documented ones and shared by source and receiver, the curl of '
             'the magnetic field equals the operator curl with the '
             'width-weighted averaging. Equality with scipy interpolation '
             'and reciprocity numbers are not decided.',
        note='Trusted: RegularGridInterpolator(linear) is multilinear.'),
    'C10': dict(
        level='other', engine='C-expression-algebra',
        technique=_T + 'store-table extraction of _dipole_vector (weight/'
        'index pairing, partition of unity), guard placement in '
        'get_source_field, symbolic geometry of the electrode conversions',
        design_ref='DESIGN.md 4/C10',
        text='Decides structural clauses: dispatch of source types, '
             'strength and guarded -s mu0 scaling, the 12 stores of the '
             'dipole vector pair weights with indices and sum to the segment '
             'length, axis pairing of the final scaling, rotation formula, '
             'dipole/loop geometry identities. The conservation law through '
             'the clipping logic is not decided.',
        note='Clipping/cell-search branches are data dependent.'),
    'C11': dict(
        level='other', engine='A-program-representation',
        technique=_T + 'order-preserving-primitive check of process_map, '
        'task-list/slot-loop agreement at each call site, file-name key '
        'completeness, module-state effect analysis of the workers',
        design_ref='DESIGN.md 4/C11',
        text='Decides the order/slot clauses: every branch of process_map '
             'returns through an order-preserving map, each call site stores '
             'out[i] into the slot of the i-th task of the same iterable, '
             'file names are keyed by (what, source, frequency) and workers '
             'write no module state. Bit-identity of floats is not decided.',
        note='Trusted: map/Executor.map/tqdm process_map preserve order.'),
    'C12': dict(
        level='other', engine='A-program-representation',
        technique=_T + 'ownership/effect analysis of Simulation state '
        '(single-writer, invalidate-on-input-write, clean completeness, '
        'tolerance switch before every hand-over, deep copy)',
        design_ref='DESIGN.md 4/C12',
        text='Decides that cached/derived state stays coherent with (model, '
             'survey): stores to derived items outside their owner are '
             'followed by invalidate-or-restore on every path, stores to '
             'inputs invalidate dependents, clean resets every derived item, '
             'every task builder sets its tolerance, copies are deep.',
        note='Equality of numbers after file round-trips is C17.'),
    'C13': dict(
        level='other', engine='C-expression-algebra',
        technique=_T + 'symbolic lifting of the noise-model and misfit '
        'formulas, alias/origin analysis forbidding in-place updates of '
        'getter results, writer sets of the noise storage, selection table',
        design_ref='DESIGN.md 4/C13',
        text='Decides the formulas (std, weights, misfit incl. the layered '
             'twin), that no value aliased to stored noise data is mutated '
             'in place, that only the setters write the noise storage, that '
             'setters validate, and that select applies one selection to '
             'every data variable.',
        note='Floating-point summation order and xarray NaN semantics are '
             'not decided.'),
    'C14': dict(
        level='proof', engine='C-expression-algebra',
        technique=_T + 'symbolic lifting of the six Map classes (inverse '
        'and chain-rule identities by sympy normal form), must-pass-through '
        'of validation, backward-only taint to solver coefficients',
        design_ref='DESIGN.md 4/C14',
        text='Proves forward/backward are mutually inverse on positive '
             'values and derivative_chain multiplies by d backward/dx for '
             'all six maps; decides that every setter validates before the '
             'store and that mapped values reach coefficients only through '
             'map.backward.',
        note='Trusted: sympy simplification of log/exp identities on '
             'positive symbols. Equality of computed fields is numerical.'),
    'C15': dict(
        level='other', engine='A-program-representation',
        technique=_T + 'flag/guard pairing and kernel-shape checks of the '
        'volume-average path',
        design_ref='DESIGN.md 4/C15',
        text='Decides three structural clauses: log mode is chosen exactly '
             'for the non-log maps, log10 on entry and 10** on exit share '
             'one flag, identity shortcut, accumulate-then-normalise kernel '
             'shape. Conservation itself is not decided.',
        note='The merge loop of the weights is data dependent.'),
    'C16': dict(
        level='other', engine='A-program-representation',
        technique=_T + 'abstract interpretation of _stretch over array '
        'lengths and prefix sums (all if/else paths, sympy); templates, '
        'value resolution and CFG dominance for the search, failure, buffer, '
        'sea-surface and routing clauses',
        design_ref='DESIGN.md 4/C16 (as built)',
        text='Decides structural NECESSARY conditions of the post-conditions, '
             'not the numeric outcome of the search: (1) for every path of '
             '_stretch the returned widths have exactly nx - remain entries '
             '(nx with use_up), consist of [left extension reversed, provided '
             'centre widths unchanged, right extension] with extensions that '
             'are prefixes of first/last centre width times stretching**k, '
             'and the returned edges are the given edges moved by the sums '
             'of exactly those prefixes; success is reported only if both '
             'ends of the domain are reached and remain >= 0, failure is the '
             'sentinel the callers test; (2) origin_and_widths tries only the '
             'permitted cell numbers, draws stretching factors from [1, '
             's0] and [sa, s1], fills first the survey then the computation '
             'domain (use_up), accepts only a successful buffer fill and '
             'returns its origin and widths; (3) no mesh -> RuntimeError in '
             'origin_and_widths / construct_mesh for all three directions; '
             '(4) computation domain = survey domain + min(lambda_factor * '
             'wavelength, max_buffer) (and the lambda_from_center form), '
             'skin-depth / wavelength / cell-width formulas; (5) the '
             'sea-surface test and warning are made on the returned nodes on '
             'every path, a provided vector is kept, the extra stretching '
             'allowance is the documented one; (6) per-direction routing of '
             'centre, sea surface, properties and results in construct_mesh; '
             '(7) good_mg_cell_nr form, centre part, vector cut.',
        note='Not decided: that a fitting candidate is found when one exists, '
             'positivity / monotonicity of the numeric widths, brentq, '
             'estimate_gridding_opts defaults (only covered by the generic '
             'control-condition and def-use tables).  Trusted: np.r_, slice '
             'and cumsum/sum semantics.'),
    'C17': dict(
        level='other', engine='A-program-representation',
        technique=_T + 'writer/reader key-set agreement per registered '
        'class through the MRO, format/tag/sentinel sibling agreement',
        design_ref='DESIGN.md 4/C17',
        text='Decides that for each of the 12 registered classes the keys '
             'emitted by to_dict are accepted by from_dict/__init__ and every '
             'serialised name is an attribute, that save/load dispatch on the '
             'same extensions and agree on JSON tags, the None sentinel and '
             'the npz separator. Value/dtype preservation by h5py/numpy/json '
             'is not decided.',
        note='Third-party back-end behaviour is outside static reach.'),
    'C18': dict(
        level='other', engine='A-program-representation',
        technique=_T + 'documented-key / parser-key / API-parameter set '
        'agreement, precedence and unknown-key checks on the parser AST',
        design_ref='DESIGN.md 4/C18',
        text='Decides option routing: every documented key is parsed, every '
             'parsed key is accepted downstream, terminal values are tested '
             'before config values, unknown keys raise, documented types '
             'match the extraction. Numeric equality of CLI and API runs is '
             'not decided.',
        note='Effects of options at run time are not decided.'),
    'C19': dict(
        level='other', engine='A-program-representation',
        technique=_T + 'structural checks of extract_1d normalisation, '
        'finite-mask alignment, backward mapping and anisotropy formula',
        design_ref='DESIGN.md 4/C19',
        text='Decides structural clauses: extraction weights are normalised '
             'before use, one finite mask selects all per-frequency arrays, '
             'conductivities pass through map.backward, res/aniso formulas, '
             'point table, FD quotient. Agreement with empymod is not '
             'decided.',
        note='empymod semantics trusted.'),
    'C20': dict(
        level='other', engine='A-program-representation',
        technique=_T + 'predicate lifting of the three frequency masks and '
        'exhaustive evaluation over the order regions of (f, fmin, fmax)',
        design_ref='DESIGN.md 4/C20',
        text='Decides the partition clauses exhaustively over the finite '
             'order abstraction: extrapolate/interpolate/zero groups are '
             'disjoint and complete, compute and interpolate share the band '
             'predicate, interpolate() stores only through the two masks, '
             'pass-through branch, hand-over to the transform. Spline values '
             'are not decided.',
        note='Spline/PCHIP numerics not decided.'),
}

NOT_APPLICABLE = {
    'C06': 'A bound on measured residual-reduction factors across grid sizes; '
           'no static argument in reach bounds the spectral radius of the '
           'multigrid iteration, and no code-shape clause is a necessary '
           'condition whose breakage must break the bound.',
}
