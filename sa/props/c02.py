"""C02 - matrix-free operator equals the finite-integration discretisation.

Rules (DESIGN.md 4/C02):
  O1  amat_x row == Curl^T M_face Curl - M_edge, per component and boundary case
  O3  masked rows are exactly the tangential low-boundary edges and decoupled
  OF  write footprint: one store per residual component at the loop's own cell;
      no out-of-bounds subscript
  O4  VolumeModel / Field coefficient formulas; cell-volume axis order;
      anisotropy aliasing table
  O5  kernel call sites pass arguments in their roles; residual / matvec
      wrappers
  (thorough)  symmetry and gradient null-space of the *extracted* operator
"""
import ast

import sympy as sp

from ..core import astutil as au
from ..core.report import AnalysisError
from ..core.tables import FiniteEval
from ..expr.lift import Lifter, straight_paths, equal
from ..stencil import kernels
from ..stencil.alg import Aff, Lin, Rat, idx_key, fmt_atom
from ..stencil.interp import subst_lin
from ..stencil.reference import RefOp

LEVEL = 'proof'
CORE = 'emg3d/core.py'
ANISO = {'isotropic': (False, False), 'HTI': (True, False),
         'VTI': (False, True), 'triaxial': (True, True)}


def extract_rows(ctx, mod, fname='amat_x'):
    it = kernels.interpret(mod, fname)
    names = it.pnames
    return it, names


def operator_rows(ctx):
    mod = ctx.repo.mod(CORE)
    fn = mod.func('amat_x')
    it, names = extract_rows(ctx, mod)
    rnames, enames = names[0:3], names[3:6]
    ref = RefOp(fields=tuple(enames), widths=tuple(names[10:13]),
                etas=tuple(names[6:9]), zeta=names[9])
    nsym, problems = ref.selfcheck()
    ctx.need(not problems, f'reference operator self-check failed: {problems}')
    ctx.ok('C02.oracle', 'A_ref symmetric; Curl(Grad)=0', sample={
        'symmetric_pairs_checked': nsym}, obligation=True)

    for node, arr, ax, a, n, c in it.oob:
        ctx.fail('C02.OF.bounds', f'amat_x {arr} axis {ax} `{au.stext(node)}`',
                 f'subscript {a} can leave [0, {n}-1] of {arr}',
                 ctx.where(mod, node))
    ctx.ok('C02.OF.bounds', f'amat_x: {it.steps} abstract steps, no '
           'out-of-range subscript', nontrivial=not it.oob)

    # group stores by boundary case
    cases = {}
    for s in it.stores:
        key = tuple(sorted(s.ctx['classes'].items()))
        cases.setdefault(key, []).append(s)
    ctx.need(len(cases) >= 8, f'amat_x: only {len(cases)} boundary cases '
             f'distinguished (expected 8: low/rest per axis)')
    interior = {}
    for key, stores in sorted(cases.items()):
        label = ','.join(f'{k}={v}' for k, v in key)
        per = {}
        for s in stores:
            per.setdefault(s.arr, []).append(s)
        for a, rn in enumerate(rnames):
            st = per.get(rn, [])
            if len(st) != 1:
                ctx.fail('C02.OF.store', f'amat_x {rn} [{label}]',
                         f'{len(st)} stores to {rn} in one iteration '
                         f'(expected exactly one, at the loop cell)',
                         ctx.where(mod, st[1].node if len(st) > 1 else fn))
                continue
            s = st[0]
            own = (rn, idx_key(s.idx))
            row = -(s.value - Lin.cell(own))
            if own in row.terms or not row.c.iszero():
                ctx.fail('C02.O1.row', f'amat_x {rn} [{label}]',
                         'update is not of the form r -= (A e)',
                         ctx.where(mod, s.node), obligation=True)
                continue
            diag = (enames[a], idx_key(s.idx))
            boundary = any(s.idx[t].is_const() and s.idx[t].c == 0
                           for t in range(3) if t != a)
            if boundary:
                ok = set(row.terms) <= {diag}
                ctx.check('C02.O3.masked', f'amat_x {rn} [{label}]', ok,
                          'row of a tangential boundary edge is coupled to '
                          + ', '.join(fmt_atom(c) for c in
                                      sorted(set(row.terms) - {diag},
                                             key=repr)[:4]),
                          ctx.where(mod, s.node), obligation=True,
                          sample={'edge': fmt_atom(own), 'cells_in_row':
                                  [fmt_atom(c) for c in row.terms]})
            else:
                want = ref.row(a, s.idx)
                ok = row == want
                msg = ''
                if not ok:
                    bad = row.diff_first(want)
                    msg = ('stencil row differs from Curl^T M Curl - M_edge '
                           'at cells ' + ', '.join(fmt_atom(c) for c in bad[:4]))
                ctx.check('C02.O1.row', f'amat_x {rn} [{label}]', ok, msg,
                          ctx.where(mod, s.node), obligation=True,
                          sample={'edge': fmt_atom(own),
                                  'cells': len(row.terms),
                                  'coef_of_diagonal': repr(
                                      row.coef_of(diag))[:300]})
                if ok and all(v == 'rest' for _, v in key):
                    interior[a] = (s.idx, row)
    ctx.floor('C02.O1.row', 6)
    ctx.floor('C02.O3.masked', 18)
    return it, names, ref, interior


# ---------------------------------------------------------------------------
def thorough_operator(ctx, names, ref, interior):
    """Symmetry and gradient null-space of the extracted interior rows."""
    enames = names[3:6]
    if len(interior) != 3:
        ctx.note('UNPROVEN: symmetry/null-space skipped (interior rows '
                 'not all consistent)')
        return
    syms = [next(iter(interior[0][0][i].t)) for i in range(3)]

    def row_at(b, q):
        p0, row = interior[b]
        m = {syms[i]: q[i] for i in range(3)}
        return subst_lin(row, m)
    for a in range(3):
        p0, row = interior[a]
        me = (enames[a], idx_key(p0))
        bad = []
        for (fname, ik), c in row.terms.items():
            b = enames.index(fname)
            q = tuple(Aff.from_key(k) for k in ik)
            if not row_at(b, q).coef_of(me) == c:
                bad.append(fmt_atom((fname, ik)))
        ctx.check('C02.T.symmetry', f'extracted row {enames[a]}', not bad,
                  f'extracted operator is not symmetric at {bad[:3]}',
                  obligation=True,
                  sample={'row': enames[a], 'pairs': len(row.terms)})
        # null space of the curl-curl part
        etas = set(names[6:9])
        cc = row.map_coefs(lambda r: r.map_atoms(
            lambda at: Rat.const(0) if at[0] in etas else Rat.atom(at)))
        acc = Lin()
        for (fname, ik), c in cc.terms.items():
            b = enames.index(fname)
            q = tuple(Aff.from_key(k) for k in ik)
            g = (Lin.cell(('phi', idx_key(ref.sh(q, b, 1))))
                 - Lin.cell(('phi', idx_key(q)))) / ref.h(b, q[b])
            acc = acc + g * Lin.coef(c)
        ctx.check('C02.T.nullspace', f'extracted row {enames[a]}',
                  acc.iszero(), 'curl-curl part does not annihilate discrete '
                  'gradients', obligation=True,
                  sample={'row': enames[a], 'gradient_cells': len(cc.terms)})


# ---------------------------------------------------------------------------
def coefficients(ctx):
    """O4: eta, zeta, sval, smu0, volumes, anisotropy aliasing."""
    mm = ctx.repo.mod('emg3d/models.py')
    init = mm.method('VolumeModel', '__init__')
    loop = [n for n in init.body if isinstance(n, ast.For)]
    ctx.anchor(len(loop) == 1 and ast.unparse(loop[0].iter).startswith(
        'model._properties[:3]'), 'VolumeModel.__init__ property loop')
    loop = loop[0]
    lv = loop.target.id
    # vol definition
    vol_assign = [s for s in init.body if isinstance(s, ast.Assign)
                  and 'cell_volumes' in ast.unparse(s.value)]
    ctx.anchor(len(vol_assign) == 1, 'volume array in VolumeModel.__init__')
    volname = ast.unparse(vol_assign[0].targets[0])
    vtxt = ast.unparse(vol_assign[0].value)
    ctx.check('C02.O4.vol', 'VolumeModel.__init__ volumes',
              vtxt.replace(' ', '') ==
              "self.grid.cell_volumes.reshape(model.shape,order='F')",
              f'volume array is `{vtxt}`, expected the F-ordered reshape of '
              'grid.cell_volumes', ctx.where(mm, vol_assign[0]))
    gtxt = [ast.unparse(s.value) for s in init.body
            if isinstance(s, ast.Assign)
            and ast.unparse(s.targets[0]) == 'self.grid']
    ctx.check('C02.O4.vol', 'VolumeModel.__init__ grid',
              gtxt == ['meshes.BaseMesh(model.grid.h, model.grid.origin)'],
              f'self.grid is built as {gtxt}', ctx.where(mm, init))

    # the three directions are independent: no local of the loop body may be
    # read before it is (re)assigned in the same iteration, i.e. nothing is
    # carried from one direction to the next
    assigned = set()
    for n_ in ast.walk(loop):
        if isinstance(n_, (ast.Assign, ast.AugAssign)):
            for t_ in (n_.targets if isinstance(n_, ast.Assign)
                       else [n_.target]):
                if isinstance(t_, ast.Name):
                    assigned.add(t_.id)
    carried = []

    def loads(e):
        return [x for x in ast.walk(e) if isinstance(x, ast.Name) and
                isinstance(x.ctx, ast.Load)]

    def scan(stmts, defd):
        defd = set(defd)
        for st_ in stmts:
            if isinstance(st_, ast.If):
                for x in loads(st_.test):
                    if x.id in assigned and x.id not in defd:
                        carried.append(x)
                a_ = scan(st_.body, defd)
                b_ = scan(st_.orelse, defd)
                defd |= (a_ & b_)
            elif isinstance(st_, ast.Assign):
                for x in loads(st_.value):
                    if x.id in assigned and x.id not in defd:
                        carried.append(x)
                for t_ in st_.targets:
                    if isinstance(t_, ast.Name):
                        defd.add(t_.id)
            elif isinstance(st_, ast.AugAssign):
                for x in loads(st_.value) + (
                        [st_.target] if isinstance(st_.target, ast.Name)
                        else loads(st_.target)):
                    if x.id in assigned and x.id not in defd:
                        carried.append(x)
            else:
                for x in loads(st_):
                    if x.id in assigned and x.id not in defd:
                        carried.append(x)
        return defd
    scan(loop.body, {lv})
    ctx.check('C02.O4.eta', 'VolumeModel: directions computed independently',
              not carried, f'`{carried[0].id if carried else ""}` is read in '
              'the direction loop before it is assigned in the same '
              'iteration: a value of the previous direction (x) enters eta '
              'of the next (y, z)', ctx.where(mm, carried[0] if carried
                                              else loop))

    V, smu0, sval, eps0 = sp.symbols('V smu0 sval eps0')
    epsr, mur = sp.symbols('eps_r mu_r', positive=True)
    cond = sp.Symbol('sigma', positive=True)
    prop = sp.Symbol('prop')
    env = {volname: V, 'sfield.smu0': smu0, 'sfield.sval': sval,
           'sp.constants.epsilon_0': eps0, 'model.epsilon_r': epsr,
           'model.mu_r': mur, 'prop': prop,
           # other attributes of the source field are opaque symbols: an eta
           # built from them (|f| instead of s) is reported as a wrong
           # formula, not as an unsupported expression
           'sfield.frequency': sp.Symbol('abs_frequency', positive=True),
           'sfield._frequency': sp.Symbol('signed_frequency', real=True)}
    lf = Lifter(env, {'model.map.backward': lambda x: cond
                      if x == prop else sp.Function('backward')(x)},
                mm.rel, strict=True)
    # the loop body: prop = getattr(model, name) ...
    body = list(loop.body)
    ctx.anchor(isinstance(body[0], ast.Assign) and ast.unparse(
        body[0].value) == f'getattr(model, {lv})', 'prop = getattr(model, name)')
    pname = ast.unparse(body[0].targets[0])
    lf.env[pname] = prop
    stmts = body[1:]
    # last statement stores the result
    from ..core.template import same as same_t
    ctx.anchor(isinstance(stmts[-1], ast.Expr) and same_t(
        'setattr(self, __, __)', stmts[-1].value) is not None,
        'setattr(self, "_eta_" + name[-1], eta)')
    setcall = stmts[-1].value
    stored = ast.unparse(setcall.args[2])
    ctx.check('C02.O4.eta', 'VolumeModel eta attribute name',
              same_t(f"'_eta_' + {lv}[-1]", setcall.args[1]) is not None,
              'eta is stored under a name not derived '
              'from the property direction', ctx.where(mm, stmts[-1]))
    paths = straight_paths(stmts[:-1], lf)
    seen = set()
    for p in paths:
        none = p.holds(f'{pname} is None')
        noeps = p.holds('model.epsilon_r is None')
        val = p.env.get(stored, 'missing')
        if none is True or (none is None and val is None):
            want, tag = None, 'property absent'
        elif noeps is True:
            want, tag = -smu0 * V * cond, 'without epsilon_r'
        elif noeps is False:
            want, tag = -smu0 * V * (cond + sval * eps0 * epsr), \
                'with epsilon_r'
        else:
            ctx.fail('C02.O4.eta', 'VolumeModel: displacement term present '
                     'iff epsilon_r is given', 'the choice between '
                     '-s mu0 V sigma and -s mu0 V (sigma + s eps0 eps_r) is '
                     f'made under {[c for c, _ in p.conds]}: it may depend '
                     'only on `epsilon_r is None` (any value-dependent '
                     'shortcut changes the operator for those values)',
                     ctx.where(mm, loop))
            seen |= {'without epsilon_r', 'with epsilon_r'}   # reported
            continue
        seen.add(tag)
        if want is None:
            ok = val is None
        else:
            ok = val not in (None, 'missing') and equal(val, want)
        ctx.check('C02.O4.eta', f'VolumeModel eta ({tag})', ok,
                  f'eta is `{val}`, documented: `{want}`',
                  ctx.where(mm, loop), obligation=True,
                  sample={'path': tag, 'lifted': str(val), 'want': str(want)})
    ctx.need({'without epsilon_r', 'with epsilon_r'} <= seen,
             'eta paths with/without epsilon_r not both found')
    # zeta: statements after the loop
    after = init.body[init.body.index(loop) + 1:]
    lf2 = Lifter(dict(env), {}, mm.rel, strict=True)
    zpaths = straight_paths(after, lf2)
    for p in zpaths:
        z = p.env.get('self._zeta', 'missing')
        hasmu = p.holds('model.mu_r is not None')
        want = V / mur if hasmu else V
        ok = z != 'missing' and z is not None and equal(z, want)
        ctx.check('C02.O4.zeta', f'VolumeModel zeta (mu_r '
                  f'{"given" if hasmu else "absent"})', ok,
                  f'zeta is `{z}`, documented `{want}`', ctx.where(mm, init),
                  obligation=True, sample={'lifted': str(z), 'want': str(want)})
    # in-place division of zeta must not reach eta: eta loop precedes it
    # (alias groups of straight_paths make `zeta /= mu_r` change `vol` too)
    whole = straight_paths([s for s in init.body[init.body.index(
        vol_assign[0]) + 1:] if not isinstance(s, ast.For)], Lifter(
            dict(env), {}, mm.rel, strict=True))
    order_ok = init.body.index(loop) < min(
        [init.body.index(s) for s in after] or [10**6])
    volmut = [p for p in whole if p.env.get(volname) != V]
    ctx.check('C02.O4.zeta', 'VolumeModel: volumes intact while eta is formed',
              order_ok or not volmut,
              'the volume array is modified in place before eta is computed',
              ctx.where(mm, init))

    # anisotropy aliasing of eta_y / eta_z
    for comp, idx in (('eta_y', 0), ('eta_z', 1)):
        g = mm.method('VolumeModel', comp)
        for case, flags in ANISO.items():
            fe = FiniteEval({'self.case': case, 'self._eta_x': 'x',
                             'self._eta_y': 'y', 'self._eta_z': 'z'},
                            where=mm.rel)
            r = fe.call(g)
            want = comp[-1] if flags[idx] else 'x'
            ctx.check('C02.O4.aniso', f'VolumeModel.{comp} case {case}',
                      r == want, f'returns eta_{r}, anisotropy table says '
                      f'eta_{want}', ctx.where(mm, g))
    gx = mm.method('VolumeModel', 'eta_x')
    ctx.check('C02.O4.aniso', 'VolumeModel.eta_x',
              ast.unparse(au.body_nodoc(gx)[-1]) == 'return self._eta_x',
              'eta_x does not return _eta_x', ctx.where(mm, gx))
    gz = mm.method('VolumeModel', 'zeta')
    ctx.check('C02.O4.aniso', 'VolumeModel.zeta',
              ast.unparse(au.body_nodoc(gz)[-1]) == 'return self._zeta',
              'zeta does not return _zeta', ctx.where(mm, gz))

    # sval / smu0 in Field
    fm = ctx.repo.mod('emg3d/fields.py')
    f = sp.Symbol('f', real=True)
    for pname_, wants in (('sval', None), ('smu0', None)):
        g = [m for m in fm.methods('Field', pname_)
             if 'property' in au.decorator_names(m)]
        ctx.anchor(len(g) == 1, f'Field.{pname_} getter')
        g = g[0]
        stores = [n for n in ast.walk(g) if isinstance(n, ast.Assign)
                  and ast.unparse(n.targets[0]) == f'self._{pname_}']
        for n in stores:
            if isinstance(n.value, ast.Constant) and n.value.value is None:
                continue
            lf3 = Lifter({'self._frequency': f, 'self.sval': sval,
                          'sp.constants.mu_0': sp.Symbol('mu0')}, {},
                         fm.rel, strict=True)
            val = lf3.lift(n.value)
            if pname_ == 'sval':
                gs = [(ast.unparse(t), pol) for t, pol in au.guards_of(n, g)]
                neg = [pol for t, pol in gs if t == 'self._frequency < 0']
                ctx.anchor(len(neg) == 1, 'Laplace/frequency guard in '
                           'Field.sval')
                want = -f if neg[0] else 2 * sp.I * sp.pi * f
                tag = 'Laplace' if neg[0] else 'frequency'
            else:
                want, tag = sval * sp.Symbol('mu0'), 'smu0'
            ctx.check('C02.O4.sval', f'Field.{pname_} ({tag})',
                      equal(val, want), f'{pname_} is `{val}`, documented '
                      f'`{want}`', ctx.where(fm, n), obligation=True,
                      sample={'lifted': str(val), 'want': str(want)})
    ctx.floor('C02.O4.sval', 3)

    # cell volumes: V[i,j,k] = hx[i] hy[j] hz[k] after C-ravel + F-reshape
    me = ctx.repo.mod('emg3d/meshes.py')
    # the widths the volumes (and the kernels) work with are float64 arrays
    # of the mesh's own, whatever array type the caller handed in
    binit = me.method('BaseMesh', '__init__')
    hpar = au.params(binit)[1]
    hs = [n for n in ast.walk(binit) if isinstance(n, ast.Assign) and
          ast.unparse(n.targets[0]) == 'self.h']
    ctx.anchor(len(hs) == 1, 'self.h = ... in BaseMesh.__init__')
    elts = hs[0].value.elts if isinstance(hs[0].value, (ast.List, ast.Tuple)) \
        else []
    okh = len(elts) == 3 and all(
        isinstance(e, ast.Call) and ast.unparse(e.func) in (
            'np.array', 'np.asarray', 'np.ascontiguousarray') and
        ast.unparse(e.args[0]) == f'{hpar}[{a}]' and any(
            k.arg == 'dtype' and ast.unparse(k.value) in (
                'float', 'np.float64', "'float64'") for k in e.keywords)
        for a, e in enumerate(elts))
    ctx.check('C02.O4.vol', 'BaseMesh stores the widths as float64 arrays',
              okh, 'the widths are not stored as float64 arrays of h[0], '
              'h[1], h[2] (float32 / float16 widths would be kept): cell '
              'volumes, eta and zeta are then computed in single precision '
              'and the operator is not the finite-integration operator of '
              'the given widths to rounding', ctx.where(me, hs[0]))
    cv = me.method('BaseMesh', 'cell_volumes')
    prod = [n for n in ast.walk(cv) if isinstance(n, ast.Assign)
            and ast.unparse(n.targets[0]) == 'self._cell_volumes']
    ctx.anchor(len(prod) == 1, 'BaseMesh.cell_volumes product')
    val = prod[0].value
    ctx.anchor(isinstance(val, ast.Call) and isinstance(val.func, ast.Attribute)
               and val.func.attr == 'ravel', 'ravel of the volume product')
    order = 'C'
    for kw in val.keywords:
        if kw.arg == 'order':
            order = kw.value.value
    if val.args:
        order = val.args[0].value
    factors = []

    def flat(n):
        if isinstance(n, ast.BinOp) and isinstance(n.op, ast.Mult):
            flat(n.left)
            flat(n.right)
        else:
            factors.append(n)
    flat(val.func.value)
    axes = {}
    for fct in factors:
        ok = (isinstance(fct, ast.Subscript) and isinstance(fct.value,
              ast.Subscript) and ast.unparse(fct.value.value) == 'self.h'
              and isinstance(fct.slice, ast.Tuple))
        if not ok:
            # (new temporaries were propagated by the loader: what is left is
            # a factor that is not a stored width vector)
            ctx.fail('C02.O4.vol', 'BaseMesh.cell_volumes: product of the '
                     'stored widths', f'the factor `{ast.unparse(fct)[:60]}` '
                     'of the cell volumes is not one of the stored width '
                     'vectors self.h[a] (e.g. widths re-derived as '
                     'differences of node coordinates lose digits at large '
                     'origins): V in eta and zeta is no longer hx*hy*hz of '
                     'the widths the curls use', ctx.where(me, fct))
            return
        hax = fct.value.slice.value
        pos = [i for i, e in enumerate(fct.slice.elts)
               if isinstance(e, ast.Slice)]
        ctx.anchor(len(pos) == 1 and len(fct.slice.elts) == 3,
                   'broadcast position of a width vector')
        axes[hax] = pos[0]
    # C-order ravel of array indexed [a0,a1,a2] then F-order reshape to
    # (n0,n1,n2): element [i,j,k] of the result is flat index i + n0 j + n0 n1 k,
    # i.e. fastest axis first.  C-ravel makes broadcast axis 2 the fastest.
    if order == 'C':
        want = {0: 2, 1: 1, 2: 0}
    else:
        want = {0: 0, 1: 1, 2: 2}
    ctx.check('C02.O4.vol', 'BaseMesh.cell_volumes axis order', axes == want,
              f'width axes are broadcast at positions {axes}; with ravel '
              f'order {order} and the F-ordered reshape V[i,j,k] = '
              f'hx[i]hy[j]hz[k] needs {want}', ctx.where(me, prod[0]),
              sample={'broadcast_axes': axes, 'ravel_order': order})
    ctx.floor('C02.O4.eta', 3)
    ctx.floor('C02.O4.aniso', 10)


# ---------------------------------------------------------------------------
TAGS = {'fx': 'fx', 'fy': 'fy', 'fz': 'fz', 'eta_x': 'eta_x', 'eta_y': 'eta_y',
        'eta_z': 'eta_z', 'zeta': 'zeta'}


def arg_tag(n):
    if isinstance(n, ast.Attribute) and n.attr in TAGS:
        return n.attr, ast.unparse(n.value)
    if isinstance(n, ast.Subscript) and isinstance(n.value, ast.Attribute) \
            and n.value.attr == 'h' and isinstance(n.slice, ast.Constant):
        return f'h{n.slice.value}', ast.unparse(n.value.value)
    return None, ast.unparse(n)


AMAT_TAGS = ['fx', 'fy', 'fz', 'fx', 'fy', 'fz', 'eta_x', 'eta_y', 'eta_z',
             'zeta', 'h0', 'h1', 'h2']
GS_TAGS = AMAT_TAGS + ['nu']


def expand_args(fn, call):
    """Positional arguments with `*name` expanded from a tuple assignment."""
    out = []
    for a in call.args:
        if isinstance(a, ast.Starred):
            ok = isinstance(a.value, ast.Name)
            tup = None
            if ok:
                for n in au.walk_local(fn):
                    if isinstance(n, ast.Assign) and len(n.targets) == 1 and \
                            ast.unparse(n.targets[0]) == a.value.id and \
                            isinstance(n.value, ast.Tuple):
                        tup = n.value
            if tup is None:
                raise AnalysisError(f'cannot resolve starred argument '
                                    f'`{ast.unparse(a)}`')
            out.extend(tup.elts)
        else:
            out.append(a)
    return out


def call_sites(ctx):
    """O5: arguments of every kernel call are in their roles."""
    sm = ctx.repo.mod('emg3d/solver.py')
    n_sites = 0
    for mod in (sm, ctx.repo.mod('emg3d/fields.py'),
                ctx.repo.mod('emg3d/simulations.py'),
                ctx.repo.mod('emg3d/maps.py')):
        for c in au.calls(mod.tree):
            f = ast.unparse(c.func)
            if f == 'core.amat_x':
                tags = AMAT_TAGS
            elif f in ('core.gauss_seidel', 'core.gauss_seidel_x',
                       'core.gauss_seidel_y', 'core.gauss_seidel_z'):
                tags = GS_TAGS
            else:
                continue
            n_sites += 1
            fn = au.enclosing_func(c)
            args = expand_args(fn, c)
            where = ctx.where(mod, c)
            cons = f'{au.qualname(c)} -> {f}'
            if len(args) != len(tags):
                ctx.fail('C02.O5.roles', cons, f'{len(args)} arguments for '
                         f'{len(tags)} parameters', where)
                continue
            bases = []
            ok = True
            for i, (a, t) in enumerate(zip(args, tags)):
                if t == 'nu':
                    continue
                got, base = arg_tag(a)
                if got is None:
                    # a local: what it may stand for (all its bindings, also
                    # those of the enclosing function for a closure)
                    chain = [fn] + [x_ for x_ in au.ancestors(fn)
                                    if isinstance(x_, ast.FunctionDef)]
                    vals = [arg_tag(v_) for v_ in au.values_of(a, chain)]
                    if any(g_ is None for g_, _b in vals):
                        raise AnalysisError(
                            f'{mod.rel}:{c.lineno}: unrecognised argument '
                            f'idiom `{ast.unparse(a)}` in kernel call')
                    gots = {g_ for g_, _b in vals}
                    base = sorted({b_ for _g, b_ in vals})[0]
                    got = t if gots == {t} else sorted(gots - {t})[0]
                bases.append(base)
                if got != t:
                    ok = False
                    ctx.fail('C02.O5.roles', cons + f' arg {i}',
                             f'argument `{ast.unparse(a)}` may be {got} '
                             f'where the kernel expects {t}', where)
            if ok:
                # first and second field triple from two different objects,
                # each triple from one object; coefficients from one model
                c1, c2 = set(bases[0:3]), set(bases[3:6])
                same = len(c1) == 1 and len(c2) == 1 and c1 != c2 and \
                    len(set(bases[6:10])) == 1
                ctx.check('C02.O5.roles', cons, same,
                          'field/coefficient arguments are mixed between '
                          f'objects: {bases}', where,
                          sample={'site': cons, 'args': [ast.unparse(a)
                                                         for a in args]})
    ctx.floor('C02.O5.roles', 6)

    # residual(): r = s - A e
    res = sm.func('residual')
    ps = au.params(res)
    body = au.body_nodoc(res)
    first = body[0]
    ok = isinstance(first, ast.Assign) and ast.unparse(first.value) == \
        f'{ps[1]}.copy()'
    rname = ast.unparse(first.targets[0]) if isinstance(first, ast.Assign) \
        else '?'
    call = au.calls(res, 'core.amat_x')
    ctx.anchor(len(call) == 1, 'core.amat_x call in residual()')
    args = call[0].args
    ok = ok and all(ast.unparse(a.value) == rname for a in args[0:3]
                    if isinstance(a, ast.Attribute)) and \
        all(ast.unparse(a.value) == ps[2] for a in args[3:6]
            if isinstance(a, ast.Attribute)) and \
        all(ast.unparse(a.value) == ps[0] for a in args[6:10]
            if isinstance(a, ast.Attribute))
    rets = [n for n in ast.walk(res) if isinstance(n, ast.Return)]
    retok = all(rname in ast.unparse(r.value) for r in rets) and len(rets) >= 1
    ctx.check('C02.O5.wrapper', 'solver.residual', ok and retok,
              'residual() is not `copy of the source, minus operator applied '
              'to the field` built from its own parameters',
              ctx.where(sm, res), sample={'r0': ast.unparse(first)})
    # krylov matvec: 0 - A e, negated
    kry = sm.func('krylov')
    mv = [n for n in kry.body if isinstance(n, ast.FunctionDef)
          and au.calls(n, 'core.amat_x')]
    ctx.anchor(len(mv) == 1, 'matvec closure with core.amat_x in krylov()')
    mv = mv[0]
    rets = [n for n in ast.walk(mv) if isinstance(n, ast.Return)]
    c = au.calls(mv, 'core.amat_x')[0]
    rbase = ast.unparse(c.args[0].value)
    fresh = [n for n in mv.body if isinstance(n, ast.Assign) and ast.unparse(
        n.targets[0]) == rbase and ast.unparse(n.value.func) == 'fields.Field'
        and len(n.value.args) == 1]
    neg = len(rets) == 1 and isinstance(rets[0].value, ast.UnaryOp) and \
        isinstance(rets[0].value.op, ast.USub) and ast.unparse(
            rets[0].value.operand) == f'{rbase}.field'
    ctx.check('C02.O5.wrapper', 'solver.krylov matvec', bool(fresh) and neg,
              'Krylov matvec is not `-(0 - A e)` on a fresh zero field',
              ctx.where(sm, mv), sample={'return': ast.unparse(rets[0])
                                         if rets else None})
    return n_sites


def field_shapes(ctx):
    """The array shapes assumed for the kernel parameters (sa/stencil/
    kernels.py) are those of Field.fx/fy/fz and BaseMesh."""
    from ..core.template import has
    me = ctx.repo.mod('emg3d/meshes.py')
    init = me.method('BaseMesh', '__init__')
    want = {'edges_x': ('cells', 'nodes', 'nodes'),
            'edges_y': ('nodes', 'cells', 'nodes'),
            'edges_z': ('nodes', 'nodes', 'cells'),
            'faces_x': ('nodes', 'cells', 'cells'),
            'faces_y': ('cells', 'nodes', 'cells'),
            'faces_z': ('cells', 'cells', 'nodes')}
    from ..core.template import find
    NN = ['_n_ = (self.h[0].size + 1, self.h[1].size + 1, '
          'self.h[2].size + 1)',
          '_n_ = tuple((_v_.size + 1 for _v_ in self.h))',
          '_n_ = tuple((self.h[_v_].size + 1 for _v_ in range(3)))']
    CC = ['_c_ = (self.h[0].size, self.h[1].size, self.h[2].size)',
          '_c_ = tuple((_v_.size for _v_ in self.h))',
          '_c_ = tuple((self.h[_v_].size for _v_ in range(3)))']
    nn = [m_ for p_ in NN for m_ in find(p_, init)]
    cc = [m_ for p_ in CC for m_ in find(p_, init)]
    ctx.anchor(len(nn) == 1 and len(cc) == 1, 'node / cell count tuples in '
               'BaseMesh.__init__')
    nm = {'nodes': nn[0][1]['_n_'], 'cells': cc[0][1]['_c_']}
    for k, kinds in want.items():
        pat = 'self.shape_' + k + ' = (' + ', '.join(
            f'{nm[kd]}[{i}]' for i, kd in enumerate(kinds)) + ')'
        ctx.check('C02.O5.shapes', f'BaseMesh.shape_{k}', has(pat, init),
                  f'shape of {k} is not ({", ".join(kinds)}): the staggered '
                  'location of this component changed', ctx.where(me, init))
    ctx.check('C02.O5.shapes', 'BaseMesh node/cell counts',
              len(nn) == 1 and len(cc) == 1,
              'nodes = cells + 1 does not hold',
              ctx.where(me, init))
    fm = ctx.repo.mod('emg3d/fields.py')
    for comp, sl in (('fx', 'self._field[:_i_]'),
                     ('fy', 'self._field[_i_:-_j_]'),
                     ('fz', 'self._field[-_i_:]')):
        g = [m for m in fm.methods('Field', comp)
             if 'property' in au.decorator_names(m)][0]
        ok = has(f"return {sl}.reshape(_s_, order='F')", g) and has(
            f"_s_ = self._get_prop('shape', '{comp[1]}')", g)
        ctx.check('C02.O5.shapes', f'Field.{comp} view', ok,
                  f'{comp} is not the F-ordered view of its part of the '
                  'field vector with the component shape', ctx.where(fm, g))
    gp = fm.method('Field', '_get_prop')
    ctx.check('C02.O5.shapes', 'Field._get_prop: edges for electric fields',
              has("_n_ += 'edges' if self.electric else 'faces'", gp),
              'electric fields do not live on edges', ctx.where(fm, gp))


def model_aliasing(ctx):
    """The volume-averaged model is computed FROM the model, never INTO it:
    no in-place operation in VolumeModel.__init__ acts on a value that may
    be one of the model's own arrays.  May-alias facts are read off the
    code: getattr(model, ..)/model.<x> are the model's arrays; a Map.backward
    that returns its argument (MapConductivity) passes the alias on, as do
    plain re-binding, np.asarray(x[, dtype]) and reshape."""
    mm = ctx.repo.mod('emg3d/models.py')
    init = mm.method('VolumeModel', '__init__')
    mp = ctx.repo.mod('emg3d/maps.py')
    passes = False
    for c in mp.classes():
        if c.name.startswith('Map'):
            for f in c.body:
                if isinstance(f, ast.FunctionDef) and f.name == 'backward':
                    par = au.params(f)[1]
                    if any(isinstance(r, ast.Return) and isinstance(
                            r.value, ast.Name) and r.value.id == par
                            for r in ast.walk(f)):
                        passes = True
    mpar = au.params(init)[1]
    alias = set()

    def may_alias(e):
        if isinstance(e, ast.Name):
            return e.id in alias
        if isinstance(e, ast.Attribute):
            return ast.unparse(e.value) == mpar or may_alias(e.value) \
                if e.attr in ('T', 'real') or ast.unparse(e.value) == mpar \
                else False
        if isinstance(e, ast.Subscript):
            return may_alias(e.value)
        if isinstance(e, ast.Call):
            f = ast.unparse(e.func)
            if f == 'getattr' and e.args and ast.unparse(e.args[0]) == mpar:
                return True
            if f.endswith('.map.backward') and passes:
                return any(may_alias(a) for a in e.args)
            if f in ('np.asarray', 'np.asanyarray', 'np.asfortranarray',
                     'np.ascontiguousarray', 'np.real', 'np.atleast_1d'):
                return any(may_alias(a) for a in e.args[:1])
            if isinstance(e.func, ast.Attribute) and e.func.attr in (
                    'reshape', 'view', 'ravel', 'squeeze', 'transpose'):
                return may_alias(e.func.value)
        return False
    sts = sorted((n for n in ast.walk(init)
                  if isinstance(n, (ast.Assign, ast.AugAssign))),
                 key=lambda n: (n.lineno, n.col_offset))
    changed = True
    while changed:
        changed = False
        for st in sts:
            if isinstance(st, ast.Assign) and may_alias(st.value):
                for t in st.targets:
                    if isinstance(t, ast.Name) and t.id not in alias:
                        alias.add(t.id)
                        changed = True
    n = 0
    for st in sts:
        tg = st.target if isinstance(st, ast.AugAssign) else None
        if tg is None:
            for t in st.targets:
                if isinstance(t, ast.Subscript) and may_alias(t.value):
                    tg = t
        if tg is None:
            continue
        n += 1
        base = tg.value if isinstance(tg, ast.Subscript) else tg
        bad = may_alias(base)
        ctx.check('C02.O4.alias', f'VolumeModel.__init__ `{au.stext(st)[:50]}`',
                  not bad, f'in-place operation on `{ast.unparse(base)}`, '
                  'which may be an array of the input model (e.g. '
                  'MapConductivity.backward returns its argument): the model '
                  'is changed by building its volume-averaged copy, every '
                  'later use sees other values', ctx.where(mm, st))
    ctx.need(passes, 'no Map.backward returns its argument (alias source)')
    ctx.need(n >= 1, 'no in-place statement in VolumeModel.__init__')


def fresh_vmodel(ctx, rule='C02.O5.wrapper'):
    """solve() works on the volume-averaged model OF ITS ARGUMENTS: the name
    handed to residual/multigrid/krylov has exactly one definition, the
    constructor call on the parameters of this call (a remembered instance
    belongs to the model values and frequency of an earlier call)."""
    sm = ctx.repo.mod('emg3d/solver.py')
    sv = sm.func('solve')
    ps = au.params(sv)
    cons = [c for c in au.calls(sv) if ast.unparse(c.func).endswith(
        'VolumeModel')]
    ctx.anchor(len(cons) >= 1, 'VolumeModel construction in solve()')
    users = [c for c in au.calls(sv) if ast.unparse(c.func) in (
        'residual', 'multigrid', 'krylov') and c.args and
        isinstance(c.args[0], ast.Name)]
    names = {c.args[0].id for c in users}
    ctx.anchor(len(users) >= 3 and len(names) == 1,
               'residual/multigrid/krylov(vmodel, ...) calls in solve()')
    vn = names.pop()
    defs = [n for n in ast.walk(sv) if isinstance(n, (ast.Assign,
                                                      ast.AugAssign))
            and any(isinstance(t, ast.Name) and t.id == vn for t in (
                n.targets if isinstance(n, ast.Assign) else [n.target]))]
    direct = len(defs) == 1 and defs[0].value is cons[0] and \
        [ast.unparse(a) for a in cons[0].args] == ps[:2] and \
        not au.guards_of(defs[0], sv)
    ctx.check(rule, 'solve: volume-averaged model built from the arguments '
              'of this call', direct, f'`{vn}` has definitions '
              f'{[au.stext(d)[:60] for d in defs]}: the operator may belong '
              'to model values of an earlier call (models are updated in '
              'place between solves)', ctx.where(sm, defs[0] if defs else sv))


def run(ctx):
    ctx.explanation = (
        'amat_x is abstractly interpreted (loop body once per boundary case, '
        'no grid loop executed); each extracted stencil row is compared as a '
        'polynomial identity in the symbols hx,hy,hz,zeta,eta_* with the row '
        'of Curl^T M_face Curl - M_edge assembled mechanically by the '
        'checker; coefficient formulas are lifted from VolumeModel/Field.')
    ctx.trusted = [
        'numba compiles amat_x faithfully to its Python source (fastmath '
        'rounding not modelled)',
        'exact rational arithmetic of the checker (fractions.Fraction)',
        'numpy broadcasting / ravel(order=C) / reshape(order=F) semantics',
        'sympy simplification for the three-term coefficient formulas']
    it, names, ref, interior = operator_rows(ctx)
    coefficients(ctx)
    model_aliasing(ctx)
    call_sites(ctx)
    fresh_vmodel(ctx)
    field_shapes(ctx)
    if ctx.tier == 'thorough':
        thorough_operator(ctx, names, ref, interior)
